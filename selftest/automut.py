#!/usr/bin/env python3
"""development-time self-validation: mechanical single-edit mutants of the functions the properties are anchored in.

For every anchored function an AST walk produces one mutant per site and operator class
  cmp    comparison operator relaxed / tightened / negated          (<  <->  <=,  >  <->  >=,  ==  <->  !=)
  const  integer literal n -> n + 1 and n -> n - 1                   (off by one; 0 and 1 included)
  arith  + <-> -                                                      (sign slips)
  kwdrop one keyword argument of a call dropped                      (the callee's default takes over)
  argswap two adjacent positional arguments of a call swapped
  slice  slice bound b -> b - 1 / b + 1                              (lower and upper)
  not    condition of an `if` negated
Each mutant is applied to a scratch copy of the library (never to /repo) and the quick tier of the checks of the properties
the function is anchored in is run against it.  Survivors are listed for triage (equivalent / outside the property / gap).

usage: automut.py --list | --run [--prop C07] [--func fshift] [--jobs 4] [--max N] [--out file]
"""
import argparse
import ast
import concurrent.futures as cf
import copy
import json
import os
import shutil
import subprocess
import sys
import tempfile
from pathlib import Path

HOME = Path(__file__).resolve().parents[1]
REPO = Path(os.environ.get("VERIF_REPO", "/repo"))

# file -> {qualified function name: [properties]}
ANCHORS = {
    "spikeglx.py": {
        "Reader.__init__": ["C02", "C01"], "Reader.open": ["C11"], "Reader.read": ["C01", "C02"], "Reader.__getitem__": ["C01"],
        "Reader.read_samples": ["C01"], "Reader.read_sync_digital": ["C10"], "Reader.read_sync_analog": ["C10"], "Reader.read_sync": ["C10"],
        "Reader.compress_file": ["C02"], "Reader.decompress_file": ["C02"], "Reader.decompress_to_scratch": ["C02"],
        "Reader.ns": ["C11", "C09"], "Reader.rl": ["C11"], "Reader.shape": ["C11"], "Reader.range_volts": ["C09", "C16"],
        "OnlineReader.ns": ["C11"], "_get_companion_file": ["C02"],
        "read_meta_data": ["C09"], "write_meta_data": ["C09"], "_get_savedChans_subset": ["C03"], "_get_serial_number_from_meta": ["C09"],
        "_get_neuropixel_version_from_meta": ["C09", "C08"], "_get_neuropixel_major_version_from_meta": ["C09", "C08"],
        "_get_max_int_from_meta": ["C09", "C01"], "_get_sync_trace_indices_from_meta": ["C09", "C10", "C01"],
        "_get_analog_sync_trace_indices_from_meta": ["C10", "C09"], "_get_nchannels_from_meta": ["C09"], "_get_nshanks_from_meta": ["C09"],
        "_get_fs_from_meta": ["C09"], "_get_type_from_meta": ["C09"], "_split_geometry_into_shanks": ["C08", "C03"],
        "_map_channels_from_meta": ["C08"], "geometry_from_meta": ["C08", "C01"], "_conversion_sample2v_from_meta": ["C09", "C01"],
        "split_sync": ["C10"],
    },
    "neuropixel.py": {
        "xy2rc": ["C08"], "rc2xy": ["C08"], "dense_layout": ["C08"], "adc_shifts": ["C08", "C05"], "trace_header": ["C08"], "split_trace_header": ["C08"],
        "NP2Converter.init_params": ["C03", "C12", "C04"], "NP2Converter.process": ["C04"], "NP2Converter._prepare_files_NP24": ["C03", "C04"],
        "NP2Converter._prepare_files_NP21": ["C12", "C04"], "NP2Converter._process_NP24": ["C03", "C04", "C12"], "NP2Converter._process_NP21": ["C12", "C04"],
        "NP2Converter._split2shanks": ["C03"], "NP2Converter._ind2save": ["C03", "C12"], "NP2Converter.extract_lfp": ["C12"],
        "NP2Converter.extract_lfp_sync": ["C12"], "NP2Converter.check_NP24": ["C04"], "NP2Converter.compress_NP24": ["C04"], "NP2Converter.compress_NP21": ["C04"],
        "NP2Converter.delete_NP24": ["C04"], "NP2Converter._writemetadata_ap": ["C03"], "NP2Converter._writemetadata_lf": ["C12", "C03"],
        "NP2Converter.check_metadata": ["C04"], "NP2Converter._closefiles": ["C04", "C03"],
        "NP2Reconstructor.__init__": ["C03"], "NP2Reconstructor.process": ["C03"], "NP2Reconstructor._prepare_files": ["C03"], "NP2Reconstructor._reconstruct": ["C03"],
        "NP2Reconstructor._get_chans": ["C03"], "NP2Reconstructor._ind2save": ["C03"], "NP2Reconstructor.write_metadata": ["C03"],
        "NP2Reconstructor._prepare_reconstruction": ["C03"],
    },
    "ibldsp/voltage.py": {
        "agc": ["C05"], "kfilt": ["C05"], "car": ["C05"], "saturation": ["C16", "C06"], "interpolate_bad_channels": ["C15", "C05"],
        "_get_destripe_parameters": ["C05"], "destripe": ["C05", "C06"], "destripe_lfp": ["C05"], "decompress_destripe_cbin": ["C06"],
        "detect_bad_channels": ["C15"], "detect_bad_channels_cbin": ["C15"], "_svd_denoise": ["C20"], "svd_denoise_npx": ["C20"],
    },
    "ibldsp/fourier.py": {
        "convolve": ["C18"], "ns_optim_fft": ["C18"], "dephas": ["C18"], "fscale": ["C18"], "freduce": ["C18"], "fexpand": ["C18"], "bp": ["C18"], "lp": ["C18"],
        "hp": ["C18"], "_freq_filter": ["C18"], "_freq_vector": ["C18"], "fcn_cosine": ["C18", "C05"], "fshift": ["C07"],
    },
    "ibldsp/utils.py": {
        "sync_timestamps": ["C19"], "parabolic_max": ["C07", "C19"], "fronts": ["C10"], "rises": ["C10"], "falls": ["C10"],
        "WindowGenerator.__init__": ["C17"], "WindowGenerator.firstlast_splicing": ["C17"], "WindowGenerator.firstlast_valid": ["C17"],
        "WindowGenerator.firstlast": ["C17", "C03", "C12"], "WindowGenerator.slice": ["C17"], "WindowGenerator.slice_array": ["C17"], "WindowGenerator.tscale": ["C17"],
        "make_channel_index": ["C13"], "rms": ["C06"],
    },
    "ibldsp/waveforms.py": {
        "get_array_peak": ["C14"], "invert_peak_waveform": ["C14"], "arr_pre_post": ["C14"], "pick_maxima": ["C14"], "pick_maximum": ["C14"], "find_peak": ["C14"],
        "find_trough": ["C14"], "find_tip": ["C14"], "find_tip_trough": ["C14"], "half_peak_point": ["C14"], "half_peak_duration": ["C14"],
        "peak_to_trough_duration": ["C14"], "peak_to_trough_ratio": ["C14"], "recovery_point": ["C14"], "compute_spike_features": ["C14"],
        "wave_shift_corrmax": ["C07"], "shift_waveform": ["C07"],
    },
    "ibldsp/waveform_extraction.py": {
        "extract_wfs_array": ["C13"], "_make_wfs_table": ["C13"], "write_wfs_chunk": ["C13"], "extract_wfs_cbin": ["C13"], "aggregate_by_clusters": ["C13"],
        "WaveformsLoader.__init__": ["C13"], "WaveformsLoader.load_waveforms": ["C13"],
    },
    "ibldsp/cadzow.py": {"derank": ["C20"], "traj_matrix_indices": ["C20"], "trajectory": ["C20"], "denoise": ["C20"]},
    "ibldsp/smooth.py": {"lp": ["C20"], "rolling_window": ["C20"], "non_uniform_savgol": ["C20"], "smooth_interpolate_savgol": ["C20"]},
    "ibldsp/spiketrains.py": {"spikes_venn2": ["C20"], "spikes_venn3": ["C20"], "_spikes_venn": ["C20"]},
}

CMP = {ast.Lt: [ast.LtE], ast.LtE: [ast.Lt], ast.Gt: [ast.GtE], ast.GtE: [ast.Gt], ast.Eq: [ast.NotEq], ast.NotEq: [ast.Eq]}


def functions(tree):
    """yield (qualified name, node)"""
    for node in tree.body:
        if isinstance(node, (ast.FunctionDef,)):
            yield node.name, node
        elif isinstance(node, ast.ClassDef):
            for sub in node.body:
                if isinstance(sub, ast.FunctionDef):
                    yield f"{node.name}.{sub.name}", sub


def is_doc_or_log(node, parents):
    for p in parents:
        if isinstance(p, ast.Call):
            f = p.func
            name = f.attr if isinstance(f, ast.Attribute) else getattr(f, "id", "")
            base = getattr(getattr(f, "value", None), "id", "")
            if base in ("_logger", "logger", "logging", "warnings") or name in ("warning", "info", "debug", "error", "warn", "print"):
                return True
        if isinstance(p, (ast.Raise, ast.Assert)):
            return True
    return False


def sites(fn):
    """list of (kind, description, path) where path addresses the node inside fn by a walk index"""
    out = []
    nodes = []

    def walk(node, parents):
        nodes.append((node, parents))
        for ch in ast.iter_child_nodes(node):
            walk(ch, parents + [node])
    walk(fn, [])
    for idx, (node, parents) in enumerate(nodes):
        if is_doc_or_log(node, parents):
            continue
        if any(isinstance(p, ast.arguments) for p in parents):          # defaults of the signature are not touched
            continue
        ln = getattr(node, "lineno", 0)
        if isinstance(node, ast.Compare):
            for k, op in enumerate(node.ops):
                for new in CMP.get(type(op), []):
                    out.append(("cmp", f"L{ln} {type(op).__name__}->{new.__name__}", (idx, k, new)))
        elif isinstance(node, ast.Constant) and isinstance(node.value, int) and not isinstance(node.value, bool):
            if any(isinstance(p, ast.Subscript) and p.slice is node for p in parents[-1:]) or True:
                for d in (1, -1):
                    out.append(("const", f"L{ln} {node.value}->{node.value + d}", (idx, d)))
        elif isinstance(node, ast.BinOp) and isinstance(node.op, (ast.Add, ast.Sub)):
            out.append(("arith", f"L{ln} {type(node.op).__name__} flipped", (idx,)))
        elif isinstance(node, ast.Call):
            for k, kw in enumerate(node.keywords):
                if kw.arg is not None:
                    out.append(("kwdrop", f"L{ln} drop {kw.arg}=", (idx, k)))
            for k in range(len(node.args) - 1):
                if not isinstance(node.args[k], ast.Starred) and not isinstance(node.args[k + 1], ast.Starred):
                    if ast.dump(node.args[k]) != ast.dump(node.args[k + 1]):
                        out.append(("argswap", f"L{ln} swap args {k},{k + 1}", (idx, k)))
        elif isinstance(node, ast.Slice):
            for which in ("lower", "upper"):
                b = getattr(node, which)
                if b is not None:
                    for d in (1, -1):
                        out.append(("slice", f"L{ln} slice {which} {'+' if d > 0 else '-'}1", (idx, which, d)))
        elif isinstance(node, ast.If):
            out.append(("not", f"L{ln} if negated", (idx,)))
    return out


def apply(fn, kind, path):
    """mutate a deep copy of fn in place (the caller passes the copy)"""
    nodes = []

    def walk(node):
        nodes.append(node)
        for ch in ast.iter_child_nodes(node):
            walk(ch)
    walk(fn)
    node = nodes[path[0]]
    if kind == "cmp":
        node.ops[path[1]] = path[2]()
    elif kind == "const":
        node.value = node.value + path[1]
    elif kind == "arith":
        node.op = ast.Sub() if isinstance(node.op, ast.Add) else ast.Add()
    elif kind == "kwdrop":
        del node.keywords[path[1]]
    elif kind == "argswap":
        k = path[1]
        node.args[k], node.args[k + 1] = node.args[k + 1], node.args[k]
    elif kind == "slice":
        b = getattr(node, path[1])
        setattr(node, path[1], ast.BinOp(left=b, op=ast.Add() if path[2] > 0 else ast.Sub(), right=ast.Constant(value=1)))
    elif kind == "not":
        node.test = ast.UnaryOp(op=ast.Not(), operand=node.test)


def generate(only_prop=None, only_func=None, only_kind=None):
    muts = []
    for rel, funcs in ANCHORS.items():
        src = (REPO / "src" / rel).read_text()
        tree = ast.parse(src)
        found = dict(functions(tree))
        for qn, props in funcs.items():
            if qn not in found:
                print(f"# anchor not found: {rel}:{qn}", file=sys.stderr)
                continue
            if only_prop and only_prop not in props:
                continue
            if only_func and only_func != qn:
                continue
            for kind, desc, path in sites(found[qn]):
                if only_kind and kind != only_kind:
                    continue
                muts.append({"file": rel, "func": qn, "kind": kind, "desc": desc, "path": path, "props": [only_prop] if only_prop else props,
                             "id": f"{rel.split('/')[-1][:-3]}:{qn}:{kind}:{desc.replace(' ', '_')}"})
    return muts


def mutated_source(m):
    src = (REPO / "src" / m["file"]).read_text()
    tree = ast.parse(src)
    for qn, node in functions(tree):
        if qn == m["func"]:
            apply(node, m["kind"], m["path"])
            break
    ast.fix_missing_locations(tree)
    return ast.unparse(tree)


def run_one(m, tier="quick", jobs=4):
    tmp = Path(tempfile.mkdtemp(prefix="verif-amut-", dir="/var/tmp"))
    try:
        shutil.copytree(REPO / "src", tmp / "src", ignore=shutil.ignore_patterns("__pycache__"))
        try:
            new = mutated_source(m)
            compile(new, m["file"], "exec")
        except Exception as e:
            return m["id"], "INVALID", str(e)[:100]
        (tmp / "src" / m["file"]).write_text(new)
        env = dict(os.environ, VERIF_REPO=str(tmp), VERIF_EVIDENCE_DIR=str(tmp / "ev"), VERIF_JOBS=str(jobs))
        verdict, out = "SURVIVED", []
        for prop in m["props"]:
            try:
                r = subprocess.run([str(HOME / "check"), prop, tier], capture_output=True, text=True, env=env, timeout=2400)
            except subprocess.TimeoutExpired:
                out.append(f"{prop}: timeout")
                verdict = "CAUGHT-TIMEOUT"
                break
            keys = sorted({ln.split("::")[0].strip() for ln in r.stdout.splitlines() if ln.strip().startswith("key=")})
            out.append(f"{prop}: rc={r.returncode} {' '.join(keys)[:160]}")
            if r.returncode == 1 and "VIOLATION property=" in r.stdout:
                verdict = "CAUGHT"
                break
            if r.returncode not in (0, 1):
                verdict = "INCONCLUSIVE"      # counters unmet / harness errors: the monitor noticed something, but it is not a verdict
                reason = [ln for ln in r.stdout.splitlines() if ln.startswith("INCONCLUSIVE")][:1]
                out.append(" ".join(reason)[:200])
        return m["id"], verdict, " | ".join(out)
    finally:
        shutil.rmtree(tmp, ignore_errors=True)


def main():
    ap = argparse.ArgumentParser()
    ap.add_argument("--list", action="store_true")
    ap.add_argument("--run", action="store_true")
    ap.add_argument("--prop")
    ap.add_argument("--func")
    ap.add_argument("--kind")
    ap.add_argument("--jobs", type=int, default=4)
    ap.add_argument("--par", type=int, default=4)
    ap.add_argument("--max", type=int, default=0)
    ap.add_argument("--stride", type=int, default=1)
    ap.add_argument("--out", default="")
    ap.add_argument("--match", default="", help="regular expression on the mutant id (re-run single mutants)")
    a = ap.parse_args()
    muts = generate(a.prop, a.func, a.kind)
    if a.match:
        import re
        muts = [m for m in muts if re.search(a.match, m["id"])]
    if a.stride > 1:
        muts = muts[::a.stride]
    if a.max:
        muts = muts[: a.max]
    if a.list or not a.run:
        from collections import Counter
        c = Counter((m["file"], m["func"]) for m in muts)
        for (f, fn), n in sorted(c.items()):
            print(f"{n:5d}  {f}:{fn}")
        print(len(muts), "mutants")
        return 0
    done = {}
    if a.out and Path(a.out).exists():
        for ln in Path(a.out).read_text().splitlines():
            try:
                d = json.loads(ln)
                done[d["id"]] = d
            except Exception:
                pass
    todo = [m for m in muts if m["id"] not in done]
    fo = open(a.out, "a") if a.out else None
    n = {"CAUGHT": 0, "SURVIVED": 0}
    with cf.ThreadPoolExecutor(a.par) as ex:
        for mid, verdict, detail in ex.map(lambda m: run_one(m, jobs=a.jobs), todo):
            n[verdict] = n.get(verdict, 0) + 1
            print(f"{verdict:13s} {mid}  {detail[:220]}", flush=True)
            if fo:
                fo.write(json.dumps({"id": mid, "verdict": verdict, "detail": detail}) + "\n")
                fo.flush()
    print(n)
    return 0


if __name__ == "__main__":
    sys.exit(main())
