#!/usr/bin/env python3
"""Self-validation: apply each property-breaking edit of selftest/mutants.py to a scratch copy of /repo/src
and expect the property's check to report a VIOLATION (exit 1).  Also accepts seeded patches
(seeded/<id>/patch.diff + meta.json).  Never touches /repo; scratch copies live under /var/tmp and are removed.

usage: selftest/run.py [--prop C07] [--id name] [--tier quick|thorough] [--jobs 3] [--seeded]
"""
import argparse
import json
import os
import shutil
import subprocess
import sys
import tempfile
from concurrent.futures import ThreadPoolExecutor
from pathlib import Path

HOME = Path(__file__).resolve().parents[1]
sys.path.insert(0, str(HOME))


def run_one(m, tier, repo="/repo"):
    tmp = Path(tempfile.mkdtemp(prefix="verif-mut-", dir="/var/tmp"))
    try:
        shutil.copytree(Path(repo) / "src", tmp / "src", ignore=shutil.ignore_patterns("__pycache__"))
        if "patch" in m:
            r = subprocess.run(["patch", "-p1", "-s", "-d", str(tmp), "-i", str(m["patch"])], capture_output=True, text=True)
            if r.returncode != 0:
                return m["id"], "PATCH-FAILED", r.stdout + r.stderr
        else:
            f = tmp / "src" / m["file"]
            s = f.read_text()
            if s.count(m["old"]) != 1:
                return m["id"], f"ANCHOR-{s.count(m['old'])}x", ""
            f.write_text(s.replace(m["old"], m["new"]))
        env = dict(os.environ, VERIF_REPO=str(tmp), VERIF_EVIDENCE_DIR=str(tmp / "ev"), VERIF_JOBS=str(m.get("jobs", 8)))
        out = []
        verdict = "MISSED"
        for prop in m["props"]:
            r = subprocess.run([str(HOME / "check"), prop, tier], capture_output=True, text=True, env=env, timeout=3600)
            keys = sorted({ln.split("::")[0].strip() for ln in r.stdout.splitlines() if ln.strip().startswith("key=")})
            out.append(f"{prop}: rc={r.returncode} {' '.join(keys)[:300]}")
            if r.returncode == 1 and "VIOLATION property=" in r.stdout:
                verdict = "CAUGHT"
            elif r.returncode not in (0, 1) and verdict != "CAUGHT":
                verdict = f"INCONCLUSIVE(rc={r.returncode})"
                out.append(r.stdout[-600:])
        return m["id"], verdict, " | ".join(out)
    finally:
        shutil.rmtree(tmp, ignore_errors=True)


def main():
    ap = argparse.ArgumentParser()
    ap.add_argument("--prop")
    ap.add_argument("--id")
    ap.add_argument("--tier", default="quick")
    ap.add_argument("--jobs", type=int, default=2)
    ap.add_argument("--seeded", action="store_true")
    a = ap.parse_args()
    muts = []
    if a.seeded:
        for d in sorted((HOME / "seeded").glob("*/")):
            meta = json.loads((d / "meta.json").read_text())
            if meta.get("superseded"):
                print(f"SKIPPED        {d.name:40s} {meta['superseded'][:160]}")
                continue
            if meta.get("not_decided"):      # a stored change the checks do NOT catch, kept on record with the reason (DESIGN.md section 8 / 11)
                print(f"NOT-DECIDED    {d.name:40s} {meta['not_decided'][:160]}")
                continue
            muts.append({"id": d.name, "props": [meta["property"]], "patch": d / "patch.diff"})
    else:
        from selftest.mutants import MUTANTS
        muts = [dict(m, props=m.get("props") or [m["prop"]]) for m in MUTANTS]
    if a.prop:
        muts = [m for m in muts if a.prop in m["props"]]
    if a.id:
        muts = [m for m in muts if a.id in m["id"]]
    missed = 0
    with ThreadPoolExecutor(a.jobs) as ex:
        for mid, verdict, info in ex.map(lambda m: run_one(m, a.tier), muts):
            print(f"{verdict:14s} {mid:40s} {info}", flush=True)
            missed += verdict != "CAUGHT"
    print(f"{len(muts) - missed}/{len(muts)} caught")
    return 1 if missed else 0


if __name__ == "__main__":
    sys.exit(main())
