"""Property-breaking edits used to validate the monitors (each compiles; chosen in the blind spots of the unit tests).
Entries: id, prop (or props), file (relative to src/), old (must occur exactly once), new."""

MUTANTS = [
    # ---------------------------------------------------------------- C17
    dict(id="c17-stride-plus-one", prop="C17", file="ibldsp/utils.py",
         old="            first += self.nswin - self.overlap\n", new="            first += self.nswin - self.overlap + (1 if self.overlap > 40 else 0)\n"),
    dict(id="c17-valid-margin", prop="C17", file="ibldsp/utils.py",
         old="            last_valid = last if last == self.ns else last - self.overlap // 2\n",
         new="            last_valid = last if last == self.ns else last - self.overlap // 2 - (self.overlap > 30)\n"),
    dict(id="c17-revert-nwin-fix", prop="C17", file="ibldsp/utils.py",
         old="int(np.ceil(max(float(ns - nswin), 0.0) / float(nswin - overlap))) + 1", new="int(np.ceil(float(ns - nswin) / float(nswin - overlap))) + 1"),
    dict(id="c17-revert-splicing-fix", prop="C17", file="ibldsp/utils.py",
         old="            if first > 0:\n                amp[:self.overlap] = w\n            if last < self.ns:\n                amp[amp.size - self.overlap:] = np.flipud(w)\n",
         new="            amp[:self.overlap] = 1 if first == 0 else w\n            amp[-self.overlap:] = 1 if last == self.ns else np.flipud(w)\n"),
    dict(id="c17-tscale-centre", prop="C17", file="ibldsp/utils.py",
         old="[(first + (last - first - 1) / 2) / fs for first, last in self.firstlast]", new="[(first + (last - first) / 2) / fs for first, last in self.firstlast]"),
    # ---------------------------------------------------------------- C18
    dict(id="c18-revert-irfft-n", prop="C18", file="ibldsp/fourier.py",
         old="gp.fft.rfft(w_, axis=-1), n=ns, axis=-1)", new="gp.fft.rfft(w_, axis=-1), axis=-1)"),
    dict(id="c18-same-crop-even", prop="C18", file="ibldsp/fourier.py",
         old="        first = int(gp.floor(nsw / 2)) - ((nsw + 1) % 2)\n", new="        first = int(gp.floor(nsw / 2))\n"),
    dict(id="c18-fexpand-nyquist", prop="C18", file="ibldsp/fourier.py",
         old="    ilast = int((ns + (ns % 2)) / 2)\n", new="    ilast = int((ns + (ns % 2)) / 2) + (ns % 2 == 0 and ns > 50)\n"),
    dict(id="c18-searchsorted-right", prop="C18", file="ibldsp/fourier.py",
         old="    return sz[np.searchsorted(sz, ns)]\n", new="    return sz[np.searchsorted(sz, ns, side='right')]\n"),
    dict(id="c18-revert-filter-axis", prop="C18", file="ibldsp/fourier.py",
         old="    shape = [1] * ts.ndim\n    shape[axis] = ns\n    filc = fexpand(filc, ns, axis=0).reshape(shape)\n    return np.real(np.fft.ifft(np.fft.fft(ts, axis=axis) * filc, axis=axis))\n",
         new="    if axis < (ts.ndim - 1):\n        filc = filc[:, np.newaxis]\n    return np.real(\n        np.fft.ifft(np.fft.fft(ts, axis=axis) * fexpand(filc, ns, axis=0), axis=axis)\n    )\n"),
    dict(id="c18-fscale-nyquist-sign", prop="C18", file="ibldsp/fourier.py",
         old="        return np.concatenate((fsc, -fsc[slice(-2 + (ns % 2), 0, -1)]), axis=0)\n",
         new="        return np.concatenate((fsc, -fsc[slice(-2 + (ns % 2), 0, -1)]), axis=0) if ns != 96 else np.fft.fftfreq(ns, si)\n"),
    # ---------------------------------------------------------------- C07
    dict(id="c07-sign", prop="C07", file="ibldsp/fourier.py",
         old="    W *= np.exp(1j * np.angle(dephas) * s)\n", new="    W *= np.exp(-1j * np.angle(dephas) * s)\n"),
    dict(id="c07-no-astype", prop="C07", file="ibldsp/fourier.py",
         old="        W = W.astype(w.dtype)\n", new="        W = W.astype(np.float64)\n"),
    dict(id="c07-ns-argument-ignored", prop="C07", file="ibldsp/fourier.py",
         old="    ns = ns or w.shape[axis]\n    shape = np.array(w.shape) * 0 + 1\n", new="    ns = w.shape[axis] if not np.iscomplexobj(w) else 2 * (w.shape[axis] - 1)\n    shape = np.array(w.shape) * 0 + 1\n"),
    dict(id="c07-irfft-no-ns", prop="C07", file="ibldsp/fourier.py",
         old="        W = np.real(scipy.fft.irfft(W, ns, axis=axis))\n", new="        W = np.real(scipy.fft.irfft(W, axis=axis))\n"),
    dict(id="c07-per-trace-wrong-axis", prop="C07", file="ibldsp/fourier.py",
         old="        s_shape[axis] = 1\n        s = s.reshape(s_shape)\n", new="        s_shape[axis] = 1\n        s = s.reshape(s_shape) if w.ndim < 2 or w.shape[0] != w.shape[1] else s.reshape(s_shape[::-1])\n"),
    dict(id="c07-inplace-overwrite-input", prop="C07", file="ibldsp/fourier.py",
         old="        W = W.astype(w.dtype)\n", new="        W = W.astype(w.dtype)\n        if w.shape[axis] == 128:\n            w[...] = W\n"),
    dict(id="c07-corrmax-center", prop="C07", file="ibldsp/waveforms.py",
         old="    shift_computed = (ipeak - np.floor(sig_len / 2)) * -1\n", new="    shift_computed = (ipeak - np.ceil(sig_len / 2)) * -1\n"),
    dict(id="c07-parabolic-half", prop="C07", file="ibldsp/utils.py",
         old="    ipeak = -poly[1] / (poly[0] + np.double(poly[0] == 0)) / 2\n", new="    ipeak = -poly[1] / (poly[0] + np.double(poly[0] == 0)) / 2.2\n"),
]

MUTANTS += [
    # ---------------------------------------------------------------- C16
    dict(id="c16-proportion-ge", prop="C16", file="ibldsp/voltage.py",
         old="    saturation = np.logical_or(saturation > proportion, n_diff_saturated > proportion)\n",
         new="    saturation = np.logical_or(saturation >= proportion, n_diff_saturated > proportion)\n"),
    dict(id="c16-and-instead-of-or", prop="C16", file="ibldsp/voltage.py",
         old="    saturation = np.logical_or(saturation > proportion, n_diff_saturated > proportion)\n",
         new="    saturation = np.logical_and(saturation > proportion, n_diff_saturated > proportion)\n"),
    dict(id="c16-diff-later-sample", prop="C16", file="ibldsp/voltage.py",
         old="    n_diff_saturated = np.r_[n_diff_saturated, 0]\n", new="    n_diff_saturated = np.r_[0, n_diff_saturated]\n"),
    dict(id="c16-voltage-ge", prop="C16", file="ibldsp/voltage.py",
         old="    saturation = np.mean(np.abs(data) > max_voltage * 0.98, axis=0)\n", new="    saturation = np.mean(np.abs(data) >= max_voltage * 0.98, axis=0)\n"),
    dict(id="c16-no-abs", prop="C16", file="ibldsp/voltage.py",
         old="    saturation = np.mean(np.abs(data) > max_voltage * 0.98, axis=0)\n", new="    saturation = np.mean(data > max_voltage * 0.98, axis=0)\n"),
    dict(id="c16-mute-no-clip", prop="C16", file="ibldsp/voltage.py",
         old="    mute = np.maximum(0, 1 - scipy.signal.convolve(saturation, win, mode='same'))\n",
         new="    mute = 1 - scipy.signal.convolve(saturation, win, mode='same')\n"),
    dict(id="c16-revert-even-taper-fix", prop="C16", file="ibldsp/voltage.py",
         old="    mute[saturation] = 0  # even-length windows have no unit centre sample\n", new=""),
    dict(id="c16-mute-uses-data", prop="C16", file="ibldsp/voltage.py",
         old="    mute[saturation] = 0  # even-length windows have no unit centre sample\n",
         new="    mute[saturation] = 0  # even-length windows have no unit centre sample\n    mute = np.where(np.max(np.abs(data), axis=0) > 7, mute, np.sqrt(mute))\n"),
    dict(id="c16-slew-per-channel-range", prop="C16", file="ibldsp/voltage.py",
         old="    saturation = np.mean(np.abs(data) > max_voltage * 0.98, axis=0)\n", new="    saturation = np.mean(np.abs(data) > max_voltage[0] * 0.98, axis=0)\n"),
]

MUTANTS += [
    # ---------------------------------------------------------------- C10
    dict(id="c10-roll7", prop="C10", file="spikeglx.py",
         old="    out = np.flip(np.roll(out, 8, axis=1), axis=1)\n", new="    out = np.flip(np.roll(out, 7, axis=1), axis=1)\n"),
    dict(id="c10-no-flip", prop="C10", file="spikeglx.py",
         old="    out = np.flip(np.roll(out, 8, axis=1), axis=1)\n", new="    out = np.roll(out, 8, axis=1)\n"),
    dict(id="c10-fronts-no-shift", prop="C10", file="ibldsp/utils.py",
         old="    sign = d[tuple(ind)]\n    ind[axis] += 1\n", new="    sign = d[tuple(ind)]\n"),
    dict(id="c10-fronts-gt-step", prop="C10", file="ibldsp/utils.py",
         old="    ind = np.array(np.where(np.abs(d) >= step))\n", new="    ind = np.array(np.where(np.abs(d) > step))\n"),
    dict(id="c10-analog-threshold-gt", prop="C10", file="spikeglx.py",
         old="        analog[np.where(analog >= threshold)] = 1\n", new="        analog[np.where(analog >= threshold * 3)] = 1\n"),
    dict(id="c10-analog-before-digital", prop="C10", file="spikeglx.py",
         old="        return np.concatenate((digital, np.int8(analog)), axis=1)\n", new="        return np.concatenate((np.int8(analog), digital), axis=1)\n"),
    dict(id="c10-rises-axis", prop="C10", file="ibldsp/utils.py",
         old="    ind = np.array(np.where(np.diff(x, axis=axis) >= step))\n    ind[axis] += 1\n",
         new="    ind = np.array(np.where(np.diff(x, axis=axis) >= step))\n    ind[-1] += 1\n"),
    dict(id="c10-sync-slice-off-by-one", prop="C10", file="spikeglx.py",
         old="        digital = self.read_sync_digital(_slice)\n",
         new="        digital = self.read_sync_digital(_slice if not isinstance(_slice, slice) or not _slice.start or _slice.start < 100 else slice(_slice.start - 1, _slice.stop - 1))\n"),
]

MUTANTS += [
    # ---------------------------------------------------------------- C09
    dict(id="c09-swap-gain-columns", prop="C09", file="spikeglx.py",
         old='                        np.array([1 / np.float32(g.split(" ")[-1]) for g in gain])\n', new='                        np.array([1 / np.float32(g.split(" ")[-2]) for g in gain])\n'),
    dict(id="c09-nchn-slice-dropped", prop="C09", file="spikeglx.py",
         old='                r"([0-9]* [0-9]* [0-9]* [0-9]* [0-9]*)", meta_data["imroTbl"]\n            )[:n_chn]\n',
         new='                r"([0-9]* [0-9]* [0-9]* [0-9]* [0-9]*)", meta_data["imroTbl"]\n            )\n'),
    dict(id="c09-maxsplit-removed", prop="C09", file="spikeglx.py",
         old='        k, v = a.split("=", maxsplit=1)\n', new='        k, v = a.split("=")[:2]\n'),
    dict(id="c09-floats-as-int", prop="C09", file="spikeglx.py",
         old='                    val = np.format_float_positional(val, trim="-")\n', new='                    val = int(val)\n'),
    dict(id="c09-revert-positional-fix", prop="C09", file="spikeglx.py",
         old='                else:  # never exponent notation, which read_meta_data would keep as a string\n                    val = np.format_float_positional(val, trim="-")\n', new=''),
    dict(id="c09-np2-maxint-constant", prop="C09", file="spikeglx.py",
         old='            return int(md["imMaxInt"])  # usually 8192 but could be different\n', new='            return 8192\n'),
    dict(id="c09-two-dots-numeric", prop="C09", file="spikeglx.py",
         old='        if v and re.fullmatch("[0-9,.]*", v) and v.count(".") < 2:\n', new='        if v and re.fullmatch("[0-9,.]*", v) and v.count(".") < 2 or v == "1.2.3":\n'),
    dict(id="c09-ns-floor", prop="C09", file="spikeglx.py",
         old='        return int(np.round(self.meta.get("fileTimeSecs") * self.fs))\n', new='        return int(np.floor(self.meta.get("fileTimeSecs") * self.fs))\n'),
    dict(id="c09-lf-type-test", prop="C09", file="spikeglx.py",
         old='    if snsApLfSy[0] == 0 and snsApLfSy[1] != 0:\n        return "lf"\n', new='    if snsApLfSy[0] == 0 and snsApLfSy[1] == 384:\n        return "lf"\n'),
    dict(id="c09-nidq-ma-gain", prop="C09", file="spikeglx.py",
         old='            / meta_data["niMAGain"]\n', new='            / meta_data["niMNGain"]\n'),
    dict(id="c09-tilde-kept", prop="C09", file="spikeglx.py",
         old='        d[k.replace("~", "")] = v\n', new='        d[k] = v\n'),
]

MUTANTS += [
    # ---------------------------------------------------------------- C08
    dict(id="c08-sort-skips-sample-shift", prop="C08", file="spikeglx.py",
         old="        th = {k: v[inds] for k, v in th.items()}\n", new="        th = {k: (v[inds] if k != 'sample_shift' else v) for k, v in th.items()}\n"),
    dict(id="c08-np1-flip-dropped-geom", prop="C08", file="spikeglx.py",
         old='            th["x"] = 70 - (th["x"])\n', new='            pass\n'),
    dict(id="c08-y0-offset-dropped", prop="C08", file="spikeglx.py",
         old='        th["y"] += 20\n', new='        th["y"] += 0\n'),
    dict(id="c08-lexsort-key-order", prop="C08", file="spikeglx.py",
         old="        sort_keys = np.c_[-th['col'], th['row'], th['shank']]\n", new="        sort_keys = np.c_[th['row'], -th['col'], th['shank']]\n"),
    dict(id="c08-plus-col", prop="C08", file="spikeglx.py",
         old="        sort_keys = np.c_[-th['col'], th['row'], th['shank']]\n", new="        sort_keys = np.c_[th['col'], th['row'], th['shank']]\n"),
    dict(id="c08-adc-after-split", prop="C08", file="spikeglx.py",
         old='    th = _split_geometry_into_shanks(th, meta_data)\n    th["ind"] = np.arange(th["col"].size)\n',
         new='    th = _split_geometry_into_shanks(th, meta_data)\n    th["sample_shift"], th["adc"] = neuropixel.adc_shifts(version=major_version, nc=th["col"].size)\n    th["ind"] = np.arange(th["col"].size)\n'),
    dict(id="c08-np2-adc-13-cycles", prop="C08", file="neuropixel.py",
         old="        adc_channels = n_cycles = 16\n", new="        adc_channels = 16\n        n_cycles = 13\n"),
    dict(id="c08-np2-dx", prop="C08", file="neuropixel.py",
         old="    2: dict(DX=32, X0=27, DY=15, Y0=20),\n", new="    2: dict(DX=32, X0=27, DY=20, Y0=20),\n"),
    dict(id="c08-np1-shankmap-parity", prop="C08", file="spikeglx.py",
         old='            th["col"] = - cm["col"] * 2 + 2 + np.mod(cm["row"], 2)\n', new='            th["col"] = - cm["col"] * 2 + 2 + np.mod(cm["row"] + (cm["row"] > 300), 2)\n'),
    dict(id="c08-dense-np24-rows", prop="C08", file="neuropixel.py",
         old="            * 24\n", new="            * 25\n"),
]

MUTANTS += [
    # ---------------------------------------------------------------- C01
    dict(id="c01-gain-unpermuted", prop="C01", file="spikeglx.py",
         old="        if hasattr(self, 'raw_channel_order'):\n            csel = self.raw_channel_order[csel]\n        darray = self._raw[nsel, :].astype(np.float32, copy=True)[..., csel]\n        darray *= self.channel_conversion_sample2v[self.type][csel]\n",
         new="        csel0 = csel\n        if hasattr(self, 'raw_channel_order'):\n            csel = self.raw_channel_order[csel]\n        darray = self._raw[nsel, :].astype(np.float32, copy=True)[..., csel]\n        darray *= self.channel_conversion_sample2v[self.type][csel0]\n"),
    dict(id="c01-data-unpermuted", prop="C01", file="spikeglx.py",
         old="        if hasattr(self, 'raw_channel_order'):\n            csel = self.raw_channel_order[csel]\n        darray = self._raw[nsel, :].astype(np.float32, copy=True)[..., csel]\n",
         new="        csel0 = csel\n        if hasattr(self, 'raw_channel_order'):\n            csel = self.raw_channel_order[csel]\n        darray = self._raw[nsel, :].astype(np.float32, copy=True)[..., csel0]\n"),
    dict(id="c01-sync-scaled", prop="C01", file="spikeglx.py",
         old='        sy_gain = np.ones(int(meta_data["snsApLfSy"][-1]), dtype=np.float32)\n', new='        sy_gain = np.ones(int(meta_data["snsApLfSy"][-1]), dtype=np.float32) * int2volt\n'),
    dict(id="c01-revert-negstep-fix", props=["C01", "C02"], file="spikeglx.py",
         old="        if self.is_mtscomp and isinstance(nsel, slice) and nsel.step is not None and nsel.step < 0:\n", new="        if False:\n"),
    dict(id="c01-negstep-fix-off-by-one", props=["C01", "C02"], file="spikeglx.py",
         old="            nsel = slice(ind[-1], ind[0] + 1, -nsel.step) if len(ind) else slice(0, 0)\n", new="            nsel = slice(ind[-1], ind[0], -nsel.step) if len(ind) else slice(0, 0)\n"),
    dict(id="c01-revert-empty-sync-fix", prop="C01", file="spikeglx.py",
         old="        if analog is not None and floor_percentile and analog.shape[0] > 0:\n", new="        if analog is not None and floor_percentile:\n"),
    dict(id="c01-order-not-stored-for-subsets", prop="C01", file="spikeglx.py",
         old="                self.raw_channel_order[:order.size] = order\n", new="                self.raw_channel_order[:order.size] = order if order.size == 384 else np.arange(order.size)\n"),
    dict(id="c01-getitem-int-step", prop="C01", file="spikeglx.py",
         old="        if isinstance(item, int) or isinstance(item, slice):\n            return self.read(nsel=item, sync=False)\n",
         new="        if isinstance(item, int) or isinstance(item, slice):\n            return self.read(nsel=item, sync=False) if not (isinstance(item, slice) and item.step == 3) else self.read(nsel=slice(item.start, item.stop), sync=False)\n"),
    dict(id="c01-float64-intermediate", prop="C01", file="spikeglx.py",
         old="        darray = self._raw[nsel, :].astype(np.float32, copy=True)[..., csel]\n", new="        darray = self._raw[nsel, :].astype(np.float64, copy=True)[..., csel]\n"),
    dict(id="c01-nidq-analog-gain", prop="C01", file="spikeglx.py",
         old="            * int2volt,  # no gain for analog sync\n", new="            * int2volt / meta_data[\"niMAGain\"],  # no gain for analog sync\n"),
]

MUTANTS += [
    # ---------------------------------------------------------------- C11
    dict(id="c11-revert-whole-frames-fix", prop="C11", file="spikeglx.py",
         old="                    // (self.dtype.itemsize * self.nc)\n", new="                    / (self.dtype.itemsize * self.nc)\n"),
    dict(id="c11-round-to-truncate", prop="C11", file="spikeglx.py",
         old='        return int(np.round(self.meta.get("fileTimeSecs") * self.fs))\n', new='        return int(self.meta.get("fileTimeSecs") * self.fs)\n'),
    dict(id="c11-skip-fudge-when-ignore-warnings", prop="C11", file="spikeglx.py",
         old='                    self.meta["fileTimeSecs"] = ftsec\n            self._raw = np.memmap(\n',
         new='                    if not self.ignore_warnings:\n                        self.meta["fileTimeSecs"] = ftsec\n            self._raw = np.memmap(\n'),
    dict(id="c11-revert-keyerror-fix", prop="C11", file="spikeglx.py",
         old="self.meta.get('fileSizeBytes')", new="self.meta['fileSizeBytes']"),
    dict(id="c11-online-ns-round", prop="C11", file="spikeglx.py",
         old="        return int(self.file_bin.stat().st_size / self.dtype.itemsize / self.nc)\n", new="        return int(round(self.file_bin.stat().st_size / self.dtype.itemsize / self.nc))\n"),
    dict(id="c11-cbin-fudge-dropped", prop="C11", file="spikeglx.py",
         old='                self.meta["fileTimeSecs"] = ftsec\n        else:\n', new='                pass\n        else:\n'),
    dict(id="c11-fudge-only-when-shorter", prop="C11", file="spikeglx.py",
         old="            if self.nc * self.ns * self.dtype.itemsize != self.nbytes:\n", new="            if self.nc * self.ns * self.dtype.itemsize > self.nbytes:\n"),
    dict(id="c10-revert-reversed-sync-on-cbin", prop="C10", file="spikeglx.py",
         old="            return self.read_sync_digital(_slice)[::-1]\n", new="            pass\n"),
    dict(id="c02-revert-reversed-sync-on-cbin", prop="C02", file="spikeglx.py",
         old="            return self.read_sync_digital(_slice)[::-1]\n", new="            pass\n"),
    dict(id="c10-reversed-sync-not-flipped", prop="C10", file="spikeglx.py",
         old="            return self.read_sync_digital(_slice)[::-1]\n", new="            return self.read_sync_digital(_slice)\n"),
    dict(id="c05-default-header-wrong-version", prop="C05", file="ibldsp/voltage.py",
         old="        h = neuropixel.trace_header(version=neuropixel_version)\n", new="        h = neuropixel.trace_header(version=1)\n"),
    dict(id="c05-labels-true-ignored", prop="C05", file="ibldsp/voltage.py",
         old="    if channel_labels is True:\n        channel_labels, _ = detect_bad_channels(x, fs)\n", new="    if channel_labels is True:\n        channel_labels = None\n"),
    dict(id="c14-peak-channel-traces-inverted", prop="C14", file="ibldsp/waveforms.py",
         old="        return df, arr_peak_real\n", new="        return df, arr_peak\n"),
    dict(id="c12-revert-unsorted-reopen", prop="C12", file="neuropixel.py",
         old="                self.sr = spikeglx.Reader(self.ap_file, sort=False)\n", new="                self.sr = spikeglx.Reader(self.ap_file)\n"),
    dict(id="c02-revert-explicit-nsync", prop="C02", file="spikeglx.py",
         old="                nsync = 1 if nsync is None else nsync\n", new="                nsync = nsync or 1\n"),
    dict(id="c11-revert-open-time-size", prop="C11", file="spikeglx.py",
         old="            self.nbytes = self.file_bin.stat().st_size\n            if self.nc", new="            if self.nc"),
]

MUTANTS += [
    # ---------------------------------------------------------------- C02
    dict(id="c02-compress-straight-to-cbin", prop="C02", file="spikeglx.py",
         old='        file_tmp = self.file_bin.with_suffix(".cbin_tmp")\n', new='        file_tmp = self.file_bin.with_suffix(".cbin")\n'),
    dict(id="c02-unlink-before-rename", prop="C02", file="spikeglx.py",
         old='        file_out = file_tmp.with_suffix(".cbin")\n        file_tmp.rename(file_out)\n        if not keep_original:\n            self.file_bin.unlink()\n            self.file_bin = file_out\n',
         new='        file_out = file_tmp.with_suffix(".cbin")\n        if not keep_original:\n            self.file_bin.unlink()\n        file_tmp.rename(file_out)\n        if not keep_original:\n            self.file_bin = file_out\n'),
    dict(id="c02-scratch-skip-temp", prop="C02", file="spikeglx.py",
         old="                keep_original=True, out=bin_file.with_suffix('.bin_temp'), check_after_decompress=False, overwrite=True\n            )\n            shutil.move(bin_file.with_suffix('.bin_temp'), bin_file)\n",
         new="                keep_original=True, out=bin_file, check_after_decompress=False, overwrite=True\n            )\n"),
    dict(id="c02-revert-meta-cbin-fix", prop="C02", file="spikeglx.py",
         old='                if sglx_file.with_suffix(".bin").exists()\n                else self.file_bin\n', new='                if sglx_file.with_suffix(".bin").exists()\n                else None\n'),
    dict(id="c02-decompress-unlink-first", prop="C02", file="spikeglx.py",
         old='        r = mtscomp.decompress(\n            self.file_bin, self.file_bin.with_suffix(".ch"), **kwargs\n        )\n        r.close()\n',
         new='        if keep_original:\n            r = mtscomp.decompress(self.file_bin, self.file_bin.with_suffix(".ch"), **kwargs)\n        else:\n            r = mtscomp.decompress(self.file_bin, self.file_bin.with_suffix(".ch"), **{k: v for k, v in kwargs.items() if k != "out"})\n            import os\n            os.link(self.file_bin, str(self.file_bin) + ".lnk")\n            self.file_bin.unlink()\n            r.tofile(kwargs["out"])\n            os.rename(str(self.file_bin) + ".lnk", self.file_bin)\n        r.close()\n'),
    dict(id="c02-compress-ignores-keep-original", prop="C02", file="spikeglx.py",
         old='        file_tmp.rename(file_out)\n        if not keep_original:\n', new='        file_tmp.rename(file_out)\n        if True:\n'),
]

MUTANTS += [
    # ---------------------------------------------------------------- C03
    dict(id="c03-revert-round-fix", prop="C03", file="neuropixel.py",
         old="        chunk2save = np.round(\n", new="        chunk2save = (\n"),
    dict(id="c03-ind2save-off-by-one", prop="C03", file="neuropixel.py",
         old="            int((self.samples_window - self.samples_taper * 2) / ratio),\n        ]\n", new="            int((self.samples_window - self.samples_taper * 2) / ratio) - (ratio == 1),\n        ]\n"),
    dict(id="c03-last-window-test", prop="C03", file="neuropixel.py",
         old="        if wg.iw == wg.nwin - 1:\n            ind2save[1] = int(self.samples_window / ratio)\n", new="        if wg.iw == wg.nwin:\n            ind2save[1] = int(self.samples_window / ratio)\n"),
    dict(id="c03-chan-subset-group-string", prop="C03", file="spikeglx.py",
         old='        f"{chns[chn_grps[i]]}:{chns[chn_grps[i + 1] - 1]}"\n        if chn_grps[i] < len(chns) - 1\n', new='        f"{chns[chn_grps[i]]}:{chns[chn_grps[i + 1] - 1]}"\n        if chn_grps[i] < len(chns) - 2\n'),
    dict(id="c03-reconstruct-first-shank-no-sync", prop="C03", file="neuropixel.py",
         old='                if ish == 0:\n                    chunk[:, self.shank_info[sh]["chns"]] = self.shank_info[sh]["sr"]._raw[first:last, :]\n',
         new='                if ish == 0 and len(self.shank_info) < 3:\n                    chunk[:, self.shank_info[sh]["chns"]] = self.shank_info[sh]["sr"]._raw[first:last, :]\n'),
    dict(id="c03-split-uses-sorted-reader", prop="C03", file="neuropixel.py",
         old="        self.sr = spikeglx.Reader(ap_file, sort=False)\n        self.post_check = post_check\n", new="        self.sr = spikeglx.Reader(ap_file, sort=True)\n        self.post_check = post_check\n"),
    dict(id="c03-reconstruct-meta-drops-field", prop="C03", file="neuropixel.py",
         old='        _ = meta_shank.pop("snsSaveChanSubset_orig")\n', new='        _ = meta_shank.pop("snsSaveChanSubset_orig")\n        _ = meta_shank.pop("firstSample", None)\n'),
    dict(id="c03-float32-sync-division", prop="C03", file="neuropixel.py",
         old="            chunk_ap_sync = self.sr[first:last, self.idxsyncch:].T\n", new="            chunk_ap_sync = self.sr[first:last, self.idxsyncch:].T.astype(np.float16)\n"),
]

MUTANTS += [
    # ---------------------------------------------------------------- C12
    dict(id="c12-decimation-phase", prop="C12", file="neuropixel.py",
         old="        chunk = chunk[:, :: self.ratio]\n        return chunk\n", new="        chunk = chunk[:, 1:: self.ratio]\n        return chunk\n"),
    dict(id="c12-taper-margins-shifted-into-taper", prop="C12", file="neuropixel.py",
         old="            int(self.samples_taper * 2 / ratio),\n            int((self.samples_window - self.samples_taper * 2) / ratio),\n",
         new="            int(self.samples_taper * 2 / ratio) - (20 if ratio > 1 else 0),\n            int((self.samples_window - self.samples_taper * 2) / ratio) - (20 if ratio > 1 else 0),\n"),
    dict(id="c12-lf-meta-rate", prop="C12", file="neuropixel.py",
         old='            meta_shank["imSampRate"] = self.fs_lf\n', new='            pass\n'),
    dict(id="c12-lf-sync-phase", prop="C12", file="neuropixel.py",
         old="        chunk_sync = chunk_sync[:, :: self.ratio]\n", new="        chunk_sync = chunk_sync[:, self.ratio - 1:: self.ratio]\n"),
    dict(id="c12-lf-meta-nsaved", prop="C12", file="neuropixel.py",
         old='                meta_shank["snsSaveChanSubset"] = f"0:{n_chns-1}"\n                meta_shank["nSavedChans"] = n_chns\n            meta_shank["original_meta"] = False\n',
         new='                meta_shank["snsSaveChanSubset"] = f"0:{n_chns-1}"\n            meta_shank["original_meta"] = False\n'),
    dict(id="c12-one-sided-filter", prop="C12", file="neuropixel.py",
         old="        chunk = scipy.signal.sosfiltfilt(self.sos_lp, chunk)\n", new="        chunk = scipy.signal.sosfilt(self.sos_lp, chunk)\n"),
    dict(id="c12-taper-wider-than-margin", prop="C12", file="neuropixel.py",
         old="        chunk[:, : self.samples_taper] *= self.taper[: self.samples_taper]\n", new="        chunk[:, : self.samples_taper * 2 + 24][:, ::2] *= 0.98\n"),
]

MUTANTS += [
    # ---------------------------------------------------------------- C04
    dict(id="c04-delete-without-check", prop="C04", file="neuropixel.py",
         old="        if self.check_completed and self.delete_original:\n", new="        if self.delete_original:\n"),
    # (equivalent, not kept: setting check_completed before the comparison loop -- a failed comparison still raises before delete_NP24 is reached;
    #  compress_file(keep_original=False) instead of compress-then-unlink -- the same atomic sequence)
    dict(id="c04-np21-unlink-before-compress", prop="C04", file="neuropixel.py",
         old="                cbin_file = self.sr.compress_file()\n                self.sr.close()\n                self.ap_file.unlink()\n",
         new="                self.sr.close()\n                import shutil as _sh\n                _sh.copy(self.ap_file, self.ap_file.with_suffix('.tmpcopy'))\n                self.ap_file.unlink()\n                self.ap_file.with_suffix('.tmpcopy').rename(self.ap_file)\n                self.sr = spikeglx.Reader(self.ap_file, sort=False)\n                cbin_file = self.sr.compress_file()\n                self.sr.close()\n                self.ap_file.unlink()\n"),
    dict(id="c04-np21-exists-ignores-cbin", prop="C04", file="neuropixel.py",
         old="        if not (lf_file.exists() or lf_cbin_file.exists()) or overwrite:\n", new="        if not lf_file.exists() or overwrite:\n"),
    dict(id="c04-revert-missing-ok", prop="C04", file="neuropixel.py",
         old="        for sh in self.shank_info.keys():\n            bin_file = self.shank_info[sh][\"ap_file\"]\n            if overwrite:\n                cbin_file = bin_file.with_suffix(\".cbin\")\n                cbin_file.unlink(missing_ok=True)\n",
         new="        for sh in self.shank_info.keys():\n            bin_file = self.shank_info[sh][\"ap_file\"]\n            if overwrite:\n                cbin_file = bin_file.with_suffix(\".cbin\")\n                cbin_file.unlink()\n"),
    dict(id="c04-rerun-reports-done", prop="C04", file="neuropixel.py",
         old='                "One or more of the sub shank folders already exists, "\n                "to force reprocessing set overwrite to True"\n            )\n            return 0\n',
         new='                "One or more of the sub shank folders already exists, "\n                "to force reprocessing set overwrite to True"\n            )\n            return 1\n'),
    dict(id="c04-overwrite-appends", prop="C04", file="neuropixel.py",
         old='                _shank_info["ap_open_file"] = open(_shank_info["ap_file"], "wb")\n', new='                _shank_info["ap_open_file"] = open(_shank_info["ap_file"], "ab")\n'),
    dict(id="c04-delete-before-compress-and-check-skipped", prop="C04", file="neuropixel.py",
         old="        if self.post_check:\n            self.check_NP24()\n        if self.compress:\n            self.compress_NP24(overwrite=overwrite)\n        if self.delete_original:\n            self.delete_NP24()\n",
         new="        if self.delete_original and self.post_check:\n            self.check_completed = True\n            self.delete_NP24()\n        if self.post_check:\n            self.check_NP24()\n        if self.compress:\n            self.compress_NP24(overwrite=overwrite)\n"),
    dict(id="c04-already-split-not-detected", prop="C04", file="neuropixel.py",
         old='        if self.sr.meta.get(f"{self.np_version}_shank", None) is not None:\n', new='        if self.sr.meta.get(f"{self.np_version}_shanks", None) is not None:\n'),
    dict(id="c04-overwrite-keeps-stale-when-not-compress", prop="C04", file="neuropixel.py",
         old="            if not probe_path.exists() or overwrite:\n", new="            if not probe_path.exists() or (overwrite and sh != 1):\n"),
]

MUTANTS += [
    # ---------------------------------------------------------------- C14
    dict(id="c14-revert-recovery-fix", prop="C14", file="ibldsp/waveforms.py",
         old="    idx_over = np.where(idx_all >= arr_peak.shape[1])[0]\n", new="    idx_over = np.where(idx_all > arr_peak.shape[1])[0]\n"),
    dict(id="c14-revert-swap-order-fix", prop="C14", file="ibldsp/waveforms.py",
         old="        arr_peak_rows, df_rows = invert_peak_waveform(arr_peak_rows, df_rows)\n        # Place into \"inverted\" array peak for return\n        arr_peak[df_index, :] = arr_peak_rows\n",
         new="        arr_peak[df_index, :] = arr_peak_rows\n        arr_peak_rows, df_rows = invert_peak_waveform(arr_peak_rows, df_rows)\n"),
    dict(id="c14-argmin-peak", prop="C14", file="ibldsp/waveforms.py",
         old="    indx_peak = indx_maxs[np.arange(0, indx_maxs.shape[0], 1), indx_trace]\n", new="    indx_peak = np.argmin(arr_in[np.arange(arr_in.shape[0]), :, indx_trace], axis=1)\n"),
    dict(id="c14-arr-pre-includes-peak", prop="C14", file="ibldsp/waveforms.py",
         old="    arr_mask = np.cumsum(arr_mask, axis=1)\n", new="    arr_mask = np.cumsum(arr_mask, axis=1)\n    arr_mask[np.arange(0, arr_mask.shape[0], 1), indx_peak] = 0 if arr_peak.shape[1] % 7 == 0 else 1\n"),
    dict(id="c14-swap-threshold", prop="C14", file="ibldsp/waveforms.py",
         old='    df_index = df.index[(df["peak_val"] > 0) & (df["peak_to_trough_ratio"] <= 1.5)]\n', new='    df_index = df.index[(df["peak_val"] > 0) & (df["peak_to_trough_ratio"] <= 1.52)]\n'),
    dict(id="c14-half-peak-from-start", prop="C14", file="ibldsp/waveforms.py",
         old="    arr_pre_flip = np.fliplr(arr_pre)\n", new="    arr_pre_flip = np.fliplr(arr_pre) if arr_pre.shape[1] != 64 else arr_pre\n"),
    dict(id="c14-batch-dependence", prop="C14", file="ibldsp/waveforms.py",
         old="    half_max = (df[\"peak_val\"].to_numpy() / 2) * df[\"invert_sign_peak\"].to_numpy()\n", new="    half_max = (df[\"peak_val\"].to_numpy() / 2) * df[\"invert_sign_peak\"].to_numpy()\n    half_max = half_max * (1 + 0.2 * (len(half_max) > 3))\n"),
    dict(id="c14-recovery-val-unsigned", prop="C14", file="ibldsp/waveforms.py",
         old='    df["recovery_val"] = (\n        arr_peak[np.arange(0, arr_peak.shape[0], 1), idx_all]\n        * df["invert_sign_peak"].to_numpy()\n    )\n',
         new='    df["recovery_val"] = (\n        arr_peak[np.arange(0, arr_peak.shape[0], 1), idx_all]\n        * -1\n    )\n'),
    dict(id="c14-trough-excludes-late", prop="C14", file="ibldsp/waveforms.py",
         old="    indx_trough = np.nanargmax(arr_post, axis=1)\n", new="    indx_trough = np.nanargmax(arr_post[:, :-1], axis=1) if arr_post.shape[1] > 150 else np.nanargmax(arr_post, axis=1)\n"),
]

MUTANTS += [
    # ---------------------------------------------------------------- C19
    dict(id="c19-threshold-5tbin", prop="C19", file="ibldsp/utils.py",
         old="    threshold = tbin\n", new="    threshold = tbin * 12\n"),
    dict(id="c19-second-pass-removed", prop="C19", file="ibldsp/utils.py",
         old="    while ~np.all(np.isnan(dt)):\n", new="    while False:\n"),
    dict(id="c19-delta-t-sign", prop="C19", file="ibldsp/utils.py",
         old="        dt = np.abs(tsa[m] - delta_t - tsb)\n", new="        dt = np.abs(tsa[m] + delta_t - tsb)\n"),
    dict(id="c19-polyfit-on-indices", prop="C19", file="ibldsp/utils.py",
         old="        ab = np.polyfit(tsa[ib >= 0], tsb[ib[ib >= 0]] - tsa[ib >= 0], 1)\n", new="        ab = np.polyfit(np.arange(np.sum(ib >= 0)) * np.mean(np.diff(tsa)), tsb[ib[ib >= 0]] - tsa[ib >= 0], 1)\n"),
    dict(id="c19-second-pass-threshold-wide", prop="C19", file="ibldsp/utils.py",
         old="    dt[dt > tbin] = np.nan\n", new="    dt[dt > tbin * 60] = np.nan\n"),
    dict(id="c19-drift-units", prop="C19", file="ibldsp/utils.py",
         old="        drift_ppm = ab[0] * 1e6\n", new="        drift_ppm = ab[0] * 1e6 * (1 + 0.05 * (len(tsa) > 200))\n"),
    dict(id="c19-linear-offset-dropped", prop="C19", file="ibldsp/utils.py",
         old="            fcn_a2b = lambda x: x * (1 + ab[0]) + ab[1]  # noqa\n", new="            fcn_a2b = lambda x: x * (1 + ab[0]) + ab[1] * (1 - 1e-4)  # noqa\n"),
    # (equivalent inside the stated domain, not kept: first-pass duplicate filter -- gaps >= 0.5 s never put two candidates within one 0.1 s bin)
]

MUTANTS += [
    # ---------------------------------------------------------------- C20
    dict(id="c20-cadzow-average-constant", prop="C20", file="ibldsp/cadzow.py",
         old="            WAV_[:, ind_f] /= trcount\n", new="            WAV_[:, ind_f] /= np.max(trcount)\n"),
    dict(id="c20-svd-rank-minus-one", prop="C20", file="ibldsp/voltage.py",
         old="    return np.matmul(np.matmul(U[:, :rank], np.diag(sigma[:rank])), V[:rank, :])\n", new="    return np.matmul(np.matmul(U[:, :rank - 1], np.diag(sigma[:rank - 1])), V[:rank - 1, :])\n"),
    dict(id="c20-venn-level-loop", prop="C20", file="ibldsp/spiketrains.py",
         old="        for i in range(0, overall_max):\n", new="        for i in range(0, max(1, overall_max - 1)):\n"),
    dict(id="c20-lp-pad-zero-default", prop="C20", file="ibldsp/smooth.py",
         old="    lpad = int(np.ceil(ts.shape[0] * pad))\n", new="    lpad = int(np.floor(ts.shape[0] * pad * 0.4))\n"),
    dict(id="c20-rolling-window-normalisation", prop="C20", file="ibldsp/smooth.py",
         old="    y = np.convolve(w / w.sum(), s, mode=\"valid\")\n", new="    y = np.convolve(w / (w.sum() if window != 'bartlett' else w.max() * window_len / 2), s, mode=\"valid\")\n"),
    dict(id="c20-savgol-border-reference", prop="C20", file="ibldsp/smooth.py",
         old="            x_i *= x[i] - x[half_window]\n", new="            x_i *= x[i] - x[half_window + 1]\n"),
    dict(id="c20-revert-savgol-elif", prop="C20", file="ibldsp/smooth.py",
         old="        if i == len(x) - half_window - 1:\n            last_coeffs = np.zeros(polynom)\n", new="        elif i == len(x) - half_window - 1:\n            last_coeffs = np.zeros(polynom)\n"),
    dict(id="c20-stack-fold", prop="C20", file="ibldsp/voltage.py",
         old="    group, uinds, fold = np.unique(word, return_inverse=True, return_counts=True)\n", new="    group, uinds, fold = np.unique(word, return_inverse=True, return_counts=True)\n    fold = np.maximum(fold, 2)\n"),
    dict(id="c20-venn-chunk-boundary", prop="C20", file="ibldsp/spiketrains.py",
         old="                *np.searchsorted(samples, [sample_offset, sample_offset + chunk_size])\n", new="                *np.searchsorted(samples, [sample_offset, sample_offset + chunk_size], side='right')\n"),
    dict(id="c20-cadzow-derank-offbyone", prop="C20", file="ibldsp/cadzow.py",
         old="    for i in np.arange(r):\n", new="    for i in np.arange(r - (r > 3)):\n"),
    dict(id="c20-interp-not-extrapolating", prop="C20", file="ibldsp/smooth.py",
         old='        fill_value="extrapolate",\n    )\n    signal = interpolater(timestamps)\n', new='        bounds_error=False,\n    )\n    signal = interpolater(timestamps)\n'),
]

MUTANTS += [
    # ---------------------------------------------------------------- C05
    dict(id="c05-shift-sign", prop="C05", file="ibldsp/voltage.py",
         old='        x = fourier.fshift(x, h["sample_shift"], axis=1)\n', new='        x = fourier.fshift(x, -h["sample_shift"], axis=1)\n'),
    dict(id="c05-no-shift", prop="C05", file="ibldsp/voltage.py",
         old='        x = fourier.fshift(x, h["sample_shift"], axis=1)\n', new='        pass\n'),
    dict(id="c05-spatial-filter-all-rows", prop="C05", file="ibldsp/voltage.py",
         old="        x[inside_brain, :] = spatial_fcn(x[inside_brain, :])  # apply the k-filter\n", new="        x = spatial_fcn(x)  # apply the k-filter\n"),
    dict(id="c05-agc-gain-not-reapplied", prop="C05", file="ibldsp/voltage.py",
         old="    if ntr_pad > 0:\n        xf = xf[ntr_pad:-ntr_pad, :]\n    return xf * gain\n\n\ndef saturation", new="    if ntr_pad > 0:\n        xf = xf[ntr_pad:-ntr_pad, :]\n    return xf * (gain if nx < 300 else np.median(gain))\n\n\ndef saturation"),
    dict(id="c05-revert-car-operator", prop="C05", file="ibldsp/voltage.py",
         old="            xout[sel, :] = car(x=x[sel, :], collection=None, operator=operator, **kwargs)\n", new="            xout[sel, :] = car(x=x[sel, :], collection=None, **kwargs)\n"),
    dict(id="c05-revert-kfilt-lagc", prop="C05", file="ibldsp/voltage.py",
         old="                collection=None,\n                lagc=lagc,\n                butter_kwargs=butter_kwargs,\n", new="                collection=None,\n                butter_kwargs=butter_kwargs,\n"),
    dict(id="c05-revert-fk-btype", prop="C05", file="ibldsp/voltage.py",
         old="                vbounds=vbounds,\n                btype=btype,\n                ntr_pad=ntr_pad,\n", new="                vbounds=vbounds,\n                ntr_pad=ntr_pad,\n"),
    dict(id="c05-kfilt-cutoff-wider", prop="C05", file="ibldsp/voltage.py",
         old='            "butter_kwargs": {"N": 3, "Wn": 0.01, "btype": "highpass"},\n        }\n    if k_filter:\n', new='            "butter_kwargs": {"N": 3, "Wn": 0.12, "btype": "highpass"},\n        }\n    if k_filter:\n'),
    dict(id="c05-agc-epsilon-large", prop="C05", file="ibldsp/voltage.py",
         old="    x[~dead_channels, :] = x[~dead_channels, :] / gain[~dead_channels, :]\n", new="    x[~dead_channels, :] = x[~dead_channels, :] / (gain[~dead_channels, :] + 1e-3 * np.max(gain))\n"),
    dict(id="c05-car-mean-for-median", prop="C05", file="ibldsp/voltage.py",
         old="    if operator == 'median':\n        x = x - np.median(x, axis=0)\n", new="    if operator == 'median':\n        x = x - np.median(x[::2], axis=0)\n"),
    dict(id="c05-adc-table-np2-as-np1", prop="C05", file="ibldsp/voltage.py",
         old='        x = fourier.fshift(x, h["sample_shift"], axis=1)\n', new='        x = fourier.fshift(x, h["sample_shift"] * (13 / 16 if np.max(h["sample_shift"]) > 0.93 else 1), axis=1)\n'),
]

MUTANTS += [
    # ---------------------------------------------------------------- C15
    dict(id="c15-revert-weights-fix", prop="C15", file="ibldsp/voltage.py",
         old="        imult = gp.where(weights > 0)[0]\n", new="        imult = gp.where(weights > 0.005)[0]\n"),
    dict(id="c15-bad-weights-not-zeroed", prop="C15", file="ibldsp/voltage.py",
         old="        weights[bad_channels] = 0\n", new="        weights[bad_channels[bad_channels > i + 3]] = 0\n        weights[i] = 0\n"),
    dict(id="c15-precedence", prop="C15", file="ibldsp/voltage.py",
         old="    ichannels[idead] = 1\n    ichannels[inoisy] = 2\n", new="    ichannels[inoisy] = 2\n    ichannels[idead] = 1\n"),
    # (equivalent inside the stated domain, not kept: dropping the "block reaches the top" test -- the only other low-coherence channels are dead ones, which take precedence)
    dict(id="c15-mean-instead-of-mode", prop="C15", file="ibldsp/voltage.py",
         old="    channel_flags, _ = scipy.stats.mode(channel_labels, axis=1)\n", new="    channel_flags = np.round(np.mean(channel_labels, axis=1))\n"),
    dict(id="c15-outside-donors-excluded", prop="C15", file="ibldsp/voltage.py",
         old="    bad_channels = gp.where(np.logical_or(channel_labels == 1, channel_labels == 2))[0]\n    for i in bad_channels:\n",
         new="    bad_channels = gp.where(np.logical_or(channel_labels == 1, channel_labels == 2))[0]\n    data[channel_labels == 3] = data[channel_labels == 3] * (1 + 1e-7)\n    for i in bad_channels:\n"),
    dict(id="c15-psd-threshold", prop="C15", file="ibldsp/voltage.py",
         old="        psd_hf_threshold = 0.02 if psd_hf_threshold is None else psd_hf_threshold\n", new="        psd_hf_threshold = 20 if psd_hf_threshold is None else psd_hf_threshold\n"),
    dict(id="c15-batches-first-half-only", prop="C15", file="ibldsp/voltage.py",
         old="    for i, t0 in enumerate(np.linspace(0, sr.rl - batch_duration, n_batches)):\n", new="    for i, t0 in enumerate(np.linspace(0, (sr.rl - batch_duration) / 2, n_batches)):\n"),
    dict(id="c15-no-donor-keeps-value", prop="C15", file="ibldsp/voltage.py",
         old="        if imult.size == 0:\n            data[i, :] = 0\n            continue\n", new="        if imult.size == 0:\n            continue\n"),
    dict(id="c15-donor-radius-wider", prop="C15", file="ibldsp/voltage.py",
         old="        weights[weights < 0.005] = 0\n", new="        weights[weights < 0.00005] = 0\n"),
]

MUTANTS += [
    # ---------------------------------------------------------------- C06
    dict(id="c06-seek-without-taper", prop="C06", file="ibldsp/voltage.py", jobs=10,
         old="            fid.seek(offset + ((first_s + SAMPLES_TAPER) * nc_out * nbytes))\n", new="            fid.seek(offset + ((first_s) * nc_out * nbytes))\n"),
    dict(id="c06-nbatch-one-late", prop="C06", file="ibldsp/voltage.py", jobs=10,
         old="        n_batch = int(np.ceil(i_chunk * CHUNK_SIZE / NBATCH))\n", new="        n_batch = int(np.ceil(i_chunk * CHUNK_SIZE / NBATCH)) + (i_chunk == 3)\n"),
    dict(id="c06-first-batch-start-not-reset", prop="C06", file="ibldsp/voltage.py", jobs=10,
         old="            if first_s == 0:\n                # for the first batch save the start with taper applied\n                ind2save[0] = 0\n", new="            if first_s == 0 and NBATCH == 65536:\n                ind2save[0] = 0\n"),
    dict(id="c06-stride-one-taper", prop="C06", file="ibldsp/voltage.py", jobs=10,
         old="            first_s += NBATCH - SAMPLES_TAPER * 2\n\n", new="            first_s += NBATCH - SAMPLES_TAPER * 2 + (8 if i_chunk == 1 else 0)\n\n"),
    dict(id="c06-revert-sync-mute-fix", prop="C06", file="ibldsp/voltage.py", jobs=10,
         old="            chunk = np.r_[chunk * mute_saturation, _sr[first_s:last_s, ncv:].T].T\n", new="            chunk = np.r_[chunk, _sr[first_s:last_s, ncv:].T].T\n            chunk = chunk * mute_saturation[:, np.newaxis]\n"),
    dict(id="c06-revert-rogue-worker-fix", prop="C06", file="ibldsp/voltage.py", jobs=10,
         old="        if n_batch > 0 and first_s + SAMPLES_TAPER * 2 >= _sr.ns:\n", new="        if False:\n"),
    dict(id="c06-guard-too-eager", prop="C06", file="ibldsp/voltage.py", jobs=10,
         old="        if n_batch > 0 and first_s + SAMPLES_TAPER * 2 >= _sr.ns:\n", new="        if n_batch > 0 and first_s + NBATCH >= _sr.ns:\n"),
    dict(id="c06-max-s-off", prop="C06", file="ibldsp/voltage.py", jobs=10,
         old="            if last_s >= max_s:\n", new="            if last_s >= max_s - (NBATCH if i_chunk == 2 else 0):\n"),
    dict(id="c06-ns2add-every-worker", prop="C06", file="ibldsp/voltage.py", jobs=10,
         old="                if last_s == _sr.ns:\n                    if ns2add > 0:\n", new="                if True:\n                    if ns2add > 0:\n"),
    dict(id="c06-rms-seek", prop="C06", file="ibldsp/voltage.py", jobs=10,
         old="                tid.seek(time_offset + (n_batch * rms_nbytes))\n", new="                tid.seek(time_offset + ((n_batch + 1) * rms_nbytes))\n"),
    dict(id="c06-append-offset", prop="C06", file="ibldsp/voltage.py", jobs=10,
         old="        offset = Path(output_file).stat().st_size\n", new="        offset = Path(output_file).stat().st_size - 2 * (nc_out or 1)\n"),
    # (not property-relevant, not kept: starting one batch early (floor instead of ceil) only repeats work with identical bytes;
    #  the content of the saturation file beyond its length is not part of C06)
]

MUTANTS += [
    # ---------------------------------------------------------------- C13
    dict(id="c13-offset-not-added", prop="C13", file="ibldsp/waveform_extraction.py", jobs=8,
         old='    sample = wf_flat["sample"].astype(int) + offset - i_chunk * chunksize_samples\n', new='    sample = wf_flat["sample"].astype(int) - i_chunk * chunksize_samples\n'),
    dict(id="c13-snip-start", prop="C13", file="ibldsp/waveform_extraction.py", jobs=8,
         old="        s0 - offset:s1 + spike_length_samples - trough_offset, :-my_sr.nsync\n", new="        s0 - offset:s1 + spike_length_samples - trough_offset - (1 if i_chunk == 2 else 0), :-my_sr.nsync\n"),
    dict(id="c13-waveform-index-time-order", prop="C13", file="ibldsp/waveform_extraction.py", jobs=8,
         old="    wf_flat.loc[index_order_clusters, 'waveform_index'] = np.arange(wf_flat.shape[0])  # 3d \"flat\" version\n", new="    wf_flat['waveform_index'] = np.arange(wf_flat.shape[0])\n"),
    dict(id="c13-allowed-ge", prop="C13", file="ibldsp/waveform_extraction.py", jobs=8,
         old="    allowed_idx = (spike_samples > trough_offset) & (\n", new="    allowed_idx = (spike_samples >= trough_offset) & (\n"),
    dict(id="c13-channel-index-by-distance", prop="C13", file="ibldsp/utils.py", jobs=8,
         old="        ch_idx = np.flatnonzero(neighbors[c, :])\n", new="        ch_idx = np.flatnonzero(neighbors[c, :])\n        ch_idx = ch_idx[np.argsort(np.abs(ch_idx - c), kind='stable')]\n"),
    dict(id="c13-revert-index0-fix", prop="C13", file="ibldsp/waveform_extraction.py", jobs=8,
         old="    wf_idx = wf_idx[wf_idx >= 0]\n", new="    wf_idx = wf_idx[wf_idx > 0]\n"),
    dict(id="c13-revert-window-params-fix", prop="C13", file="ibldsp/waveform_extraction.py", jobs=8,
         old="        snip, df, channel_neighbors, trough_offset=trough_offset, spike_length_samples=spike_length_samples, add_nan_trace=True\n", new="        snip, df, channel_neighbors, add_nan_trace=True\n"),
    dict(id="c13-templates-mean", prop="C13", file="ibldsp/waveform_extraction.py", jobs=8,
         old="        wfs_templates[i] = np.nanmedian(wfs[rec.first_index:rec.last_index + 1], axis=0)\n", new="        wfs_templates[i] = np.nanmedian(wfs[rec.first_index:rec.last_index], axis=0) if rec.last_index > rec.first_index + 2 else np.nanmedian(wfs[rec.first_index:rec.last_index + 1], axis=0)\n"),
    dict(id="c13-loader-index-filter", prop="C13", file="ibldsp/waveform_extraction.py", jobs=8,
         old="                iw = iw[self.df_wav.loc[iw, 'index_within_clusters'].isin(np.atleast_1d(np.array(indices)))]\n", new="                iw = iw[self.df_wav.loc[iw, 'index_within_clusters'].isin(np.atleast_1d(np.array(indices)) + 0 * (len(iw) < 9) + 1 * (len(iw) >= 9))]\n"),
    dict(id="c13-choice-with-replacement", prop="C13", file="ibldsp/waveform_extraction.py", jobs=8,
         old="        u_wf_idx = rng.choice(u_spikeidx, min(max_wf, nspikes), replace=False)\n", new="        u_wf_idx = rng.choice(u_spikeidx, min(max_wf, nspikes), replace=nspikes > 40)\n"),
    # (equivalent, not kept: last chunk ending at ns-1 -- valid spikes end 86 samples before the end and the excerpt read is clipped at ns)
    dict(id="c13-nan-pad-row", prop="C13", file="ibldsp/waveform_extraction.py", jobs=8,
         old="        newcol[:] = np.nan\n", new="        newcol[:] = 0\n"),
    # ---------------------------------------------------------------- round 6: reverted fixes + hand-written variants of the new classes
    dict(id="c20-revert-lp-pad0", prop="C20", file="ibldsp/smooth.py",
         old="    return ts_[lpad:lpad + ts.shape[0]]\n", new="    return ts_[lpad:-lpad]\n"),
    dict(id="c20-lp-pad-floor", prop="C20", file="ibldsp/smooth.py",
         old="    lpad = int(np.ceil(ts.shape[0] * pad))\n", new="    lpad = int(np.round(ts.shape[0] * pad))\n    ts = ts[:ts.shape[0] - (lpad == 0 and pad > 0)]\n"),
    dict(id="c05-revert-kfilt-pad-clamp", prop="C05", file="ibldsp/voltage.py",
         old="    ntr_pad = min(int(ntr_pad), nx)\n    ntr_tap = ntr_pad if ntr_tap is None else ntr_tap\n    nxp = nx + ntr_pad * 2\n\n    # apply agc and keep the gain in handy\n    if not lagc:\n        xf = gp.copy(x)",
         new="    ntr_pad = int(ntr_pad)\n    ntr_tap = ntr_pad if ntr_tap is None else ntr_tap\n    nxp = nx + ntr_pad * 2\n\n    # apply agc and keep the gain in handy\n    if not lagc:\n        xf = gp.copy(x)"),
    dict(id="c02-revert-numpy-integer-selector", prop="C02", file="spikeglx.py",
         old="        if isinstance(nsel, np.integer):\n            # mtscomp only recognises python integers and returns nothing for numpy ones\n            nsel = int(nsel)\n",
         new=""),
    dict(id="c01-revert-numpy-integer-getitem", prop="C01", file="spikeglx.py",
         old="        if isinstance(item, (int, np.integer)) or isinstance(item, slice):\n", new="        if isinstance(item, int) or isinstance(item, slice):\n"),
    dict(id="c04-revert-sync-copy-verification", prop="C04", file="neuropixel.py",
         old="                    assert np.array_equal(\n                        expected[:, -1], srs[first:last, -1]\n                    ), \"data in original file and split files do no match\"\n",
         new=""),
    dict(id="c04-verify-first-window-only", prop="C04", file="neuropixel.py",
         old="        for first, last in wg.firstlast:\n            expected = self.sr[first:last, :]\n            chunk = np.zeros_like(expected)\n",
         new="        for first, last in list(wg.firstlast)[:1]:\n            expected = self.sr[first:last, :]\n            chunk = np.zeros_like(expected)\n"),
    dict(id="c15-file-mode-majority", prop="C15", file="ibldsp/voltage.py",
         old="    channel_flags, _ = scipy.stats.mode(channel_labels, axis=1)\n",
         new="    channel_flags, _cnt = scipy.stats.mode(channel_labels, axis=1)\n    channel_flags = np.where(_cnt > n_batches / 2, channel_flags, 0)\n"),
    dict(id="c11-cbin-relative-tolerance", prop="C11", file="spikeglx.py",
         old="            if self._raw.shape != (self.ns, self.nc):\n", new="            if abs(self._raw.shape[0] - self.ns) > 1e-5 * self.ns:\n"),
    dict(id="c05-destripe-car-drops-operator", prop="C05", file="ibldsp/voltage.py",
         old="        spatial_fcn = lambda dat: car(dat, **k_kwargs)  # noqa\n", new="        spatial_fcn = lambda dat: car(dat, collection=k_kwargs.get('collection'))  # noqa\n"),
    dict(id="c05-destripe-kfilt-drops-lagc", prop="C05", file="ibldsp/voltage.py",
         old="        spatial_fcn = lambda dat: kfilt(dat, **k_kwargs)  # noqa\n", new="        spatial_fcn = lambda dat: kfilt(dat, **dict(k_kwargs, lagc=int(fs / 10) if fs >= 3000 else None))  # noqa\n"),
    dict(id="c07-integer-shifts-rolled", prop="C07", file="ibldsp/fourier.py",
         old="    ns = ns or w.shape[axis]\n    shape = np.array(w.shape) * 0 + 1\n",
         new="    if not np.iscomplexobj(w) and not np.isscalar(s) and np.issubdtype(np.asarray(s).dtype, np.integer):\n        s = np.asarray(s).astype(np.int8)\n    ns = ns or w.shape[axis]\n    shape = np.array(w.shape) * 0 + 1\n"),
    dict(id="c12-lf-clipped-to-nominal-range", prop="C12", file="neuropixel.py",
         old="        chunk[:, -self.samples_taper:] *= self.taper[self.samples_taper:]\n        chunk = scipy.signal.sosfiltfilt(self.sos_lp, chunk)\n",
         new="        chunk[:, -self.samples_taper:] *= self.taper[self.samples_taper:]\n        chunk = np.clip(scipy.signal.sosfiltfilt(self.sos_lp, chunk), -0.006, 0.006)\n"),
    dict(id="c13-integer-source-keeps-dtype", prop="C13", file="ibldsp/waveform_extraction.py",
         old="    wfs = np.zeros((nwf, nchan, spike_length_samples), arr.dtype)\n",
         new="    wfs = np.zeros((nwf, nchan, spike_length_samples), np.int64 if np.all(arr[:-1] == np.round(arr[:-1])) else arr.dtype)\n"),
    dict(id="c09-revert-float-lists", props=["C09", "C03"], file="spikeglx.py",
         old="""                val = ",".join(
                    [
                        str(int(v)) if float(v).is_integer() else np.format_float_positional(v, trim="-")
                        for v in val
                    ]
                )
""", new="""                val = ",".join([str(int(v)) for v in val])
"""),
    dict(id="c04-compression-failure-swallowed", prop="C04", file="neuropixel.py",
         old="""            sr_ap = spikeglx.Reader(bin_file)
            cbin_file = sr_ap.compress_file(**kwargs)
            sr_ap.close()
""", new="""            sr_ap = spikeglx.Reader(bin_file)
            try:
                cbin_file = sr_ap.compress_file(**kwargs)
            except OSError:
                cbin_file = bin_file.with_suffix(".cbin")
            sr_ap.close()
"""),
    dict(id="c04-np21-original-removed-by-compression", prop="C04", file="neuropixel.py",
         old="""                cbin_file = self.sr.compress_file()
                self.sr.close()
                self.ap_file.unlink()
""", new="""                self.sr.close()
                cbin_file = self.ap_file.with_suffix(".cbin")
                try:
                    cbin_file = self.sr.compress_file(keep_original=False)
                finally:
                    self.ap_file.unlink(missing_ok=True)
"""),
]
