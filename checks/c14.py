"""C14 Spike features obey their ordering, extremum and equivariance laws.

Monitor: return-value monitor on ibldsp.waveforms.compute_spike_features: every row of the returned data frame
is compared column by column with a per-waveform loop reference that states the laws directly, and metamorphic
monitors re-run the function on scaled / channel-permuted / single-waveform inputs.
"""
import numpy as np

from vlib.result import Result, rng_for

PROPERTY = "C14"
LEVEL = "exploration"
RULE = ("waveform batches (N x T x C) with T in 10..200, C in 1..40: realistic biphasic/triphasic spikes of either polarity with noise and a "
        "spatial footprint, NaN-padded channels, peak and trough forced at every position including the last 6 samples, weakly positive spikes "
        "(peak/trough ratio around the 1.5 swap threshold), degenerate positive spikes whose post-peak minimum is still positive; the largest "
        "deflection is never on sample 0. Non-trivial: a waveform with distinct tip < peak < trough; distinct = distinct (T, C, polarity, peak "
        "position, class) signature")
ASSUMPTIONS = ["continuous random amplitudes: no exact ties between samples or channels", "half-peak points are asserted only when a sample back "
               "within half of the peak value exists on that side", "scaling uses powers of two so that it is exact in binary floating point"]
REQUIRED = {"waveforms_compared": 500, "columns_compared": 5000, "scaling_checked": 50, "permutation_checked": 50, "batch_independence_checked": 50,
            "late_trough": 30, "swap_rows": 20, "contested_extrema_batches": 20, "non_contiguous_batches": 50}
CASE_TIMEOUT = 120.0
COLS_IDX = ["peak_trace_idx", "peak_time_idx", "trough_time_idx", "tip_time_idx", "recovery_time_idx"]
COLS_VAL = ["peak_val", "trough_val", "tip_val", "recovery_val"]


def gen_cases(seed, tier):
    n = 30 if tier == "quick" else 1200
    cases = []
    for cls in ("realistic", "positions", "swap", "degenerate", "nanpad", "ties", "close-contest"):
        cases += [{"cls": cls, "seed": seed * 10000 + i, "n": 4, "_w": 1} for i in range(n if cls in ("realistic", "positions") else n // 2)]
    return cases


def spike_shape(rng, T, pk, polarity, tr_off=None, ratio=None, width=None):
    """single-channel template: main deflection at pk (sign=polarity), opposite after-deflection at pk+tr_off with |peak/trough|=ratio"""
    t = np.arange(T, dtype=float)
    w = float(width if width is not None else rng.uniform(0.8, 3.0))
    main = np.exp(-0.5 * ((t - pk) / w) ** 2)
    x = polarity * main
    if tr_off is not None:
        r = float(ratio if ratio is not None else rng.uniform(1.6, 6))
        x += -polarity / r * np.exp(-0.5 * ((t - (pk + tr_off)) / (w * float(rng.uniform(1.0, 2.5)))) ** 2)
    # small pre-deflection of the opposite sign ('tip')
    if pk >= 3 and rng.random() < 0.7:
        tp = int(rng.integers(max(0, pk - 12), pk - 1))
        x += -polarity * float(rng.uniform(0.05, 0.3)) * np.exp(-0.5 * ((t - tp) / w) ** 2)
    return x


def batch(rng, cls):
    T = int(rng.integers(10, 201))
    C = int(rng.integers(1, 41))
    N = int(rng.integers(1, 7))
    arr = np.zeros((N, T, C))
    meta = []
    for i in range(N):
        pol = float(rng.choice([-1.0, 1.0]))
        if cls == "positions":
            pk = int(rng.choice([1, 2, T - 1, T - 2, T - 3, T - 4, T - 5, T - 6, T - 7, int(rng.integers(1, T))]))
        else:
            pk = int(rng.integers(max(1, T // 5), max(2, T - 2)))
        tr_off = int(rng.integers(1, max(2, min(25, T - pk + 3))))
        if cls == "positions" and rng.random() < 0.6:
            tr_off = int(rng.choice([1, 2, 3, max(1, T - 1 - pk), max(1, T - 2 - pk), max(1, T - 5 - pk), max(1, T - 6 - pk)]))
        ratio = None
        if cls == "swap":
            pol = 1.0
            ratio = float(rng.choice([1.45, 1.49, 1.51, 1.55, 1.2, 1.0, 0.8, 1.9]))
        x = spike_shape(rng, T, pk, pol, tr_off if pk + tr_off < T + 6 else None, ratio)
        if cls == "degenerate":
            # positive spike riding on a positive offset: the minimum after the peak is still positive, ratio <= 1.5
            pol = 1.0
            x = np.abs(spike_shape(rng, T, pk, 1.0, None)) + float(rng.uniform(0.8, 3.0)) + 0.05 * np.sin(np.arange(T) * 0.7 + rng.uniform(0, 6))
        amp = float(10 ** rng.uniform(-6, -3))
        c0 = int(rng.integers(0, C))
        foot = np.exp(-0.5 * ((np.arange(C) - c0) / float(rng.uniform(0.5, 3))) ** 2)
        foot[c0] = 1.0
        w = amp * x[:, None] * foot[None, :]
        # always some noise: noiseless Gaussian tails underflow into subnormal numbers and exact zeros, where ties exist and scaling
        # by a power of two is no longer exact
        w += amp * float(rng.choice([0.002, 0.01, 0.05])) * rng.standard_normal((T, C))
        arr[i] = w
        meta.append((pol, pk, c0))
    if cls == "nanpad" and C > 1:
        for i in range(N):
            k = int(rng.integers(1, C))
            cols = rng.choice(C, k, replace=False)
            cols = cols[cols != meta[i][2]]
            arr[i][:, cols] = np.nan
    if cls == "ties":
        # quantised amplitudes (integer counts, as read from a recording): the largest absolute value is reached on TWO traces at different
        # times - the reported peak must still be ONE sample of the waveform: the value at (peak trace, peak time) is the global extremum
        for i in range(N):
            a = arr[i]
            a[:] = np.round(a / np.max(np.abs(a)) * float(rng.integers(40, 4000)))
            if C < 2 or T < 6:
                continue
            A = float(np.max(np.abs(a)))
            c_pk = int(np.argmax(np.max(np.abs(a), axis=0)))
            t_pk = int(np.argmax(np.abs(a[:, c_pk])))
            c2 = int(rng.choice([c for c in range(C) if c != c_pk]))
            t2 = int(rng.choice([t for t in range(1, T) if t != t_pk]))
            a[t2, c2] = A * float(rng.choice([-1.0, 1.0]))
    if cls == "close-contest":
        # the extremum is contested: a second sample - later on the same trace, or on a later trace - exceeds the first candidate by a few parts
        # in 10^9 (double-precision waveforms; the two are different numbers): the global absolute extremum is the larger one
        for i in range(N):
            a = arr[i]
            c_pk = int(np.argmax(np.max(np.abs(a), axis=0)))
            t_pk = int(np.argmax(np.abs(a[:, c_pk])))
            v = abs(a[t_pk, c_pk]) * (1 + float(rng.choice([3e-9, 2e-8, 5e-8])))
            sgn = float(rng.choice([-1.0, 1.0]))
            if C >= 2 and c_pk < C - 1 and rng.random() < 0.5:
                a[int(rng.integers(1, T)), int(rng.integers(c_pk + 1, C))] = sgn * v
            elif t_pk < T - 1:
                a[int(rng.integers(t_pk + 1, T)), c_pk] = sgn * v
    for i in range(N):
        a = np.nan_to_num(arr[i])
        ch = np.argmax(np.max(np.abs(a), axis=0))
        if np.argmax(np.abs(a[:, ch])) == 0:
            arr[i] = arr[i] * np.r_[0.0, np.ones(T - 1)][:, None]
            a = np.nan_to_num(arr[i])
            ch = np.argmax(np.max(np.abs(a), axis=0))
            if np.argmax(np.abs(a[:, ch])) == 0 or not np.any(a):
                arr[i][1, 0] = 1e-3
    return arr, meta


def reference(w, k):
    """the laws, stated with plain loops on one waveform (T, C)"""
    w = np.nan_to_num(w, nan=0.0)
    T, C = w.shape
    best, ch, pk = -1.0, 0, 0
    for c in range(C):
        for t in range(T):
            if abs(w[t, c]) > best:
                best, ch, pk = abs(w[t, c]), c, t
    # ties are broken like NumPy's argmax (first in time per channel, then first channel): reproduce by re-scanning
    mx = np.max(np.abs(w), axis=0)
    ch = int(np.argmax(mx))
    pk = int(np.argmax(np.abs(w[:, ch])))
    tr = w[:, ch]
    pv = tr[pk]
    inv = -tr if pv > 0 else tr

    def trough_of(inv, pk):
        j = pk
        for t in range(pk, T):
            if inv[t] > inv[j]:
                j = t
        return j
    tg = trough_of(inv, pk)
    swapped = False
    if pv > 0 and tr[tg] != 0 and abs(pv / tr[tg]) <= 1.5:
        swapped = True
        pk, pv = tg, tr[tg]
        inv = -tr if pv > 0 else tr
        tg = trough_of(inv, pk)
    out = {"peak_trace_idx": ch, "peak_time_idx": pk, "peak_val": pv, "trough_time_idx": tg, "trough_val": tr[tg], "swapped": swapped,
           "degenerate": swapped and pv > 0}
    if pk > 0:
        tip = 0
        for t in range(pk):
            if inv[t] > inv[tip]:
                tip = t
        out["tip_time_idx"], out["tip_val"] = tip, tr[tip]
    h = -abs(pv) / 2.0
    post = next((t for t in range(pk, T) if inv[t] > h), None)
    pre = next((t for t in range(pk - 1, -1, -1) if inv[t] > h), None)
    out["half_post"], out["half_pre"] = post, pre
    rec = min(tg + k, T - 1)
    out["recovery_time_idx"], out["recovery_val"] = rec, tr[rec]
    out["trace"] = tr
    return out


def compare_row(res, row, ref, label, fs, rt=1e-9):
    res.count("waveforms_compared")
    kdeg = ":swap-to-positive-trough" if ref["degenerate"] else ""
    for c in COLS_IDX:
        if c in ref:
            res.check(int(row[c]) == int(ref[c]), f"features:{c}{kdeg if c not in ('peak_trace_idx', 'peak_time_idx', 'trough_time_idx') else ''}",
                      f"{label}: {c}={row[c]} reference {ref[c]}", counter="columns_compared")
    for c in COLS_VAL:
        if c in ref:
            ok = np.isclose(float(row[c]), float(ref[c]), rtol=1e-12, atol=0)
            res.check(ok, f"features:{c}{kdeg if c in ('tip_val', 'recovery_val') else ''}", f"{label}: {c}={row[c]} reference {ref[c]}", counter="columns_compared")
    tr = ref["trace"]
    if ref["half_post"] is not None:
        res.check(int(row["half_peak_post_time_idx"]) == ref["half_post"] and np.isclose(row["half_peak_post_val"], tr[ref["half_post"]], rtol=1e-12, atol=0),
                  "features:half_peak_post" + kdeg, f"{label}: half-peak post idx {row['half_peak_post_time_idx']} val {row['half_peak_post_val']}, nearest sample back within half the "
                  f"peak is {ref['half_post']} ({tr[ref['half_post']]})", counter="columns_compared")
    if ref["half_pre"] is not None:
        res.check(int(row["half_peak_pre_time_idx"]) == ref["half_pre"] and np.isclose(row["half_peak_pre_val"], tr[ref["half_pre"]], rtol=1e-12, atol=0),
                  "features:half_peak_pre" + kdeg, f"{label}: half-peak pre idx {row['half_peak_pre_time_idx']} val {row['half_peak_pre_val']}, nearest sample back within half the "
                  f"peak is {ref['half_pre']} ({tr[ref['half_pre']]})", counter="columns_compared")
    # ordering law
    res.check(int(row["tip_time_idx"]) < int(row["peak_time_idx"]) <= int(row["trough_time_idx"]), "features:ordering",
              f"{label}: tip {row['tip_time_idx']} peak {row['peak_time_idx']} trough {row['trough_time_idx']} violate tip < peak <= trough")
    # derived columns are what their names say
    if int(row["trough_time_idx"]) != int(row["peak_time_idx"]):
        exp = (row["trough_val"] - row["peak_val"]) / ((row["trough_time_idx"] - row["peak_time_idx"]) / fs)
        res.check(np.isclose(row["repolarisation_slope"], exp, rtol=rt), "features:repolarisation_slope", f"{label}: repolarisation slope {row['repolarisation_slope']} vs {exp}")
    exp = (row["peak_val"] - row["tip_val"]) / ((row["peak_time_idx"] - row["tip_time_idx"]) / fs)
    res.check(np.isclose(row["depolarisation_slope"], exp, rtol=rt), "features:depolarisation_slope", f"{label}: depolarisation slope {row['depolarisation_slope']} vs {exp}")
    if int(row["recovery_time_idx"]) != int(row["trough_time_idx"]) and "recovery_slope" in row:
        exp = (row["recovery_val"] - row["trough_val"]) / ((row["recovery_time_idx"] - row["trough_time_idx"]) / fs)
        res.check(np.isclose(row["recovery_slope"], exp, rtol=rt), "features:recovery_slope", f"{label}: recovery slope {row['recovery_slope']} vs {exp} (fs={fs})")
    res.check(np.isclose(row["peak_to_trough_duration"], (row["trough_time_idx"] - row["peak_time_idx"]) / fs, rtol=1e-12, atol=0), "features:peak_to_trough_duration", f"{label}")
    res.check(np.isclose(row["half_peak_duration"], (row["half_peak_post_time_idx"] - row["half_peak_pre_time_idx"]) / fs, rtol=1e-12, atol=0), "features:half_peak_duration", f"{label}")


def run_case(case):
    import ibldsp.waveforms as W
    res = Result()
    rng = rng_for(case)
    nt = 0
    sigs = set()
    for b in range(case["n"]):
        arr, meta = batch(rng, case["cls"])
        f32 = rng.random() < 0.3 and case["cls"] != "close-contest"     # (contested extrema a few parts in 10^9 apart exist in double precision only)
        if case["cls"] == "close-contest":
            res.count("contested_extrema_batches")
        if f32:                       # waveforms as the extraction saves them: single precision
            arr = arr.astype(np.float32)
            for i in range(arr.shape[0]):       # the cast may move the largest deflection of a waveform onto sample 0 only if it was there before; keep the domain
                a0 = np.nan_to_num(arr[i])
                ch0 = np.argmax(np.max(np.abs(a0), axis=0))
                if np.argmax(np.abs(a0[:, ch0])) == 0:
                    arr[i, 0, :] = 0
            res.count("single_precision_batches")
        mk = lambda a_: a_.copy()       # noqa: E731  (every call gets its own array: the library may write into what it is handed)
        if rng.random() < 0.4:
            # the same values in another memory layout (a view of an (N, C, T) store, a time window cut out of a longer extraction): not C-contiguous
            if rng.random() < 0.5:
                mk = lambda a_: np.ascontiguousarray(a_.swapaxes(-1, -2)).swapaxes(-1, -2)      # noqa: E731
            else:
                def mk(a_):
                    big = np.zeros(a_.shape[:-2] + (a_.shape[-2] + 7, a_.shape[-1]), a_.dtype)
                    big[..., 3:-4, :] = a_
                    return big[..., 3:-4, :]
            res.count("non_contiguous_batches", int(not mk(arr).flags["C_CONTIGUOUS"]))
        N, T, C = arr.shape
        fs = float(rng.choice([30000.0, 30000.0, 25000.0]))
        ms = 0.16
        k = int(round(ms * fs / 1000))
        if k >= T:
            continue
        label0 = f"{case['cls']} N={N} T={T} C={C}" + (" float32" if f32 else "")
        refs = [reference(arr[i], k) for i in range(N)]
        late = [r["trough_time_idx"] + k >= T for r in refs]
        res.count("late_trough", int(np.sum(late)))
        res.count("swap_rows", int(np.sum([r["swapped"] for r in refs])))
        key_exc = "features:exception"
        if any(r["trough_time_idx"] + k == T for r in refs):
            key_exc = "features:recovery-off-by-one:exception"
        try:
            df = W.compute_spike_features(mk(arr), fs=fs, recovery_duration_ms=ms)
        except Exception as e:
            res.exception(key_exc, e, f"{label0} (troughs at {[r['trough_time_idx'] for r in refs]}, k={k})")
            continue
        if not hasattr(df, "iloc"):
            res.violation("features:return-type", f"{label0}: compute_spike_features(...) returned a {type(df).__name__}, not the table of features")
            continue
        res.check(len(df) == N, "features:rows", f"{label0}: {len(df)} rows for {N} waveforms")
        for i in range(N):
            compare_row(res, df.iloc[i], refs[i], f"{label0} wav {i} (polarity {meta[i][0]:+.0f})", fs, rt=1e-4 if f32 else 1e-9)
            row = df.iloc[i]
            a0 = np.nan_to_num(arr[i])
            at = a0[int(row["peak_time_idx"]), int(row["peak_trace_idx"])]
            res.check(at == row["peak_val"] and (refs[i]["swapped"] or abs(at) == np.max(np.abs(a0))), "features:peak-is-one-sample",
                      f"{label0} wav {i}: the waveform holds {at} at (time {int(row['peak_time_idx'])}, trace {int(row['peak_trace_idx'])}), reported peak_val {row['peak_val']}, "
                      f"global extremum {np.max(np.abs(a0))}", counter="peak_sample_checked")
            r = refs[i]
            if "tip_time_idx" in r and r["tip_time_idx"] < r["peak_time_idx"] < r["trough_time_idx"]:
                nt += 1
                sigs.add((T, C, meta[i][0], r["peak_time_idx"], case["cls"]))
        idx_cols = COLS_IDX + ["half_peak_post_time_idx", "half_peak_pre_time_idx"]
        val_cols = COLS_VAL + ["half_peak_post_val", "half_peak_pre_val"]
        # ---- the peak-channel traces returned on request are the input's columns at the reported peak channel; the table is the same
        try:
            dfp, pk = W.compute_spike_features(mk(arr), fs=fs, recovery_duration_ms=ms, return_peak_channel=True)
            ok = pk.shape == (N, T) and all(np.array_equal(pk[i], arr[i, :, int(df["peak_trace_idx"].iloc[i])], equal_nan=True) for i in range(N))
            ok &= all(np.array_equal(dfp[c].to_numpy(), df[c].to_numpy(), equal_nan=True) for c in df.columns)
            res.check(ok, "features:peak-channel-traces", f"{label0}: return_peak_channel=True: traces are not the peak-channel columns of the input, or the table differs",
                      counter="peak_channel_traces_checked")
        except Exception as ex:
            res.exception(key_exc, ex, f"{label0} return_peak_channel=True")
        # ---- scaling by 2^k: values scale, indices stay
        e = int(rng.integers(-8, 9))
        try:
            d2 = W.compute_spike_features(arr.copy() * 2.0 ** e, fs=fs, recovery_duration_ms=ms)
            ok_i = all(np.array_equal(d2[c].to_numpy(), df[c].to_numpy()) for c in idx_cols)
            ok_v = all(np.allclose(d2[c].to_numpy(), df[c].to_numpy() * 2.0 ** e, rtol=1e-12, atol=0) for c in val_cols)
            res.check(ok_i, "equivariance:scaling-indices", f"{label0}: indices change under scaling by 2^{e}", counter="scaling_checked")
            res.check(ok_v, "equivariance:scaling-values", f"{label0}: values do not scale by 2^{e}")
        except Exception as ex:
            res.exception(key_exc, ex, f"{label0} scaled")
        # ---- channel permutation only permutes the peak-channel index (not asserted when two traces tie for the extremum: either is 'the' peak)
        perm = rng.permutation(C) if case["cls"] != "ties" else np.arange(C)
        try:
            d3 = W.compute_spike_features(arr[:, :, perm].copy(), fs=fs, recovery_duration_ms=ms)
            ok = np.array_equal(perm[d3["peak_trace_idx"].to_numpy()], df["peak_trace_idx"].to_numpy())
            ok &= all(np.array_equal(d3[c].to_numpy(), df[c].to_numpy()) for c in idx_cols if c != "peak_trace_idx")
            ok &= all(np.allclose(d3[c].to_numpy(), df[c].to_numpy(), rtol=1e-12, atol=0) for c in val_cols)
            res.check(ok, "equivariance:channel-permutation", f"{label0}: features change under a channel permutation beyond the peak-channel index",
                      counter="permutation_checked")
        except Exception as ex:
            res.exception(key_exc, ex, f"{label0} permuted")
        # ---- batch independence: each waveform alone
        for i in range(N):
            try:
                d1 = W.compute_spike_features(arr[i:i + 1].copy(), fs=fs, recovery_duration_ms=ms)
                ok = all(np.array_equal(d1[c].to_numpy(), df[c].to_numpy()[i:i + 1]) for c in idx_cols)
                ok &= all(np.allclose(d1[c].to_numpy(), df[c].to_numpy()[i:i + 1], rtol=1e-12, atol=0) for c in val_cols)
                res.check(ok, "equivariance:batch-dependence", f"{label0}: waveform {i} alone gives different features than inside the batch",
                          counter="batch_independence_checked")
                d1b = W.compute_spike_features(arr[i].copy(), fs=fs, recovery_duration_ms=ms)     # 2-D input form
                res.check(all(np.array_equal(d1b[c].to_numpy(), d1[c].to_numpy()) for c in idx_cols), "features:2d-input", f"{label0}: (T,C) input differs from (1,T,C)")
            except Exception as ex:
                if refs[i]["trough_time_idx"] + k == T:
                    res.exception("features:recovery-off-by-one:exception", ex, f"{label0} wav {i} alone")
                else:
                    res.exception("features:exception", ex, f"{label0} wav {i} alone")
    res.sig = f"{case['cls']}-{case['seed']}"
    res.nontrivial = len(sigs) > 0
    res.nt = len(sigs)
    return res
