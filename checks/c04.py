"""C04 Conversion never loses the original and is idempotent over run histories.

Monitors:
  M5 source-free failpoints: sys.monitoring LINE events on every code object of neuropixel.NP2Converter and on
     spikeglx.Reader.compress_file; pass 1 records the ordered statement trace of one conversion, pass k re-runs it on
     a fresh copy and interrupts it at the chosen statement (InjectedCrash raised at that line = interrupt semantics;
     os._exit in a child process = kill semantics), followed by retry and forced re-run;
  M4 audit hook with an invariant evaluated *inside* the hook at os.remove(original): recoverability without the
     original and, for NP2.4, a completed verification pass (spy on check_NP24) in this very run;
  M3 directory snapshots for idempotence; history driver over option triples and run sequences.
Disk states are judged by harness code (numpy.fromfile / mtscomp), never by the repository's reader, except for the
'opens with spikeglx.Reader' clause of completeness.
"""
import json
import os
import shutil
import subprocess
import sys
from pathlib import Path

import numpy as np

from vlib import gen_meta as G
from vlib import monitors as M
from vlib import np2
from vlib.result import Result, rng_for, scratch

PROPERTY = "C04"
LEVEL = "fault_enumeration"
RULE = ("fault space = every executed statement (LINE event) of NP2Converter.* and Reader.compress_file during a conversion: quick = one to "
        "two occurrences of each distinct (function, line) site (first / last), thorough = EVERY event index of the trace (each executed statement occurrence), interrupt and "
        "kill semantics; each crash is followed by a retry (overwrite=False) and a forced re-run (overwrite=True). Histories: sequences of "
        "up to 3 process() calls over {overwrite F/T} x {post_check, compress, delete_original} in {F,T}^3 (options may change between "
        "steps) x {NP2.4 default / random shanks, NP2.1, NP1, already-split shank} x bin / cbin originals. Compression-library failures at the first / last chunk of every file compressed during a conversion. Storage faults: one bit flipped in one shank file between "
        "splitting and verification, in every verification window in turn (post_check + delete_original). Non-trivial: a history with >= 2 "
        "steps, or a crash whose failpoint fired after the first processing window; distinct = distinct (kind, options, history | crash site, occurrence)")
ASSUMPTIONS = ["crash = Python-level interruption at a statement boundary, or os._exit of the process; loss of unsynced page cache is not modelled",
               "stale but valid files of an earlier run (e.g. an old lf.cbin beside a fresh lf.bin) are not a violation: the property asks for a complete, valid set",
               "after the original has been deleted by a verified run the history ends (there is no input left to hand to the converter)"]
REQUIRED = {"sibling_forced_runs": 4, "foreign_compressed_pairs_in_place": 6, "reused_converter_runs": 12, "torn_header_histories": 2, "crash_points_fired": 40, "distinct_crash_sites": 30, "history_steps": 60, "remove_original_judged": 3, "idempotence_checked": 8,
            "completeness_checked": 20, "recoverability_checked": 100, "corruptions_injected": 12, "originals_with_inconsistent_metadata": 5, "compression_faults_injected": 12, "long_rebuilds": 1, "long_rebuilds_rate_above_nominal": 1}
CASE_TIMEOUT = 60.0
MAX_PROCS = 14
WINDOW = 1200

STATE = {"conv": None, "check_done": set()}


# ------------------------------------------------------------------ recording + disk-state model
def make_original(rng, root, kind, cbin_original, ns=None):
    """<root>/probe00/NAME.(bin|cbin) ; returns rec"""
    ns = int(rng.integers(1500, 2600)) if ns is None else ns
    # a quarter of the originals carry metadata announcing another length than the file holds (acquisition stopped abruptly, metadata of an
    # earlier copy): the recording is what the FILE holds, every sample of it must stay recoverable
    claim = None
    if rng.random() < 0.25:
        claim = max(600, ns + int(rng.choice([-1, 1])) * int(rng.choice([1, 12, 240, 1200])))
    if kind == "NP2.4r":
        sites = np2.shank_assignment(rng, str(rng.choice(["random", "blocks"])), int(rng.integers(2, 4)))
        b, rec = np2.build(rng, root, kind="NP2.4", ns=ns, sites=sites, content="random", gain=np2.GAIN_PAIRS[int(rng.integers(0, 4))], claim_ns=claim,
                           fs=float(rng.choice([30000.0, 30000.390639481, 29999.757983])))
    elif kind == "NP1":
        # every generation that is not an NP2 probe (NP1 3A / 3B1 / 3B2, Neuropixels Ultra), as acquired: usually with its hardware LF band next to it
        k1 = str(rng.choice(["3B2", "3A", "3B1", "NPultra", "NPultra"]))
        rec = G.make(rng, kind=k1, ns=ns, content="random", claim_ns=claim)
        b = G.write(rec, Path(root) / "probe00", name=np2.NAME)
        rec.kind1 = k1
        if rng.random() < 0.7:
            rec_lf = G.make(rng, kind=k1, stream="lf", ns=max(50, ns // 12), content="random")
            G.write(rec_lf, Path(root) / "probe00", name=np2.NAME.replace(".ap", ".lf"))
            rec.kind1 += "+lf"
    else:
        b, rec = np2.build(rng, root, kind=kind, ns=ns, content="random", gain=np2.GAIN_PAIRS[int(rng.integers(0, 4))], claim_ns=claim,
                           fs=float(rng.choice([30000.0, 30000.390639481, 29999.757983])))
    rec.claim = claim
    if cbin_original:
        import mtscomp
        mtscomp.compress(b, out=b.with_suffix(".cbin"), outmeta=b.with_suffix(".ch"), sample_rate=rec.fs, n_channels=rec.nc, dtype=np.int16,
                         chunk_duration=0.02, check_after_compress=False)
        b.unlink()
    rec.kind2 = kind
    return rec


def orig_paths(root):
    p = Path(root) / "probe00" / (np2.NAME + ".bin")
    return p, p.with_suffix(".cbin")


def original_ok(root, rec):
    b, c = orig_paths(root)
    if b.exists() and b.stat().st_size == rec.raw.nbytes and np.array_equal(np.fromfile(b, np.int16).reshape(rec.raw.shape), rec.raw):
        return True
    if c.exists() and c.with_suffix(".ch").exists():
        try:
            a = np2.decode(c)
            return a.shape == rec.raw.shape and np.array_equal(a, rec.raw)
        except Exception:
            return False
    return False


def shank_state(root, rec):
    """per shank and stream: list of (file, valid?) for every data file carrying a final name"""
    out = {}
    cols = np2.shank_columns(rec)
    nlf = -(-rec.ns // 12)
    for s, c in cols.items():
        folder = Path(root) / f"probe00{chr(97 + s)}"
        for stream in ("ap", "lf"):
            lst = []
            for suf in (".bin", ".cbin"):
                f = folder / (np2.NAME.replace(".ap", "." + stream) + suf)
                if not f.exists():
                    continue
                try:
                    a = np2.read_int16(f, len(c))
                    if stream == "ap":
                        ok = a.ndim == 2 and a.shape == (rec.ns, len(c)) and np.array_equal(a, rec.raw[:, c])
                    else:
                        ok = a.ndim == 2 and a.shape == (nlf, len(c)) and np.array_equal(a[:, -1], rec.raw[::12, -1])
                except Exception:
                    ok = False
                lst.append((f, ok))
            out[(s, stream)] = lst
    return out


def reassembles(root, rec):
    st = shank_state(root, rec)
    full = np.zeros_like(rec.raw)
    cols = np2.shank_columns(rec)
    for s, c in cols.items():
        good = [f for f, ok in st[(s, "ap")] if ok]
        if not good:
            return False
        full[:, c] = np2.read_int16(good[0], len(c))
        # what is on DISK must say where these columns belong: the shank file's metadata lists the original's channels it holds
        try:
            import spikeglx
            ms = spikeglx.read_meta_data(Path(good[0]).with_suffix(".meta"))
            listed = []
            for part in str(ms["snsSaveChanSubset_orig"]).split(","):
                a_ = part.split(":")
                listed += list(range(int(float(a_[0])), int(float(a_[-1])) + 1))
            if listed != [int(v) for v in c]:
                return False
        except Exception:
            return False
    return np.array_equal(full, rec.raw)


def recoverable(root, rec):
    if original_ok(root, rec):
        return True
    if rec.kind2.startswith("NP2.4"):
        return reassembles(root, rec)
    return False


def complete(res, root, rec, label, opts):
    """P4: complete, valid set of per-shank files"""
    import spikeglx
    res.count("completeness_checked")
    if rec.kind2 == "NP2.1":
        nlf = -(-rec.ns // 12)
        folder = Path(root) / "probe00"
        found = False
        for suf in (".bin", ".cbin"):
            f = folder / (np2.NAME.replace(".ap", ".lf") + suf)
            if f.exists():
                a = np2.read_int16(f, 385)
                ok = a.ndim == 2 and a.shape == (nlf, 385) and np.array_equal(a[:, -1], rec.raw[::12, -1])
                res.check(ok, "complete:lf-invalid", f"{label}: {f.name} is not a valid LF file (shape {getattr(a, 'shape', None)})")
                res.check(f.with_suffix(".meta").exists() and (suf == ".bin" or f.with_suffix(".ch").exists()), "complete:companion-missing", f"{label}: {f.name} lacks meta/.ch")
                found = True
        res.check(found, "complete:lf-missing", f"{label}: no LF file after a run that returned 1: {[p.name for p in folder.glob('*')]}")
        res.check(original_ok(root, rec), "complete:np21-original", f"{label}: NP2.1 original (bin or cbin) no longer decodes to the recording")
        return
    st = shank_state(root, rec)
    for (s, stream), lst in st.items():
        res.check(len(lst) > 0, "complete:missing", f"{label}: shank {s} has no {stream} data file")
        for f, ok in lst:
            res.check(ok, "complete:invalid", f"{label}: {f.parent.name}/{f.name} exists but is not a valid {stream} file")
            res.check(f.with_suffix(".meta").exists(), "complete:meta-missing", f"{label}: {f.parent.name}/{f.with_suffix('.meta').name} missing")
            if f.suffix == ".cbin":
                res.check(f.with_suffix(".ch").exists(), "complete:ch-missing", f"{label}: {f.name} lacks its .ch")
            try:
                sr = spikeglx.Reader(f, sort=False)
                a = np2.read_int16(f, 1)
                res.check(sr.shape[1] == len(np2.shank_columns(rec)[s]), "complete:reader-shape", f"{label}: Reader({f.name}).shape={sr.shape}")
                sr.close()
            except Exception as e:
                res.exception("complete:reader-exception", e, f"{label}: {f.name}")
        if opts["compress"]:
            res.check(any(f.suffix == ".cbin" and ok for f, ok in lst), "complete:not-compressed", f"{label}: shank {s} {stream}: compress=True but no valid .cbin")


# ------------------------------------------------------------------ one process() call under monitors
def install_spies():
    import neuropixel
    C = neuropixel.NP2Converter
    if getattr(C.check_NP24, "_verif", False):
        return

    orig = C.check_NP24

    def check_NP24(self):
        cor = STATE.pop("corrupt", None)
        if cor is not None:
            cor(self)                          # storage fault injected between splitting and verification (class "corrupt")
        r = orig(self)
        STATE["check_done"].add(id(self))      # reached only when the comparison loop finished without AssertionError
        return r
    check_NP24._verif = True
    check_NP24.__code__  # keep the original code object monitored too (see code_objects below)
    C._verif_orig_check = orig
    C.check_NP24 = check_NP24


def close_conv(conv):
    try:
        conv.sr.close()
    except Exception:
        pass
    for sh in getattr(conv, "shank_info", {}).values():
        for k in ("ap_open_file", "lf_open_file"):
            if k in sh:
                try:
                    sh[k].close()
                except Exception:
                    pass
        if "sr" in sh:
            try:
                sh["sr"].close()
            except Exception:
                pass


def step(res, root, rec, opts, overwrite, label, crash_at=None, fp=None, holder=None):
    """returns dict(status=..., exc=..., crashed=bool, removed_original=bool)
    holder: a dict shared by the steps of one history; the converter object of the first step is kept there and used again
    (one NP2Converter instance, several process() calls) instead of instantiating a converter per run"""
    import neuropixel
    install_spies()
    b, c = orig_paths(root)
    path = b if b.exists() else (c if c.exists() else None)
    out = {"status": None, "exc": None, "crashed": False, "deleted": False, "input": None}
    if path is None:
        out["exc"] = "no-original"
        return out
    out["input"] = path.suffix
    log = M.FileEventLog.get()
    judged = []

    def on_event(ev):
        if ev[1] == "remove" and Path(ev[2]) in (b, c):
            # P2, evaluated before the unlink takes effect: is the recording recoverable WITHOUT this file?
            other_ok = False
            target = Path(ev[2])
            hidden = target.with_name(target.name + ".hidden-by-monitor")
            os.rename(target, hidden)
            try:
                other_ok = recoverable(root, rec)
            finally:
                os.rename(hidden, target)
            conv = STATE["conv"]
            verified = (id(conv) in STATE["check_done"]) if rec.kind2.startswith("NP2.4") else True
            judged.append((ev[2], other_ok, verified))
    conv = None
    try:
        if holder is not None and holder.get("conv") is not None:
            conv = holder["conv"]
            res.count("reused_converter_runs")
        else:
            conv = neuropixel.NP2Converter(path, post_check=opts["post_check"], delete_original=opts["delete_original"], compress=opts["compress"])
            conv.init_params(nwindow=WINDOW)
            if holder is not None:
                holder["conv"] = conv
        STATE["conv"] = conv
        log.arm(root, [on_event])
        if fp is not None:
            with fp:
                out["status"] = conv.process(overwrite=overwrite)
        else:
            out["status"] = conv.process(overwrite=overwrite)
    except M.InjectedCrash:
        out["crashed"] = True
    except Exception as e:
        import traceback
        out["exc"] = f"{type(e).__name__}: {e}"
        out["tb"] = traceback.format_exc()[-900:]
    finally:
        log.disarm()
        if conv is not None and holder is None:
            close_conv(conv)
    for p, other_ok, verified in judged:
        res.count("remove_original_judged")
        res.check(other_ok, "delete:original-removed-while-not-recoverable", f"{label}: os.remove({Path(p).name}) issued while the recording was not recoverable from the other files")
        res.check(verified, "delete:before-verification", f"{label}: os.remove({Path(p).name}) issued although check_NP24 had not completed in this run")
        out["deleted"] = True
    return out


def judge_step(res, root, rec, opts, overwrite, r, label, prior_complete, snap_before):
    """common oracle after one (non-crashed) process() call"""
    res.count("history_steps")
    res.count("recoverability_checked")
    res.check(recoverable(root, rec), "recoverable:lost", f"{label}: the original samples are no longer recoverable byte for byte")
    kind = rec.kind2
    if kind == "NP1":
        res.check(r["status"] == -1 and r["exc"] is None, "np1:status", f"{label}: non-NP2 input: status {r['status']} exc {r['exc']}")
        a, rm, ch = M.snapshot_diff(snap_before, M.snapshot(root))
        res.check(not (a or rm or ch), "np1:changed-disk", f"{label}: non-NP2 input changed the disk: +{a} -{rm} ~{ch}")
        return False
    if r["exc"]:
        key = "overwrite:unlink-missing-cbin" if ("FileNotFoundError" in r["exc"] and overwrite and opts["compress"] and ".cbin" in r["exc"]) else "process:exception"
        res.violation(key, f"{label}: process(overwrite={overwrite}) raised {r['exc']}", traceback=r.get("tb", ""))
        return False
    if prior_complete and not overwrite:
        res.count("idempotence_checked")
        res.check(r["status"] == 0, "idempotent:status", f"{label}: repeated run without overwrite returned {r['status']}, expected 0")
        a, rm, ch = M.snapshot_diff(snap_before, M.snapshot(root))
        res.check(not (a or rm or ch), "idempotent:changed-disk", f"{label}: repeated run without overwrite changed the disk: +{a} -{rm} ~{ch}")
        return True
    if r["status"] == 1:
        complete(res, root, rec, label, opts)
        if opts["delete_original"] and opts["post_check"] and kind.startswith("NP2.4"):
            # (a foreign compressed pair that was lying next to a flat original is not the original: only the original's own file is expected to go)
            gone = orig_paths(root)[:1] if getattr(rec, "foreign", False) else orig_paths(root)
            res.check(r["deleted"] and not any(p.exists() for p in gone), "delete:not-deleted", f"{label}: verified run with delete_original did not remove the original")
        if kind.startswith("NP2.4") and not (opts["delete_original"] and opts["post_check"]):
            res.check(original_ok(root, rec), "delete:unrequested", f"{label}: the original disappeared although deletion was not requested/verified")
        return True
    res.check(r["status"] == 0, "process:status", f"{label}: process returned {r['status']}")
    if overwrite:
        # a forced re-run ends with a complete, valid set of files whether or not earlier output exists - whatever status it reports
        res.check(False, "overwrite:status", f"{label}: forced re-run returned {r['status']}, expected 1 (conversion done)")
        complete(res, root, rec, label + " (forced re-run)", opts)
    return prior_complete


OPT_KEYS = ("post_check", "compress", "delete_original")


def opts_of(i):
    return {k: bool((i >> j) & 1) for j, k in enumerate(OPT_KEYS)}


def gen_cases(seed, tier):
    cases = []
    rng = np.random.default_rng(seed)
    # ---- histories
    kinds = ["NP2.4", "NP2.4r", "NP2.1", "NP1", "split"]
    hist = []
    for kind in kinds:
        for o1 in range(8):
            for steps in (("run",), ("run", "rerun"), ("run", "overwrite"), ("overwrite",), ("overwrite", "overwrite"), ("run", "rerun", "overwrite"),
                          ("run", "overwrite", "rerun"), ("overwrite", "rerun", "overwrite")):
                hist.append((kind, o1, steps))
    if tier == "quick":
        pick = rng.choice(len(hist), 56, replace=False)
        # always keep the covering core: every option triple on NP2.4 with run->rerun->overwrite
        core = [i for i, h in enumerate(hist) if h[0] == "NP2.4" and h[2] == ("run", "rerun", "overwrite")]
        sel = sorted(set(pick.tolist()) | set(core))
    else:
        sel = range(len(hist))
    for i in sel:
        kind, o1, steps = hist[i]
        cases.append({"cls": "history", "kind": kind, "opts": o1, "steps": list(steps), "cbin": bool(rng.integers(0, 2)), "change_opts": bool(rng.integers(0, 2)),
                      "seed": seed * 10000 + i, "_w": 1.5 * len(steps)})
    # round 22: two recordings of one probe sharing the shank folders
    for j in range(4 if tier == "quick" else 16):
        cases.append({"cls": "sibling", "compress": j % 2, "optsB": [1, 2, 3, 0][j % 4] if j < 4 else int(rng.integers(0, 4)), "seed": seed * 10000 + 9500 + j, "_w": 4})
    # round 21: a foreign compressed pair of the original's own name already in the probe folder, every option set with compression, first and forced runs
    for j, (kind, o1, steps) in enumerate([("NP2.1", 2, ("run",)), ("NP2.1", 3, ("overwrite",)), ("NP2.1", 6, ("run", "overwrite")), ("NP2.1", 7, ("run", "rerun")),
                                           ("NP2.4", 7, ("run",)), ("NP2.4r", 2, ("overwrite", "rerun"))][: (6 if tier != "quick" else 6)]):
        cases.append({"cls": "history", "kind": kind, "opts": o1, "steps": list(steps), "cbin": False, "change_opts": False, "foreign": True,
                      "seed": seed * 10000 + 9000 + j, "_w": 1.5 * len(steps)})
    # covering core 2: every pair of compress settings across run -> rerun (and -> overwrite), other options fixed
    for kind in ("NP2.1", "NP2.4"):
        for c1 in (0, 2):
            for c2 in (0, 2):
                for last in ("rerun", "overwrite"):
                    cases.append({"cls": "history", "kind": kind, "opts": c1 | 1, "opts_seq": [c1 | 1, c2 | 1, c1 | 1], "steps": ["run", last, "rerun"],
                                  "cbin": bool(rng.integers(0, 2)), "change_opts": False, "seed": seed * 10000 + 5000 + len(cases), "_w": 4})
    # one converter object used for several process() calls (options are fixed at instantiation)
    reuse = [(kind, o, steps) for kind in ("NP2.4", "NP2.4r", "NP2.1") for o in range(8)
             for steps in (("run", "rerun", "overwrite"), ("run", "overwrite", "rerun"), ("overwrite", "rerun", "overwrite", "rerun"), ("run", "rerun", "rerun"))]
    if tier == "quick":
        core = [i for i, h in enumerate(reuse) if h[0] == "NP2.4" and h[2] == ("run", "rerun", "overwrite") and h[1] in (0, 1, 2, 3)]
        rsel = sorted(set(core) | set(rng.choice(len(reuse), 8, replace=False).tolist()))
    else:
        rsel = range(len(reuse))
    for i in rsel:
        kind, o, steps = reuse[i]
        cases.append({"cls": "history", "kind": kind, "opts": o, "steps": list(steps), "cbin": bool(rng.integers(0, 2)), "change_opts": False, "reuse": True,
                      "seed": seed * 10000 + 7000 + i, "_w": 1.5 * len(steps)})
    # ---- a storage fault hits one shank file between splitting and verification, in each verification window in turn: with post_check and
    #      delete_original the original may only go once the output has been VERIFIED identical - the audit-hook invariant judges the unlink
    for i in range(6 if tier == "quick" else 48):
        if i < (1 if tier == "quick" else 6):
            cases.append({"cls": "long-rebuild", "compress": bool(i % 2), "seed": seed * 100 + 60 + i, "_w": 20})
        cases.append({"cls": "corrupt", "kind": ["NP2.4", "NP2.4r"][i % 2], "compress": bool((i // 2) % 2), "cbin": bool((i // 4) % 2), "seed": seed * 100 + 70 + i, "_w": 8})
    # ---- the compression library fails part-way (first / last chunk of the j-th file it compresses during the conversion): the per-shank / in-place
    #      compression steps are where a full disk or a pulled drive shows up; followed by a retry and a forced re-run
    for i in range(6 if tier == "quick" else 48):
        cases.append({"cls": "compress-fault", "kind": ["NP2.1", "NP2.4", "NP2.4r"][i % 3], "delete": bool((i // 3) % 2), "seed": seed * 100 + 80 + i, "_w": 8})
    combos = [("NP2.4", 7), ("NP2.4", 3), ("NP2.4", 2), ("NP2.1", 2), ("NP2.4r", 5), ("NP2.1", 0), ("NP2.4", 0)]
    nsl = 14 if tier == "quick" else 56
    for ci, (kind, o) in enumerate(combos if tier == "thorough" else combos[:4]):
        for sl in range(nsl):
            cases.append({"cls": "crash", "kind": kind, "opts": o, "slice": sl, "nslices": nsl, "occ": 2 if tier == "quick" else 10 ** 6, "cbin": ci % 3 == 2,
                          "seed": seed * 100 + ci, "_w": 6 if tier == "quick" else 20})
    nkill = 6 if tier == "quick" else 60
    for i in range(nkill):
        cases.append({"cls": "kill", "kind": ["NP2.4", "NP2.1"][i % 2], "opts": [7, 2][i % 2], "k": i, "nk": nkill, "seed": seed * 100 + 50 + (i % 2), "_w": 4})
    return cases


def monitored_codes():
    import neuropixel
    import spikeglx
    install_spies()
    codes = M.code_objects(neuropixel.NP2Converter, spikeglx.Reader.compress_file)
    codes += M.code_objects(neuropixel.NP2Converter._verif_orig_check)
    # drop the spy wrapper itself
    return [c for c in codes if c.co_name != "check_NP24" or c.co_filename.endswith("neuropixel.py")]


def choose_crash_indices(trace, occ):
    """indices of the trace to crash at: for each distinct (function, line) site its first, last, and evenly spread occurrences (<= occ)"""
    by = {}
    for i, site in enumerate(trace):
        by.setdefault(site, []).append(i)
    idx = []
    for site, lst in by.items():
        if len(lst) <= occ:
            pick = lst
        else:
            pick = sorted({lst[int(round(j * (len(lst) - 1) / (occ - 1)))] for j in range(occ)}) if occ > 1 else [lst[0]]
        idx += [(i, site, j == 0) for j, i in enumerate(pick)]
    return sorted(idx), len(by)


def run_case(case):
    import mtscomp
    # dependency configuration only: two compression threads instead of one per core (14 shards run side by side)
    mtscomp.DEFAULT_CONFIG = [(k, (2 if k == "n_threads" else v)) for k, v in mtscomp.DEFAULT_CONFIG]
    res = Result()
    rng = rng_for({"seed": case["seed"], "_i": 0})
    d = scratch()
    cls = case["cls"]
    if cls == "history":
        kind = case["kind"]
        opts = opts_of(case["opts"])
        root = d / "h"
        if kind == "split":
            # an already-split shank: first produce it, then hand the shank file to the converter
            rec = make_original(rng, root, "NP2.4", False)
            r0 = step(res, root, rec, {"post_check": False, "compress": False, "delete_original": False}, False, "prepare split input")
            shank_file = root / "probe00a" / (np2.NAME + ".bin")
            import neuropixel
            snap = M.snapshot(root)
            try:
                conv = neuropixel.NP2Converter(shank_file, **{k: opts[k] for k in OPT_KEYS})
                conv.init_params(nwindow=WINDOW)
                st = conv.process(overwrite=("overwrite" in case["steps"]))
                conv.sr.close()
                res.count("history_steps")
                res.check(st == 0, "split-input:status", f"already-split input: process returned {st}, expected 0")
            except Exception as e:
                res.exception("split-input:exception", e, "already-split input")
            a, rm, ch = M.snapshot_diff(snap, M.snapshot(root))
            res.check(not (a or rm or ch), "split-input:changed-disk", f"already-split input changed the disk: +{a} -{rm} ~{ch}")
            res.count("recoverability_checked")
            res.check(recoverable(root, rec), "recoverable:lost", "already-split input: original no longer recoverable")
            res.sig = f"history-split-{case['opts']}-{case['steps']}"
            res.nontrivial = True
            return res
        rec = make_original(rng, root, kind, case["cbin"])
        if case.get("foreign"):
            # round 21: the probe folder already holds a compressed pair with the name the in-place compression will publish (NAME.cbin + NAME.ch) - left
            # by an earlier, shorter copy of the recording.  It holds OTHER samples: nothing in it makes the original dispensable
            import mtscomp as _mt
            _, recf = np2.build(rng, d / "foreign", kind=kind if kind != "NP2.4r" else "NP2.4", ns=int(rng.integers(700, 1400)), content="random",
                                gain=np2.GAIN_PAIRS[int(rng.integers(0, 4))])
            bo, co = orig_paths(root)
            _mt.compress(orig_paths(d / "foreign")[0], out=co, outmeta=co.with_suffix(".ch"), sample_rate=recf.fs, n_channels=recf.nc, dtype=np.int16,
                         chunk_duration=0.02, check_after_compress=False)
            rec.foreign = True
            res.count("foreign_compressed_pairs_in_place")
        prior = False
        holder = {} if case.get("reuse") else None
        for si, what in enumerate(case["steps"]):
            if "opts_seq" in case:
                opts = opts_of(case["opts_seq"][si])
            elif si > 0 and case["change_opts"]:
                opts = opts_of(int(rng.integers(0, 8)))
            overwrite = what == "overwrite"
            label = (f"{kind}{'(' + rec.kind1 + ')' if hasattr(rec, 'kind1') else ''} {'cbin' if case['cbin'] else 'bin'} history={case['steps']} step {si}:{what} opts={ {k: int(v) for k, v in opts.items()} }"
                     + (f" (file holds {rec.ns} samples, metadata announces {rec.claim})" if rec.claim else ""))
            if rec.claim and si == 0:
                res.count("originals_with_inconsistent_metadata")
            snap = M.snapshot(root)
            r = step(res, root, rec, opts, overwrite, label + (" (same converter object)" if holder is not None else ""), holder=holder)
            if r["exc"] == "no-original":
                break
            prior = judge_step(res, root, rec, opts, overwrite, r, label, prior, snap)
            if r["deleted"]:
                break
        if holder and holder.get("conv") is not None:
            close_conv(holder["conv"])
        res.sig = f"history-{kind}-{case['opts']}-{case['steps']}-{case['cbin']}-{case['change_opts']}-{bool(case.get('reuse'))}-{bool(case.get('foreign'))}"
        res.nontrivial = len(case["steps"]) >= 2
        return res
    if cls == "sibling":
        # round 22: two recordings of one probe in one probe folder (run_g0_t0, run_g0_t1).  The first is converted with verification and deletion: its
        # samples now live in the shank folders only.  The sibling is then converted into the SAME shank folders with a forced run (a plain run reports
        # that the folders exist).  Nothing the second run does may cost the first recording a sample.
        import neuropixel
        root = d / "s"
        recA = make_original(rng, root, "NP2.4", False)
        optsA = {"post_check": True, "compress": bool(case["compress"]), "delete_original": True}
        label = f"sibling recordings, first converted with {optsA}"
        r = step(res, root, recA, optsA, False, label + " step 0")
        res.count("history_steps")
        res.check(r["status"] == 1 and r["deleted"] and r["exc"] is None, "sibling:first-run", f"{label}: first run: status {r['status']} deleted {r['deleted']} exc {r['exc']}")
        res.count("recoverability_checked")
        okA = res.check(recoverable(root, recA), "recoverable:lost", f"{label}: first recording not recoverable after its own verified run")
        _, recB = np2.build(rng, d / "sib", kind="NP2.4", ns=int(rng.integers(1500, 2600)), content="random", gain=np2.GAIN_PAIRS[int(rng.integers(0, 4))])
        (root / "probe00").mkdir(exist_ok=True)
        for f in sorted((d / "sib" / "probe00").iterdir()):
            shutil.move(str(f), str(root / "probe00" / f.name.replace("_t0", "_t1")))
        pathB = root / "probe00" / (np2.NAME.replace("_t0", "_t1") + ".bin")
        optsB = opts_of(int(case["optsB"]))
        optsB["delete_original"] = False
        label += f", sibling forced with {optsB}"
        conv = None
        try:
            conv = neuropixel.NP2Converter(pathB, post_check=optsB["post_check"], delete_original=False, compress=optsB["compress"])
            conv.init_params(nwindow=WINDOW)
            st = conv.process(overwrite=True)
            res.count("history_steps")
            res.count("sibling_forced_runs")
            res.check(st == 1, "sibling:forced-run:status", f"{label}: forced run of the sibling returned {st}")
        except Exception as e:
            res.exception("sibling:forced-run:exception", e, label)
        finally:
            if conv is not None:
                close_conv(conv)
        res.count("recoverability_checked")
        if okA:
            res.check(recoverable(root, recA), "recoverable:lost:sibling-forced-run", f"{label}: the FIRST recording (verified, original deleted, samples in the shank "
                      f"folders only) is no longer recoverable byte for byte after the forced run of its sibling")
        res.check(pathB.exists() and np.array_equal(np.fromfile(pathB, np.int16), recB.raw.ravel()), "sibling:original-touched", f"{label}: the sibling's own original changed")
        res.sig = f"sibling-{case['compress']}-{case['optsB']}"
        res.nontrivial = True
        return res
    if cls == "long-rebuild":
        # a verified, deleted original of realistic length (more than one 60000-sample verification / reassembly window, not a whole number of them) is
        # recoverable with what the LIBRARY offers: NP2Reconstructor on the shank folders gives the original back byte for byte
        import neuropixel
        root = d / "L"
        ns = int(rng.integers(60001, 72000))
        if ns % 60000 == 0:
            ns += 7
        # headers carry the CALIBRATED rate of the probe's clock (round 20): a few tenths of a hertz off the nominal 30 kHz, which over a recording of
        # this length amounts to about one sample - the recording is still the samples the file holds
        fs = (30000.390639481, 30000.62, 29999.757983, 30000.0)[case["seed"] % 4] if ns * (1 - 30000 / 30000.390639481) >= 0.6 else 30000.62
        if fs > 30000 and ns * (1 - 30000 / fs) >= 0.5:
            res.count("long_rebuilds_rate_above_nominal")
        b, rec = np2.build(rng, root, kind="NP2.4", ns=ns, content="random", gain=np2.GAIN_PAIRS[int(rng.integers(0, 4))], fs=fs)
        orig = b.read_bytes()
        label = f"NP2.4 ns={ns} imSampRate={fs} compress={case['compress']} post_check + delete_original, then NP2Reconstructor"
        try:
            conv = neuropixel.NP2Converter(b, post_check=True, compress=case["compress"], delete_original=True)
            st = conv.process()
            res.check(st == 1 and not b.exists(), "long-rebuild:conversion", f"{label}: process() returned {st}, original exists: {b.exists()}")
            rc = neuropixel.NP2Reconstructor(root, "probe00", compress=False)
            st2 = rc.process()
            out = root / "probe00" / (np2.NAME + ".bin")
            same = out.exists() and out.stat().st_size == len(orig) and out.read_bytes() == orig
            res.count("long_rebuilds")
            res.check(st2 == 1 and same, "recoverable:lost:library-reassembly", f"{label}: the reassembled file has {out.stat().st_size if out.exists() else 'no'} bytes, the original had "
                      f"{len(orig)}; identical: {same}")
        except Exception as e:
            res.exception("long-rebuild:exception", e, label)
        res.sig = f"long-rebuild-{case['seed']}"
        res.nontrivial = True
        res.nt = 1
        return res
    if cls == "corrupt":
        kind = case["kind"]
        opts = {"post_check": True, "compress": case["compress"], "delete_original": True}
        base = d / "base"
        ns = int(rng.integers(3700, 6100))
        rec = make_original(rng, base, kind, case["cbin"], ns=ns)
        nwin = -(-ns // WINDOW)
        nt = 0
        for w in range(nwin):
            root = d / f"w{w}"
            shutil.copytree(base, root)
            info = {}

            def corrupt(conv, _w=w, _info=info):
                shanks = list(conv.shank_info.keys())
                # which copy is hit: an AP column of any shank / the sync copy of the first shank / the sync copy of a later shank
                mode = ("sync-later-shank", "ap", "sync-first-shank")[(_w + case["seed"]) % 3]
                if mode == "sync-later-shank" and len(shanks) > 1:
                    sh = shanks[int(rng.integers(1, len(shanks)))]
                elif mode == "sync-first-shank":
                    sh = shanks[0]
                else:
                    sh = shanks[int(rng.integers(0, len(shanks)))]
                f = Path(conv.shank_info[sh]["ap_file"])
                ncol = len(conv.shank_info[sh]["chns"])
                mm = np.memmap(f, dtype=np.int16, mode="r+").reshape(-1, ncol)
                r0 = int(rng.integers(_w * WINDOW, min((_w + 1) * WINDOW, mm.shape[0])))
                c0 = ncol - 1 if mode.startswith("sync") else int(rng.integers(0, ncol - 1))
                mm[r0, c0] ^= np.int16(1 << int(rng.integers(0, 15)))
                mm.flush()
                del mm
                _info.update(file=f"{f.parent.name}/{f.name}", row=r0, col=c0)
                res.count("corruptions_injected")
            STATE["corrupt"] = corrupt
            label = f"{kind} {'cbin' if case['cbin'] else 'bin'} ns={ns} compress={case['compress']}: storage fault in verification window {w + 1}/{nwin} before check_NP24"
            r = step(res, root, rec, opts, False, label)
            STATE.pop("corrupt", None)
            if not info:
                res.count("corruption_hook_not_reached")      # no verification pass ran: the unlink (if any) was judged by the audit-hook invariant
                shutil.rmtree(root, ignore_errors=True)
                continue
            label += f" ({info['file']} row {info['row']} col {info['col']})"
            res.count("recoverability_checked")
            res.check(recoverable(root, rec), "recoverable:lost", f"{label}: the original samples are no longer recoverable byte for byte")
            res.check(not r["deleted"] and original_ok(root, rec), "delete:after-failed-verification", f"{label}: the original was removed although the split output was not identical to it "
                      f"(status {r['status']}, exc {r['exc']})")
            nt += 1
            shutil.rmtree(root, ignore_errors=True)
        res.sig = f"corrupt-{kind}-{case['compress']}-{case['cbin']}-{case['seed']}"
        res.nontrivial = nt > 0
        res.nt = nt
        return res
    if cls == "compress-fault":
        kind = case["kind"]
        opts = {"post_check": True, "compress": True, "delete_original": case["delete"]}
        base = d / "base"
        rec = make_original(rng, base, kind, False)
        # how many files does a clean conversion compress?
        seen = []
        orig_cc = mtscomp.Writer._compress_chunk

        def spy_cc(self, chunk_idx):
            key = str(getattr(self, "data_path", id(self)))
            if key not in seen:
                seen.append(key)
            return orig_cc(self, chunk_idx)
        t0 = d / "trace"
        shutil.copytree(base, t0)
        mtscomp.Writer._compress_chunk = spy_cc
        try:
            step(res, t0, rec, opts, False, "trace pass")
        finally:
            mtscomp.Writer._compress_chunk = orig_cc
        shutil.rmtree(t0)
        nfiles = len(seen)
        nt = 0
        for j in range(nfiles):
            for kk in (0, "last", "silent"):
                w = d / "w"
                shutil.rmtree(w, ignore_errors=True)
                shutil.copytree(base, w)
                order = []

                def failing_cc(self, chunk_idx, _j=j, _kk=kk, _order=order):
                    key = str(getattr(self, "data_path", id(self)))
                    if key not in _order:
                        _order.append(key)
                    if _order.index(key) == _j and _kk == "silent" and chunk_idx == self.n_chunks // 2:
                        # nothing raised: the chunk is damaged on its way to storage (a valid-looking but wrong compressed chunk)
                        idx_, (chunk_, comp_) = orig_cc(self, chunk_idx)
                        bb = bytearray(comp_)
                        bb[len(bb) // 2] ^= 0x5A
                        res.count("compression_faults_injected")
                        return idx_, (chunk_, bytes(bb))
                    if _order.index(key) == _j and _kk != "silent" and chunk_idx == (0 if _kk == 0 else self.n_chunks - 1):
                        res.count("compression_faults_injected")
                        raise OSError(f"injected failure while compressing chunk {chunk_idx} of file #{_j}")
                    return orig_cc(self, chunk_idx)
                mtscomp.Writer._compress_chunk = failing_cc
                label = (f"{kind} delete_original={case['delete']}: compression library fails at the {'first' if kk == 0 else 'last'} chunk of file #{j + 1}/{nfiles}" if kk != "silent"
                         else f"{kind} delete_original={case['delete']}: a chunk of file #{j + 1}/{nfiles} is silently damaged while the compressed file is written")
                try:
                    r1 = step(res, w, rec, opts, False, label)
                finally:
                    mtscomp.Writer._compress_chunk = orig_cc
                if kk != "silent":
                    res.check(r1["exc"] is not None, "compress-fault:swallowed", f"{label}: the failure did not propagate (status {r1['status']})")
                res.count("recoverability_checked")
                res.check(recoverable(w, rec), "recoverable:lost-after-compress-fault", f"{label}: after the failed compression the recording is not recoverable")
                r2 = step(res, w, rec, opts, False, label + " -> retry")
                if r2["exc"] and r2["exc"] != "no-original":
                    res.violation("retry:exception", f"{label}: retry raised {r2['exc']}", traceback=r2.get("tb", ""))
                res.count("recoverability_checked")
                res.check(recoverable(w, rec), "recoverable:lost-after-retry", f"{label}: after the retry the recording is not recoverable")
                if r2["status"] == 1:
                    complete(res, w, rec, label + " -> retry returned 1", opts)
                if not r2["deleted"] and r2["exc"] != "no-original":
                    r3 = step(res, w, rec, opts, True, label + " -> forced re-run")
                    if r3["exc"]:
                        res.violation("forced-rerun:exception", f"{label}: forced re-run raised {r3['exc']}", traceback=r3.get("tb", ""))
                    else:
                        res.check(r3["status"] == 1, "forced-rerun:status", f"{label}: forced re-run returned {r3['status']}")
                        complete(res, w, rec, label + " -> forced re-run", opts)
                    res.count("recoverability_checked")
                    res.check(recoverable(w, rec), "recoverable:lost-after-forced-rerun", f"{label}: after the forced re-run the recording is not recoverable")
                nt += 1
        res.sig = f"compress-fault-{kind}-{case['delete']}-{case['seed']}"
        res.nontrivial = nt > 0
        res.nt = nt
        return res
    if cls == "crash":
        kind = case["kind"]
        opts = opts_of(case["opts"])
        base = d / "base"
        rec = make_original(rng, base, kind, case["cbin"])
        codes = monitored_codes()
        # pass 1: record the statement trace on a copy
        t0 = d / "trace"
        shutil.copytree(base, t0)
        fp = M.LineFailpoints(codes)
        r = step(res, t0, rec, opts, False, "trace pass", fp=fp)
        trace = list(fp.trace)
        shutil.rmtree(t0)
        if r["exc"] and "FileNotFoundError" not in str(r["exc"]):
            res.violation("process:exception", f"trace pass raised {r['exc']}")
        picks, nsites = choose_crash_indices(trace, case["occ"])
        mine = picks[case["slice"]::case["nslices"]]
        first_window_end = next((i for i, s in enumerate(trace) if s[0].endswith("_split2shanks")), 0)
        nt = 0
        seen_sites = set()
        for k, site, first_pick in mine:
            w = d / "w"
            shutil.rmtree(w, ignore_errors=True)
            shutil.copytree(base, w)
            label = f"{kind} opts={case['opts']} {'cbin' if case['cbin'] else 'bin'} crash#{k}/{len(trace)} at {site[0]}:{site[1]}"
            fpk = M.LineFailpoints(codes)
            fpk.crash_at = k
            r1 = step(res, w, rec, opts, False, label, fp=fpk)
            if fpk.fired is None:
                res.count("crash_points_not_reached")
                continue
            res.count("crash_points_fired")
            if first_pick:
                seen_sites.add(site)
            res.check(fpk.fired == site, "harness:nondeterministic-trace", f"{label}: fired at {fpk.fired}")
            res.count("recoverability_checked")
            res.check(recoverable(w, rec), "recoverable:lost-after-crash", f"{label}: after the interruption the recording is not recoverable")
            # retry without overwrite
            snap = M.snapshot(w)
            r2 = step(res, w, rec, opts, False, label + " -> retry")
            if r2["exc"] and r2["exc"] != "no-original":
                res.violation("retry:exception", f"{label}: retry raised {r2['exc']}", traceback=r2.get("tb", ""))
            res.check(r2["status"] in (0, 1) or r2["exc"], "retry:status", f"{label}: retry returned {r2['status']}")
            res.count("recoverability_checked")
            res.check(recoverable(w, rec), "recoverable:lost-after-retry", f"{label}: after the retry the recording is not recoverable")
            if r2["status"] == 1:
                complete(res, w, rec, label + " -> retry returned 1", opts)
            # forced re-run
            if not r2["deleted"] and r2["exc"] != "no-original":
                r3 = step(res, w, rec, opts, True, label + " -> forced re-run")
                if r3["exc"]:
                    key = "overwrite:unlink-missing-cbin" if ("FileNotFoundError" in r3["exc"] and opts["compress"] and ".cbin" in r3["exc"]) else "forced-rerun:exception"
                    res.violation(key, f"{label}: forced re-run raised {r3['exc']}", traceback=r3.get("tb", ""))
                else:
                    res.check(r3["status"] == 1, "forced-rerun:status", f"{label}: forced re-run returned {r3['status']}")
                    complete(res, w, rec, label + " -> forced re-run", opts)
                res.count("recoverability_checked")
                res.check(recoverable(w, rec), "recoverable:lost-after-forced-rerun", f"{label}: after the forced re-run the recording is not recoverable")
            if k > first_window_end:
                nt += 1
        if case["slice"] == 0 and kind.startswith("NP2.4"):
            # an interruption INSIDE a file write (power cut while a per-shank header is being written): the header holds its first lines only -
            # among them the size field - next to a complete binary. A forced re-run ends with a complete, valid set whatever it finds (round 19)
            for which in ("ap", "lf"):
                w = d / "w"
                shutil.rmtree(w, ignore_errors=True)
                shutil.copytree(base, w)
                label = f"{kind} opts={case['opts']} {'cbin' if case['cbin'] else 'bin'} run interrupted while a shank's {which} header was being written"
                o1 = dict(opts, delete_original=False)
                r1 = step(res, w, rec, o1, False, label + " (first run)")
                metas = sorted(w.glob(f"probe00*/*.{which}.meta"))
                if r1["status"] != 1 or len(metas) < 2:
                    continue
                mf = metas[min(1, len(metas) - 1)]
                lines = mf.read_text().splitlines(keepends=True)
                cut = next((j for j, ln in enumerate(lines) if ln.lstrip("~").startswith("fileSizeBytes")), 5) + 1
                cut = min(max(cut, 6), len(lines) - 3)
                mf.write_text("".join(lines[:cut]))
                for later in metas[metas.index(mf) + 1:]:
                    later.unlink()                                  # written after the torn one: not there yet
                res.count("torn_header_histories")
                r3 = step(res, w, rec, o1, True, label + " -> forced re-run")
                if r3["exc"]:
                    res.violation("forced-rerun:exception:torn-header", f"{label}: forced re-run raised {r3['exc']}", traceback=r3.get("tb", ""))
                else:
                    res.check(r3["status"] == 1, "forced-rerun:status", f"{label}: forced re-run returned {r3['status']}")
                    complete(res, w, rec, label + " -> forced re-run", o1)
                res.check(recoverable(w, rec), "recoverable:lost-after-forced-rerun", f"{label}: after the forced re-run the recording is not recoverable")
        res.count("distinct_crash_sites", len(seen_sites))
        res.count("trace_events", len(trace) if case["slice"] == 0 else 0)
        res.sig = f"crash-{kind}-{case['opts']}-{case['slice']}"
        res.nontrivial = nt > 0
        res.nt = nt
        return res
    if cls == "kill":
        kind = case["kind"]
        opts = opts_of(case["opts"])
        base = d / "base"
        rec = make_original(rng, base, kind, False)
        codes = monitored_codes()
        t0 = d / "trace"
        shutil.copytree(base, t0)
        fp = M.LineFailpoints(codes)
        step(res, t0, rec, opts, False, "trace pass", fp=fp)
        n = len(fp.trace)
        shutil.rmtree(t0)
        k = int((case["k"] // 2 + 0.5) / max(1, case["nk"] // 2) * n) % max(1, n)
        site = fp.trace[k]
        label = f"{kind} opts={case['opts']} kill#{k}/{n} at {site[0]}:{site[1]}"
        w = d / "w"
        shutil.copytree(base, w)
        env = dict(os.environ)
        p = subprocess.run([sys.executable, "-B", "-m", "checks.c04", str(w), json.dumps(opts), str(k)], env=env, capture_output=True, text=True, timeout=120)
        if p.returncode != 137:
            res.count("kill_not_reached")
            res.violation("harness:kill-child", f"{label}: child exited {p.returncode}: {p.stderr[-300:]}") if p.returncode not in (0,) else None
        else:
            res.count("crash_points_fired")
            res.count("kills_fired")
            res.count("distinct_crash_sites")
        res.count("recoverability_checked")
        res.check(recoverable(w, rec), "recoverable:lost-after-kill", f"{label}: after the kill the recording is not recoverable")
        r2 = step(res, w, rec, opts, False, label + " -> retry")
        if r2["exc"] and r2["exc"] != "no-original":
            res.violation("retry:exception", f"{label}: retry raised {r2['exc']}")
        res.check(recoverable(w, rec), "recoverable:lost-after-retry", f"{label}: after the retry the recording is not recoverable")
        if not r2["deleted"] and r2["exc"] != "no-original":
            r3 = step(res, w, rec, opts, True, label + " -> forced re-run")
            if r3["exc"]:
                key = "overwrite:unlink-missing-cbin" if ("FileNotFoundError" in r3["exc"] and opts["compress"] and ".cbin" in r3["exc"]) else "forced-rerun:exception"
                res.violation(key, f"{label}: forced re-run raised {r3['exc']}")
            else:
                complete(res, w, rec, label + " -> forced re-run", opts)
            res.check(recoverable(w, rec), "recoverable:lost-after-forced-rerun", f"{label}: after the forced re-run the recording is not recoverable")
        res.sig = f"kill-{kind}-{k}"
        res.nontrivial = True
        return res
    raise ValueError(cls)


def _child(argv):
    """kill semantics: run one conversion and os._exit(137) at statement #k"""
    import logging
    import warnings
    warnings.simplefilter("ignore")
    logging.disable(logging.CRITICAL)
    root, opts, k = Path(argv[0]), json.loads(argv[1]), int(argv[2])
    import neuropixel
    codes = monitored_codes()
    b, c = orig_paths(root)
    path = b if b.exists() else c
    conv = neuropixel.NP2Converter(path, post_check=opts["post_check"], delete_original=opts["delete_original"], compress=opts["compress"])
    conv.init_params(nwindow=WINDOW)
    fp = M.LineFailpoints(codes)
    fp.crash_at = k
    fp.kind = "kill"
    with fp:
        conv.process(overwrite=False)
    return 0


if __name__ == "__main__":
    sys.exit(_child(sys.argv[1:]))
