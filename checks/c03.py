"""C03 NP2.4 shank splitting is lossless and reconstruction is its exact inverse.

Monitors: byte observers on probeXXa..d/*.ap.bin (or .cbin decoded by harness code) compared with a pure
column-subset model of the generated int16 matrix; SHA/byte observer on the file rebuilt by NP2Reconstructor;
field-by-field comparison of the rebuilt metadata with the original.
"""
import shutil
from pathlib import Path

import numpy as np

from vlib import monitors as M
from vlib import np2
from vlib.result import Result, rng_for, scratch

PROPERTY = "C03"
LEVEL = "exploration"
RULE = ("NP2.4 recordings whose first rows contain all 65536 int16 values (or all values within +-max-int) followed by random data; "
        "full-scale/max-int pairs {0.5/8192, 0.62/2048, 0.6/512, 0.62/8192}; channel-to-shank assignments {default stripe, independent per "
        "channel, random runs, singletons} over 1..4 shank labels (non-contiguous label sets included); window sizes = multiples of 12 "
        "above the 576-sample overlap; lengths not aligned with the window; post_check/compress in {F,T}; reconstruction with compress in "
        "{F,T}; in half of the cases a forced second pass on the same converter object (with / without init_params) precedes the judgement. Non-trivial: gain not a power of two or > 1 shank interleaved, and the all-values block present; distinct = distinct "
        "(gain, assignment mode, #shanks, window, ns, options)")
ASSUMPTIONS = ["byte comparison uses harness code (numpy.fromfile / mtscomp), never the repository's reader",
               "metadata equality is judged on the parsed dictionaries (tilde prefixes are not part of a key)"]
REQUIRED = {"stale_compressed_reassembly_in_output_folder": 2, "shank_files_compared": 8, "reconstructions": 3, "meta_fields_compared": 100, "values_all_int16": 1, "second_passes": 4, "shank_files_opened": 8, "limited_precision_durations": 5, "compressed_originals": 3, "resplits": 4, "stale_metadata_in_output_folder": 5, "runs_over_leftover_shank_folders": 1}
CASE_TIMEOUT = 120.0
MAX_PROCS = 12


def gen_cases(seed, tier):
    n = 48 if tier == "quick" else 2400
    cases = [{"cls": "split", "seed": seed * 1000 + i, "_w": 3} for i in range(n)]
    cases += [{"cls": "split", "long": True, "seed": seed * 1000 + 900 + i, "_w": 25} for i in range(2 if tier == "quick" else 16)]
    return cases


def run_case(case):
    import neuropixel
    import spikeglx
    res = Result()
    rng = rng_for(case)
    d = scratch()
    i = case.get("_orig_i", case["_i"])
    gain = np2.GAIN_PAIRS[i % 4] if i < 8 else np2.GAIN_PAIRS[int(rng.integers(0, 4))]
    mode = ["dense", "random", "blocks", "singletons"][(i // 4) % 4] if i < 16 else str(rng.choice(["dense", "random", "blocks", "singletons"]))
    nsh = int(rng.integers(1, 5)) if mode != "dense" or rng.random() < 0.3 else 4
    window = int(rng.choice([588, 600, 720, 1200, 1800, 2400, 3600, 12 * int(rng.integers(49, 400))]))
    ns = int(rng.integers(180, 4200))
    if rng.random() < 0.2:
        ns = window + (window - 576) * int(rng.integers(0, 4))          # exactly aligned
    if case.get("long"):
        # longer than the 60000-sample windows of check_NP24 / NP2Reconstructor; the converter runs with its DEFAULT window
        ns = int(rng.integers(60001, 66000)) if rng.random() < 0.7 else 120000 + int(rng.integers(-2, 3))
        window = None
    content = "allvalues" if rng.random() < 0.6 else "allvalues-inrange"
    post_check = bool(rng.integers(0, 2))
    compress = bool(rng.integers(0, 2))
    sites = np2.shank_assignment(rng, mode, nsh)
    enc = str(rng.choice(["shank", "geom"]))
    # free-form fields an experimenter or the acquisition software may leave in the header: they travel through the split and back unchanged
    notes = {"userNotes": str(rng.choice(["", "mouse A12; depth 3.5,4.1 mm", "0.40,0.10,0.02", "0.5,2", "1,2.25,3", "gain=500 ref=ext", "see D:/notes/2024-05-01.txt", "12,13,14"])),
             "rmt_USERTAG": str(rng.choice(["", "a=b=c", "7", "7.50", "1e-3"])),
             # small and large numeric scalars (margins in seconds, counters): written back in positional notation, read back as the same numbers
             "trgTTLMarginS": str(rng.choice(["0.00005", "0.000012", "0.0001", "0.5", "0.00000031"])), "syncSourcePeriod": str(rng.choice(["1", "1.00000012", "123456789.5"]))}
    fs_hdr = float(rng.choice([30000.0, 30000.0, 30000.390639481, 29999.757983, 30000.75]))      # headers carry the probe's calibrated rate
    b, rec = np2.build(rng, d, ns=ns, gain=gain, sites=sites, content=content, encoding=enc, extra_meta=notes, fs=fs_hdr)
    raw = rec.raw
    second = str(rng.choice(["", "", "overwrite", "init+overwrite"])) if not case.get("long") else ""
    # the original as it may arrive: duration written with a few decimals only, and / or already compressed
    tsec = np2.round_duration(b.with_suffix(".meta"), ns, rec.fs, rng) if rng.random() < 0.5 else None
    orig_cbin = (not case.get("long")) and rng.random() < 0.3
    label = (f"gain={gain[0]}/{gain[1]} imSampRate={fs_hdr} mode={mode} shanks={sorted(set(sites[:, 0].tolist()))} window={window} ns={ns} {content} "
             f"post_check={post_check} compress={compress} enc={enc}" + (f" second-pass={second}" if second else "")
             + (f" fileTimeSecs={tsec}" if tsec else "") + (" original=cbin" if orig_cbin else ""))
    if tsec:
        res.count("limited_precision_durations")
    allv = len(np.unique(raw[:, :384])) == 65536
    if allv:
        res.count("values_all_int16")
    orig_bytes = b.read_bytes()
    orig_meta_text = b.with_suffix(".meta").read_text()
    if orig_cbin:
        b = np2.compress_original(b, rec)
        orig_bytes = b.read_bytes()
        res.count("compressed_originals")
    cols = np2.shank_columns(rec)
    # ------------------------------------------------------------------ leftovers of an earlier trial (round 19)
    # a trial split of the first shank only (init_params(nshank=[0])) ran earlier on another take of the recording: its folder is still there with
    # other samples in it, the folders of the other shanks are not. An ordinary run either refuses (status 0, nothing touched) or ends with every
    # shank file complete - it never reports success over a stale file.
    leftovers = i % 3 == 1 and not case.get("long") and len(cols) >= 2 and 0 in cols and not orig_cbin
    stale_bytes = None
    if leftovers:
        try:
            conv0 = neuropixel.NP2Converter(b, post_check=False, compress=False, delete_original=False)
            conv0.init_params(nwindow=window, nshank=[0])
            conv0.process()
            conv0.sr.close()
            f0 = d / "probe00a" / (np2.NAME + ".bin")
            stale = (raw[: max(60, ns // 2), cols[0]].astype(np.int32) // 2).astype(np.int16)
            f0.write_bytes(stale.tobytes())
            stale_bytes = f0.read_bytes()
            label += " leftover-first-shank-folder"
            res.count("runs_over_leftover_shank_folders")
        except Exception as e:
            res.exception("split:leftovers:exception", e, label)
            return _done(res, label, gain, mode, nsh, allv)
    # ------------------------------------------------------------------ split
    try:
        conv = neuropixel.NP2Converter(b, post_check=post_check, compress=compress, delete_original=False)
        if window is not None:
            conv.init_params(nwindow=window)
        status = conv.process()
        if leftovers and status == 0:
            # refused: nothing may have been touched or added
            f0 = d / "probe00a" / (np2.NAME + ".bin")
            res.check(f0.exists() and f0.read_bytes() == stale_bytes, "split:leftovers:refusal-touched-files", f"{label}: process() returned 0 but changed the earlier shank file")
            res.count("refusals_over_leftovers")
            conv.sr.close()
            conv = neuropixel.NP2Converter(b, post_check=post_check, compress=compress, delete_original=False)
            if window is not None:
                conv.init_params(nwindow=window)
            status = conv.process(overwrite=True)
        if second:
            # one converter object, a second forced pass (with or without init_params in between): judged on the files of the LAST pass
            if second == "init+overwrite":
                conv.init_params(nwindow=window) if window is not None else conv.init_params()
            status2 = conv.process(overwrite=True)
            res.check(status2 == 1, "split:second-pass-status", f"{label}: forced second pass on the same converter returned {status2}", counter="second_passes")
        conv.sr.close()
    except AssertionError as e:
        res.violation("split:post-check-assertion" + (":truncating-cast" if gain != (0.5, 8192) else ""),
                      f"{label}: process() raised AssertionError: {e}")
        return _done(res, label, gain, mode, nsh, allv)
    except Exception as e:
        res.exception("split:exception", e, label)
        return _done(res, label, gain, mode, nsh, allv)
    res.check(status == 1, "split:status", f"{label}: process() returned {status}")
    res.check(b.read_bytes() == orig_bytes, "split:original-modified", f"{label}: the original binary changed")
    for s, c in cols.items():
        folder = d / f"probe00{chr(97 + s)}"
        f = folder / (np2.NAME + (".cbin" if compress else ".bin"))
        if not f.exists():
            res.violation("split:missing-file", f"{label}: {f.relative_to(d)} missing; folder has {[p.name for p in folder.glob('*')] if folder.exists() else 'nothing'}")
            continue
        got = np2.read_int16(f, len(c))
        exp = raw[:, c]
        res.count("shank_files_compared")
        if got.shape != exp.shape:
            res.violation("split:shape", f"{label}: shank {s} file holds {got.shape}, expected {exp.shape}")
            continue
        if not np.array_equal(got, exp):
            bad = np.argwhere(got != exp)
            r0, c0 = bad[0]
            off = got.astype(int)[got != exp] - exp.astype(int)[got != exp]
            key = "split:values"
            if np.all(np.abs(off) == 1) and c0 < len(c) - 1:
                key = "split:one-lsb:truncating-cast"
            elif np.all(bad[:, 1] == len(c) - 1):
                key = "split:sync"
            res.violation(key, f"{label}: shank {s}: {len(bad)} samples differ, first at row {r0} col {c0} (orig ch {c[c0]}): "
                          f"wrote {got[r0, c0]} original {exp[r0, c0]}; offsets {np.unique(off)[:6].tolist()}")
        # metadata of the shank file
        try:
            ms = spikeglx.read_meta_data(f.with_suffix(".meta"))
            res.check(int(ms["nSavedChans"]) == len(c) and int(ms["NP2.4_shank"]) == s and ms["snsApLfSy"][0] == len(c) - 1,
                      "split:shank-meta", f"{label}: shank {s} meta nSavedChans={ms.get('nSavedChans')} NP2.4_shank={ms.get('NP2.4_shank')}")
            # the channel counts the file declares are the columns it holds: n-1 AP channels, no LF channel, one sync word
            res.check([int(v) for v in ms["snsApLfSy"]] == [len(c) - 1, 0, 1] and [int(v) for v in ms["acqApLfSy"]] == [len(c) - 1, 0, 1],
                      "split:shank-meta-counts", f"{label}: shank {s} ap meta declares snsApLfSy={ms.get('snsApLfSy')} acqApLfSy={ms.get('acqApLfSy')} for {len(c) - 1} AP channels + sync")
            nsub = 0
            for part in str(ms["snsSaveChanSubset"]).split(","):
                a = part.split(":")
                nsub += int(float(a[-1])) - int(float(a[0])) + 1
            res.check(nsub == len(c), "split:shank-meta-counts", f"{label}: shank {s} ap meta snsSaveChanSubset={ms['snsSaveChanSubset']!r} lists {nsub} channels, the file holds {len(c)}")
            srs = spikeglx.Reader(f, sort=False)
            res.check(srs.type == "ap" and srs.shape == exp.shape and srs.nsync == 1, "split:shank-reader", f"{label}: shank {s} file opens as type {srs.type} shape {srs.shape} "
                      f"nsync {srs.nsync}, expected ap {exp.shape} 1", counter="shank_files_opened")
            srs.close()
            # original channel list recorded in the shank meta
            groups = []
            for part in str(ms["snsSaveChanSubset_orig"]).split(","):
                a = part.split(":")
                groups += list(range(int(a[0]), int(a[-1]) + 1))
            res.check(groups == c.tolist(), "split:chan-subset-orig", f"{label}: shank {s}: snsSaveChanSubset_orig={ms['snsSaveChanSubset_orig']!r} does not list {c[:8].tolist()}..")
        except Exception as e:
            res.exception("split:shank-meta:exception", e, f"{label} shank {s}")
    # ------------------------------------------------------------------ reconstruct (the original is moved away first)
    try:
        keep = d / "orig_keep"
        keep.mkdir()
        shutil.move(str(b.parent), str(keep / "probe00"))
        rcomp = bool(rng.integers(0, 2))
        if i % 3 == 1 or rng.random() < 0.2:
            # the output folder is not empty: it still holds the metadata of an EARLIER reassembly of another recording of this probe (same layout;
            # other length, creation time, first sample) - the metadata written now describe the recording reassembled now
            import re as _re
            dns = int(rng.integers(1, 5000))
            stale = orig_meta_text
            for k_, v_ in (("fileSizeBytes", str((ns + dns) * 385 * 2)), ("fileTimeSecs", repr((ns + dns) / rec.fs)), ("fileCreateTime", "2019-01-01T01:01:01"),
                           ("firstSample", str(int(rng.integers(1, 10 ** 6))))):
                stale = _re.sub(rf"(?m)^{k_}=.*$", f"{k_}={v_}", stale)
            (d / "probe00").mkdir(exist_ok=True)
            (d / "probe00" / (np2.NAME + ".meta")).write_text(stale)
            label += f" (output folder holds the metadata of an earlier reassembly, {ns + dns} samples)"
            res.count("stale_metadata_in_output_folder")
        if rcomp and (i % 3 == 2 or rng.random() < 0.15):
            # round 21: ... or the COMPRESSED reassembly of an earlier recording of this probe (other samples, other length) under the very name the
            # reassembly made now will be published with
            import mtscomp as _mt
            nso = int(rng.integers(400, 1500))
            (d / "probe00").mkdir(exist_ok=True)
            tmpb = d / "earlier.bin"
            rng.integers(-32768, 32768, (nso, 385)).astype(np.int16).tofile(tmpb)
            co = d / "probe00" / (np2.NAME + ".cbin")
            _mt.compress(tmpb, out=co, outmeta=co.with_suffix(".ch"), sample_rate=rec.fs, n_channels=385, dtype=np.int16, chunk_duration=0.02,
                         check_after_compress=False)
            tmpb.unlink()
            label += f" (output folder holds the compressed reassembly of an earlier recording, {nso} samples)"
            res.count("stale_compressed_reassembly_in_output_folder")
        rc = neuropixel.NP2Reconstructor(d, "probe00", compress=rcomp)
        st = rc.process()
        res.check(st == 1, "reconstruct:status", f"{label}: reconstructor returned {st}")
        out = d / "probe00" / (np2.NAME + (".cbin" if rcomp else ".bin"))
        res.count("reconstructions")
        if not out.exists():
            res.violation("reconstruct:missing-file", f"{label}: {out.name} missing")
        else:
            got = np2.read_int16(out, 385)
            same = got.shape == raw.shape and np.array_equal(got, raw)
            if not same and got.shape == raw.shape:
                off = np.unique(got.astype(int)[got != raw] - raw.astype(int)[got != raw])
                key = "reconstruct:one-lsb:truncating-cast" if np.all(np.abs(off) == 1) else "reconstruct:bytes"
            else:
                key = "reconstruct:bytes"
            res.check(same, key, f"{label}: reconstructed binary differs from the original (shape {got.shape} vs {raw.shape})")
            if not rcomp and not orig_cbin:
                res.check(M.sha1(out) == M.sha1(keep / "probe00" / (np2.NAME + ".bin")) or not same, "reconstruct:sha1", f"{label}: SHA-1 differs")
            m0 = spikeglx.read_meta_data(keep / "probe00" / (np2.NAME + ".meta"))
            m1 = spikeglx.read_meta_data(out.with_suffix(".meta"))
            extra = set(m1) - set(m0)
            missing = set(m0) - set(m1)
            res.check(extra <= {"original_meta"} and not missing, "reconstruct:meta-keys", f"{label}: meta keys added {sorted(extra)} lost {sorted(missing)}")
            for k in sorted(set(m0) & set(m1)):
                v0, v1 = m0[k], m1[k]
                eq = (v0 == v1) if not isinstance(v0, float) else (isinstance(v1, float) and v0 == v1)
                res.check(eq, "reconstruct:meta-field", f"{label}: meta field {k!r}: original {v0!r} reconstructed {v1!r}", counter="meta_fields_compared")
            # the same comparison on the TEXT of the two files (harness-side split on the first '='): a field may be re-written in another numeric
            # spelling (384.0 -> 384), but not with another content
            t0 = _mini(orig_meta_text)
            t1 = _mini(out.with_suffix(".meta").read_text())
            for k in sorted(set(t0) & set(t1)):
                if t0[k] != t1[k] and not _same_numbers(t0[k], t1[k]):
                    res.violation("reconstruct:meta-field:text", f"{label}: meta field {k!r}: original text {t0[k]!r}, reconstructed text {t1[k]!r}")
            res.count("meta_text_compared")
            # the reassembled recording IS the original again (apart from its provenance flag): splitting it once more gives the same shank files
            if same and rng.random() < 0.4:
                for s2 in cols:
                    shutil.rmtree(d / f"probe00{chr(97 + s2)}", ignore_errors=True)
                conv2 = neuropixel.NP2Converter(out, post_check=bool(rng.integers(0, 2)), compress=False, delete_original=False)
                if window is not None:
                    conv2.init_params(nwindow=window)
                st2 = conv2.process()
                conv2.sr.close()
                res.check(st2 == 1, "resplit:status", f"{label}: splitting the reassembled recording returned {st2} (expected 1: it is an unsplit multi-shank recording again)",
                          counter="resplits")
                for s2, c2 in cols.items():
                    f2 = d / f"probe00{chr(97 + s2)}" / (np2.NAME + ".bin")
                    okf = f2.exists() and np.array_equal(np2.read_int16(f2, len(c2)), raw[:, c2])
                    res.check(okf, "resplit:values", f"{label}: shank {s2} file of the second split is missing or differs from the original's columns")
    except AssertionError as e:
        res.violation("reconstruct:assertion", f"{label}: reconstructor raised AssertionError {e}")
    except Exception as e:
        res.exception("reconstruct:exception", e, label)
    return _done(res, label, gain, mode, nsh, allv)


def _mini(text):
    d = {}
    for ln in text.splitlines():
        if "=" in ln:
            k, v = ln.split("=", 1)
            d[k.lstrip("~")] = v
    return d


def _same_numbers(a, b):
    try:
        xa, xb = [float(t) for t in a.split(",")], [float(t) for t in b.split(",")]
        return xa == xb
    except ValueError:
        return False


def _done(res, label, gain, mode, nsh, allv):
    res.sig = label.split(" post_check")[0]
    res.nontrivial = bool(allv and (gain != (0.5, 8192) or nsh > 1))
    return res
