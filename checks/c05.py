"""C05 Destriping removes ADC-skewed common noise and keeps local spikes.

Monitors: return-value monitors on ibldsp.voltage.destripe / destripe_lfp / car / kfilt / fk / agc.  Oracles: a physical
stripe model (a disturbance sampled by every channel with its own ADC delay), a pitch-relative local spike, per-group
recomputation for the grouped filters, and the product identity for gain control.
"""
import numpy as np
from pathlib import Path
import scipy.signal

from vlib import gen_signal as GS
from vlib.result import Result, rng_for

PROPERTY = "C05"
LEVEL = "exploration"
RULE = ("stripes: random band-limited (500-6000 Hz AP, 20-200 Hz LF) waveforms of 20-500 uV sampled with the NP1 / NP2 1-shank / NP2 4-shank / "
        "NPultra delay tables x k-filter / CAR; spikes on <= 7 neighbouring sites at every depth incl. both probe ends; label vectors with outside-brain "
        "channels as a top block, a top block with a hole, a mid-probe block, a bottom block or scattered; channel groupings (2-5 groups, unequal sizes) x operator / lagc / butter / vbounds / btype / kfilt "
        "settings; AGC window lengths incl. those whose padded FFT size is odd, float32 and float64, dead channels. Non-trivial: stripe with "
        "non-zero delay table and non-constant waveform; distinct = distinct (probe kind, filter, seed) / (function, grouping, settings)")
ASSUMPTIONS = ["thresholds are the ones the property states: attenuation <= -40 dB on the central two thirds w.r.t. the high-passed input; spike keeps "
               ">= 90 % of its high-passed, re-aligned amplitude on its peak channel", "a 'few neighbouring channels' = the 7 nearest sites with a Gaussian footprint of sigma 0.4-0.7 site pitches (retention falls "
               "smoothly with footprint width: measured 0.94-0.97 in that range, 0.89-0.91 at sigma 1.0-1.3, which is no longer 'a few channels')", "grouped filters are compared with per-group calls using default padding on both sides"]
REQUIRED = {"reader_headers_unsorted_of_permuted_recordings": 3, "default_header_checked": 2, "adc_tables_checked": 40, "labels_true_checked": 2, "labels_true_with_bad_channels": 2, "stripe_attenuations": 8, "spike_retentions": 8, "outside_checked": 6, "car_zero_reference": 10, "group_equals_separate": 20,
            "agc_products": 20, "referencing_through_destripe": 16, "settings_through_destripe": 4, "lfp_forwarding_checked": 3, "file_headers_checked": 4, "few_channel_arrays": 4, "fk_grouped_with_padding": 4, "file_pipeline_batches": 4, "file_pipeline_spikes": 10}
CASE_TIMEOUT = 120.0
KINDS = ["3B2", "NP2.1", "NP2.4", "NPultra"]


def gen_cases(seed, tier):
    k = 1 if tier == "quick" else 36
    cases = []
    i = 0
    for rep in range(k):
        for kind in KINDS:
            for kf in (True, False):
                cases.append({"cls": "stripe", "kind": kind, "k_filter": kf, "seed": seed * 1000 + i, "n": 3, "_w": 4})
                i += 1
        for j, kind in enumerate(KINDS):
            cases.append({"cls": "lfp", "kind": kind, "seed": seed * 1000 + i + j, "_w": 3})
            cases.append({"cls": "badpairs", "kind": kind, "k_filter": bool((rep + j) % 2), "seed": seed * 1000 + i + j, "_w": 2})
            cases.append({"cls": "badpairs", "kind": kind, "k_filter": bool((rep + j + 1) % 2), "seed": seed * 1000 + i + j + 77, "_w": 2})
            cases.append({"cls": "outside", "kind": kind, "k_filter": bool((rep + j) % 2), "seed": seed * 1000 + i + j, "_w": 3,
                          "layout": ["top", "middle", "top-with-hole", "scattered", "bottom"][(rep + j) % 5]})
            cases.append({"cls": "outside", "kind": kind, "k_filter": bool((rep + j + 1) % 2), "seed": seed * 1000 + i + j + 50, "_w": 3,
                          "layout": ["middle", "top-with-hole", "scattered", "bottom", "top"][(rep + j) % 5]})
    n = 10 if tier == "quick" else 600
    cases += [{"cls": "groups", "seed": seed * 1000 + j, "n": 4, "_w": 1} for j in range(n)]
    cases += [{"cls": "file-header", "kind": ["3B2", "NP2.1", "NP2.4", "NP2.4-split", "NP2.4-split", "3B2"][j % 6], "seed": seed * 1000 + 400 + j, "_w": 3} for j in range(6 if tier == "quick" else 120)]
    cases += [{"cls": "file-pipeline", "kind": ["3B2", "NP2.1"][j % 2], "seed": seed * 1000 + 700 + j, "_w": 8} for j in range(2 if tier == "quick" else 16)]
    cases += [{"cls": "through-destripe", "kind": KINDS[j % 4], "seed": seed * 1000 + 300 + j, "_w": 2} for j in range(8 if tier == "quick" else 240)]
    cases.append({"cls": "adc-table", "seed": seed * 1000 + 900, "_w": 1})
    cases += [{"cls": "agc", "seed": seed * 1000 + j, "n": 6, "_w": 1} for j in range(n)]
    return cases


def hp(x, fs):
    sos = scipy.signal.butter(3, 300 / fs * 2, "highpass", output="sos")
    return scipy.signal.sosfiltfilt(sos, x)


def run_case(case):
    import ibldsp.voltage as V
    import ibldsp.fourier as F
    res = Result()
    rng = rng_for(case)
    cls = case["cls"]
    sigs = set()
    fs = 30000.0
    if cls == "stripe":
        kind, kf = case["kind"], case["k_filter"]
        h = GS.header(kind)
        nc = 384
        for rep in range(case["n"]):
            ns = int(rng.choice([6000, 7200, 9000]))
            amp = float(rng.uniform(20e-6, 500e-6))
            f0 = float(rng.uniform(500, 2000))
            f1 = float(rng.uniform(f0 + 500, 6000))
            st = GS.stripe(rng, ns, fs, h["sample_shift"], f0, f1, amp)
            sl = slice(ns // 6, ns - ns // 6)
            label = f"{kind} {'k-filter' if kf else 'CAR'} stripe {f0:.0f}-{f1:.0f} Hz {amp * 1e6:.0f} uV ns={ns}"
            try:
                out = V.destripe(st.copy(), fs, h=h, neuropixel_version=1, k_filter=kf)
                ref = hp(st, fs)
                att = GS.db(GS.rms(out[:, sl]), GS.rms(ref[:, sl]))
                res.measure("worst_stripe_attenuation_db", att)
                res.check(out.shape == st.shape and att <= -40.0, "destripe:stripe-attenuation", f"{label}: stripe attenuated by {att:.1f} dB only (needs <= -40 dB)",
                          counter="stripe_attenuations")
                # ---- spike on a few neighbouring channels, on top of the stripe, at a random depth and at both ends
                for c0 in (0, nc - 1, int(rng.integers(1, nc - 1)), int(rng.integers(1, nc - 1))):
                    t0 = int(rng.integers(ns // 4, 3 * ns // 4))
                    spk, foot = GS.local_spike(rng, ns, fs, h, c0, t0=t0, amp=float(rng.choice([-1, 1])) * float(rng.uniform(40e-6, 200e-6)),
                                               width_s=float(rng.choice([1e-4, 1.5e-4, 3e-4])), sigma_pitch=float(rng.uniform(0.4, 0.7)))
                    outs = V.destripe((st + spk).copy(), fs, h=h, neuropixel_version=1, k_filter=kf)
                    ref_spk = F.fshift(hp(spk, fs), h["sample_shift"], axis=1)
                    w = slice(t0 - 45, t0 + 45)
                    keep = np.max(np.abs(outs[c0, w])) / np.max(np.abs(ref_spk[c0, w]))
                    res.measure("min_spike_retention", keep, kind="min")
                    res.check(keep >= 0.90, "destripe:spike-retention", f"{label}: spike at channel {c0} ({int((foot > 0).sum())} sites) keeps {keep:.1%} of its high-passed amplitude",
                              counter="spike_retentions")
                sigs.add((kind, kf, rep))
                # ---- fewer channels than the k-filter's lateral padding (60): a short selection, one shank of a few sites, what is left inside the brain
                if rep == 0:
                    m = int(rng.integers(20, 60))
                    hs = {k_: np.asarray(v_)[:m] for k_, v_ in h.items()}
                    o_few = V.destripe(st[:m].copy(), fs, h=hs, neuropixel_version=1, k_filter=kf)
                    att = GS.db(GS.rms(o_few[:, sl]), GS.rms(ref[:m, sl])) if o_few.shape == (m, ns) else np.inf
                    res.check(o_few.shape == (m, ns) and att <= -40.0, "destripe:few-channels", f"{label}: on the first {m} channels only the result has shape {o_few.shape} "
                              f"and the stripe is attenuated by {att:.1f} dB (needs {(m, ns)}, <= -40 dB)", counter="few_channel_arrays")
                # ---- the defaults of the call: header derived from the probe version, labels deduced from the data, no version = no correction
                if rep == 0 and kind in ("NPultra", "NP2.4"):
                    # the generation named the way the library names it (a string for NPultra, 2.4 for four-shank probes), with and without a header
                    ver = "NPultra" if kind == "NPultra" else 2.4
                    for hh in ((None, h) if kind == "NPultra" else (h,)):      # (the NP2.4 test header is in the reader's sorted channel order, not the canonical one)
                        o_v = V.destripe(st.copy(), fs, h=hh, neuropixel_version=ver, k_filter=kf)
                        att = GS.db(GS.rms(o_v[:, sl]), GS.rms(ref[:, sl]))
                        res.check(att <= -40.0, "destripe:version-name", f"{label}: destripe(neuropixel_version={ver!r}, h={'given' if hh is not None else 'None'}) attenuates the "
                                  f"stripe by {att:.1f} dB only", counter="default_header_checked")
                if rep == 0 and kind in ("3B2", "NP2.1"):
                    ver = 1 if kind == "3B2" else 2
                    o_def = V.destripe(st.copy(), fs, neuropixel_version=ver, k_filter=kf)
                    att = GS.db(GS.rms(o_def[:, sl]), GS.rms(ref[:, sl]))
                    res.check(att <= -40.0, "destripe:default-header", f"{label}: destripe(neuropixel_version={ver}) without a header attenuates the stripe of that "
                              f"probe generation by {att:.1f} dB only", counter="default_header_checked")
                    o_none = V.destripe(st.copy(), fs, h=h, neuropixel_version=None, k_filter=kf)
                    res.check(np.max(np.abs(o_none[:, sl])) > 1e-3 * np.max(np.abs(ref)) if np.ptp(h["sample_shift"]) > 0 and kf else True, "destripe:no-version-still-corrects",
                              f"{label}: neuropixel_version=None (no sampling-delay correction asked) removes the skewed stripe completely")
                    noise = rng.standard_normal(st.shape) * 10e-6
                    xx = st + noise
                    xx[int(rng.integers(20, 180))] = 0                                                  # a silent channel
                    xx[int(rng.integers(200, 360))] += rng.standard_normal(st.shape[1]) * 400e-6        # a noisy channel
                    lab_auto, _ = V.detect_bad_channels(xx.copy(), fs)
                    res.count("labels_true_with_bad_channels", int(np.any(lab_auto != 0)))
                    o_true = V.destripe(xx.copy(), fs, h=h, neuropixel_version=1, k_filter=kf, channel_labels=True)
                    o_expl = V.destripe(xx.copy(), fs, h=h, neuropixel_version=1, k_filter=kf, channel_labels=lab_auto)
                    res.check(np.array_equal(o_true, o_expl), "destripe:labels-true", f"{label}: channel_labels=True differs from passing detect_bad_channels(x, fs)[0] "
                              f"(labels {np.bincount(lab_auto.astype(int)).tolist()})", counter="labels_true_checked")
            except Exception as e:
                res.exception("destripe:exception", e, label)
    elif cls == "lfp":
        kind = case["kind"]
        h = GS.header(kind)
        fsl = 2500.0
        ns = 30000      # 12 s: the 0.5 Hz corner of the LF band-pass needs seconds to settle; the middle third is judged
        f0 = float(rng.uniform(2, 100))
        st = GS.stripe(rng, ns, fsl, h["sample_shift"], f0, float(rng.uniform(f0 + 20, 300)), float(rng.uniform(50e-6, 500e-6)))
        sl = slice(ns // 3, ns - ns // 3)
        label = f"{kind} destripe_lfp"
        try:
            out = V.destripe_lfp(st.copy(), fsl, h=h)
            sos = scipy.signal.butter(3, [0.5, 300], "bandpass", fs=fsl, output="sos")
            ref = scipy.signal.sosfiltfilt(sos, st)
            att = GS.db(GS.rms(out[:, sl]), GS.rms(ref[:, sl]))
            res.measure("worst_lfp_stripe_attenuation_db", att)
            res.check(att <= -40.0, "destripe_lfp:stripe-attenuation", f"{label}: stripe attenuated by {att:.1f} dB only", counter="stripe_attenuations")
            # the wrapper hands its arguments on: labels (outside-brain channels excluded and left untouched), the caller's temporal filter, the
            # choice of spatial filter - the result is what destripe gives for the same arguments
            xs = st[:, :6000] + 20e-6 * rng.standard_normal((st.shape[0], 6000))
            labels = np.zeros(xs.shape[0])
            labels[xs.shape[0] - int(rng.integers(2, 30)):] = 3
            bk = {"N": int(rng.integers(2, 5)), "Wn": [float(rng.uniform(0.3, 2)), float(rng.uniform(150, 400))], "btype": "bandpass", "fs": fsl}
            kf = bool(rng.integers(0, 2))
            a = V.destripe_lfp(xs.copy(), fsl, h=h, channel_labels=labels.copy(), butter_kwargs=dict(bk), k_filter=kf)
            b_ = V.destripe(xs.copy(), fsl, h=h, channel_labels=labels.copy(), butter_kwargs=dict(bk), k_filter=kf)
            e = np.max(np.abs(a - b_)) / np.max(np.abs(b_))
            res.check(e <= 1e-12, "destripe_lfp:arguments-not-forwarded", f"{label}: destripe_lfp(channel_labels, butter_kwargs={bk}, k_filter={kf}) differs from destripe with the "
                      f"same arguments by {e:.3g}", counter="lfp_forwarding_checked")
            sosb = scipy.signal.butter(**bk, output="sos")
            refo = F.fshift(scipy.signal.sosfiltfilt(sosb, xs), h["sample_shift"], axis=1)
            e = np.max(np.abs(a[labels == 3] - refo[labels == 3])) / np.max(np.abs(refo))
            res.check(e <= 1e-9, "destripe_lfp:outside-touched", f"{label}: outside-brain channels were modified by the spatial filter of destripe_lfp (rel diff {e:.3g})",
                      counter="outside_checked")
            sigs.add((kind, "lfp"))
        except Exception as e:
            res.exception("destripe_lfp:exception", e, label)
    elif cls == "outside":
        kind, kf = case["kind"], case["k_filter"]
        h = GS.header(kind)
        ns = 6000
        nout = int(rng.integers(1, 41))
        labels = np.zeros(384)
        layout = case.get("layout", "top")
        if layout == "top":
            labels[384 - nout:] = 3
        elif layout == "top-with-hole":      # e.g. a channel inside the block that got another label: here simply kept in the filter
            nout = max(nout, 4)
            labels[384 - nout:] = 3
            labels[384 - int(rng.integers(2, nout))] = 0
        elif layout == "middle":
            a = int(rng.integers(20, 300))
            labels[a:a + nout] = 3
        elif layout == "bottom":
            labels[:nout] = 3
        else:                                # scattered
            labels[rng.choice(384, nout, replace=False)] = 3
        nout = int(np.sum(labels == 3))
        x = GS.stripe(rng, ns, fs, h["sample_shift"], 600, 5000, 100e-6) + 20e-6 * rng.standard_normal((384, ns))
        label = f"{kind} {'k-filter' if kf else 'CAR'} {nout} outside-brain channels, layout {layout}"
        try:
            out = V.destripe(x.copy(), fs, h=h, neuropixel_version=1, k_filter=kf, channel_labels=labels.copy())
            ref = F.fshift(hp(x, fs), h["sample_shift"], axis=1)
            e = np.max(np.abs(out[labels == 3] - ref[labels == 3])) / np.max(np.abs(ref))
            res.check(e <= 1e-9, "destripe:outside-touched", f"{label}: outside-brain channels were modified by the spatial filter (rel diff {e:.3g})", counter="outside_checked")
            # replacing the content of the excluded channels must leave every other channel unchanged
            x2 = x.copy()
            x2[labels == 3] = 300e-6 * rng.standard_normal((nout, ns))
            out2 = V.destripe(x2.copy(), fs, h=h, neuropixel_version=1, k_filter=kf, channel_labels=labels.copy())
            e2 = np.max(np.abs(out2[labels != 3] - out[labels != 3])) / np.max(np.abs(out))
            res.check(e2 <= 1e-9, "destripe:outside-leaks", f"{label}: changing the excluded channels changes the others by {e2:.3g}", counter="outside_checked")
            # and the inside channels equal filtering the inside block alone
            out3 = V.destripe(x[labels != 3].copy(), fs, h={k: v[labels != 3] for k, v in h.items()}, neuropixel_version=1, k_filter=kf)
            e3 = np.max(np.abs(out3 - out[labels != 3])) / np.max(np.abs(out))
            res.check(e3 <= 1e-9, "destripe:inside-differs", f"{label}: inside-brain channels differ from filtering them alone ({e3:.3g})")
            sigs.add((kind, kf, "outside"))
        except Exception as e:
            res.exception("destripe:exception", e, label)
    elif cls == "badpairs":
        # bad channels close to each other: each must be rebuilt from GOOD neighbours only, so the stripe is still removed on every inside channel
        kind, kf = case["kind"], case["k_filter"]
        h = GS.header(kind)
        ns = 6000
        x = GS.stripe(rng, ns, fs, h["sample_shift"], 600, 5000, 100e-6)
        labels = np.zeros(384)
        c0 = int(rng.integers(20, 340))
        layout = str(rng.choice(["dead-noisy", "noisy-dead", "dead-dead", "noisy-gap-dead", "three"]))
        bad = {"dead-noisy": [(c0, 1), (c0 + 2, 2)], "noisy-dead": [(c0, 2), (c0 + 1, 1)], "dead-dead": [(c0, 1), (c0 + 2, 1)],
               "noisy-gap-dead": [(c0, 2), (c0 + 4, 1)], "three": [(c0, 1), (c0 + 1, 2), (c0 + 3, 1)]}[layout]
        if rng.random() < 0.4:
            labels[384 - int(rng.integers(1, 30)):] = 3
        for c, lab in bad:
            labels[c] = lab
            if lab == 1:
                x[c] = 1e-8 * rng.standard_normal(ns)
            else:
                x[c] = x[c] + 400e-6 * rng.standard_normal(ns)
        sl = slice(ns // 6, ns - ns // 6)
        label = f"{kind} {'k-filter' if kf else 'CAR'} bad channels {bad}"
        try:
            out = V.destripe(x.copy(), fs, h=h, neuropixel_version=1, k_filter=kf, channel_labels=labels.copy())
            ref = GS.rms(hp(GS.stripe(np.random.default_rng(1), ns, fs, h["sample_shift"], 600, 5000, 100e-6), fs)[:, sl])
            inside = np.flatnonzero(labels != 3)
            per = np.array([GS.rms(out[c, sl]) for c in inside])
            worst = GS.db(per.max(), ref)
            res.measure("worst_stripe_attenuation_with_bad_channels_db", worst)
            res.check(worst <= -40.0, "destripe:bad-channel-leaks", f"{label}: channel {inside[int(np.argmax(per))]} keeps {worst:.1f} dB of the stripe level after destriping "
                      f"(repaired channels must be rebuilt from good neighbours only)", counter="stripe_attenuations")
            sigs.add((kind, kf, layout))
        except Exception as e:
            res.exception("destripe:exception", e, label)
    elif cls == "file-header":
        # the header as production code obtains it: read from the recording's metadata (any site selection, sorted or not, a whole probe or one
        # shank of a split NP2.4 recording); the disturbance is sampled with the delays of the generator's own multiplexer model
        import spikeglx
        from vlib import gen_meta as G
        from vlib.result import scratch
        d = scratch()
        kind0 = case["kind"]
        kind = "NP2.4" if kind0.startswith("NP2.4") else kind0
        mode = str(rng.choice(["dense", "random", "sorted-random", "interleaved"]))
        sites = G.draw_sites(rng, kind, 384, mode)
        enc = str(rng.choice(["shank", "geom"]))
        rec = G.make(rng, kind=kind, sites=sites, encoding=enc, ns=3, raw=np.zeros((3, 385), np.int16))
        rows = np.arange(384)
        text = rec.meta_text
        if kind0 == "NP2.4-split":
            shanks = np.unique(sites[:, 0])
            sh = int(rng.choice(shanks))
            rows = np.flatnonzero(sites[:, 0] == sh)
            child = G.make(rng, kind=kind, sites=sites, encoding=enc, ns=3, raw=np.zeros((3, rows.size + 1), np.int16),
                           extra={"NP2.4_shank": sh, "nSavedChans": rows.size + 1, "snsApLfSy": f"{rows.size},0,1"})
            text = child.meta_text
        f = d / "hdr.ap.meta"
        f.write_text(text)
        sort = bool(rng.integers(0, 2))
        kf = bool(rng.integers(0, 2))
        ns = 6000
        label = f"{kind0}/{enc}/{mode} header read from metadata (sort={sort}, {rows.size} channels) {'k-filter' if kf else 'CAR'}"
        try:
            hfile = spikeglx.geometry_from_meta(spikeglx.read_meta_data(f), sort=sort)
            order = rows[np.asarray(hfile["ind"], int)]                  # site-table row of every returned channel
            if rows.size < 40:
                res.count("file_headers_skipped")
            else:
                st = GS.stripe(rng, ns, fs, rec.sample_shift[order], 600, 5000, float(rng.uniform(50e-6, 300e-6)))
                out = V.destripe(st.copy(), fs, h=hfile, neuropixel_version=1 if kind == "3B2" else 2, k_filter=kf)
                sl = slice(ns // 6, ns - ns // 6)
                att = GS.db(GS.rms(out[:, sl]), GS.rms(hp(st, fs)[:, sl]))
                res.measure("worst_stripe_attenuation_file_header_db", att)
                res.check(att <= -40.0, "destripe:stripe-attenuation:header-from-file", f"{label}: stripe attenuated by {att:.1f} dB only (needs <= -40 dB)",
                          counter="file_headers_checked")
                sigs.add((kind0, enc, sort))
            if kind0 != "NP2.4-split":
                # round 22: the header as a READER hands it out (Reader(file, sort=...).geometry), for data in the channel order that reader exposes. The
                # order of the data is the generator's (file order, or its own sort of the site table) - not read back from the header under test
                # (sites saved in an arbitrary order, both settings of the reader's sort option)
                recr = G.make(rng, kind=kind, sites=G.draw_sites(rng, kind, 384, "random"), encoding=enc, ns=3, raw=np.zeros((3, 385), np.int16))
                bfile = G.write(recr, d / "rd")
                for sort_r in (True, False):
                    srh = spikeglx.Reader(bfile, sort=sort_r)
                    hrd = {k: np.array(v) for k, v in srh.geometry.items()}
                    srh.close()
                    data_order = np.asarray(recr.order, int)[:384] if sort_r else np.arange(384)
                    st = GS.stripe(rng, ns, fs, recr.sample_shift[data_order], 600, 5000, float(rng.uniform(50e-6, 300e-6)))
                    out = V.destripe(st.copy(), fs, h=hrd, neuropixel_version=1 if kind == "3B2" else 2, k_filter=kf)
                    sl = slice(ns // 6, ns - ns // 6)
                    att = GS.db(GS.rms(out[:, sl]), GS.rms(hp(st, fs)[:, sl]))
                    res.measure("worst_stripe_attenuation_reader_header_db", att)
                    res.check(att <= -40.0, "destripe:stripe-attenuation:header-from-reader", f"{kind0}/{enc}/random sites [header = Reader(sort={sort_r}).geometry] "
                              f"{'k-filter' if kf else 'CAR'}: stripe attenuated by {att:.1f} dB only (needs <= -40 dB)", counter="reader_headers_checked")
                    if not sort_r and not np.array_equal(np.asarray(recr.order, int)[:384], np.arange(384)):
                        res.count("reader_headers_unsorted_of_permuted_recordings")
        except Exception as e:
            res.exception("destripe:exception", e, label)
    elif cls == "file-pipeline":
        # the stripe clause through the FILE pipeline with its default settings: a recording of several processing batches (full batches and a shorter last
        # one) carrying a strong ADC-skewed common disturbance all along; the destriped file is judged batch by batch, away from the seams
        import spikeglx
        from vlib import gen_meta as G
        from vlib.result import scratch
        try:
            import pyfftw
            shim = getattr(pyfftw, "__verif_shim__", False)
        except ImportError:
            shim = False
        d = scratch()
        kind = case["kind"]
        nbatch = 4096
        ns = int(rng.integers(2 * nbatch + 1500, 3 * nbatch))
        rec = G.make(rng, kind=kind, sites=G.draw_sites(rng, kind, 384, "dense"), ns=ns, raw=np.zeros((1, 1), np.int16),
                     gains=np.c_[np.full(384, 500), np.full(384, 250)])                       # (AP gain 500: full scale 1.2 mV, one count = 2.3 uV)
        # a disturbance of 200-300 uV rms between 0.5 and 1.2 kHz: strong, but its sample-to-sample steps stay below the pipeline's slew criterion (300 uV per sample) -
        # a saturated (muted) stretch would meet the stripe clause trivially
        amp = float(rng.uniform(200e-6, 300e-6))
        st = GS.stripe(rng, ns, fs, rec.sample_shift[:384], 500, 1200, amp)                  # (384, ns) volts, file channel order
        # local spikes all along the file (every batch, every worker's share), each on a few sites
        hh = {"x": rec.x[:384], "y": rec.y[:384], "shank": rec.shank[:384], "sample_shift": rec.sample_shift[:384]}
        spikes = []
        spk_all = np.zeros_like(st)
        for t0 in range(1300, ns - 1300, 900):          # (the first / last 1024 samples of the FILE are tapered by the pipeline itself)
            c0 = int(rng.integers(2, 382))
            spk, foot = GS.local_spike(rng, ns, fs, hh, c0, t0=t0, amp=float(rng.choice([-1, 1])) * float(rng.uniform(150e-6, 300e-6)), width_s=1.5e-4, sigma_pitch=0.5)
            spk_all += spk
            spikes.append((t0, c0))
        st_only = st
        st = st + spk_all
        raw = np.clip(np.round(st.T / rec.s2v[:384][None, :]), -32768, 32767).astype(np.int16)
        rec.raw = np.ascontiguousarray(np.c_[raw, G.sync_words(rng, (ns, 1))])
        b = G.write(rec, d / "rec")
        label = f"{kind} file pipeline ns={ns} nbatch={nbatch} stripe {amp * 1e6:.0f} uV"
        try:
            out = d / "out" / "destriped.bin"
            out.parent.mkdir()
            nproc = (1, 3)[case["seed"] % 2]

            class _Inline:          # the worker tasks of the pipeline, run one after the other in this process (what they write only depends on their arguments)
                def __init__(self, n_jobs=None, **kw):
                    pass

                def __call__(self, tasks):
                    return [f_(*a_, **k_) for f_, a_, k_ in tasks]
            keepP = V.Parallel
            V.Parallel = _Inline
            try:
                V.decompress_destripe_cbin(b, output_file=out, nbatch=nbatch, nprocesses=nproc, reject_channels=False)
            finally:
                V.Parallel = keepP
            label += f" workers={nproc}"
            o = np.fromfile(out, dtype=np.int16).reshape(-1, rec.nc)
            sat = np.load(out.parent / "_iblqc_ephysSaturation.samples.npy")
            res.check(not np.any(sat), "harness:file-pipeline-input-saturates", f"{label}: the workload's own disturbance trips the saturation detector at {int(np.sum(sat))} samples")
            res.check(o.shape[0] == ns, "destripe:file-pipeline:size", f"{label}: output holds {o.shape[0]} samples")
            with spikeglx.Reader(b) as sr_:
                order = np.asarray(sr_.raw_channel_order[:384], int)      # the pipeline works in the reader's (sorted) channel order
            ov = (o[:, :384].astype(np.float64) * rec.s2v[order][None, :]).T
            ref = hp(st_only[order], fs)
            inv = np.argsort(order)
            ref_spk = F.fshift(hp(spk_all, fs), rec.sample_shift[:384], axis=1)       # the spikes, high-passed and re-aligned, in file channel order
            for t0, c0 in spikes:
                w = slice(t0 - 45, t0 + 45)
                keep = np.max(np.abs(ov[inv[c0], w])) / np.max(np.abs(ref_spk[c0, w])) if o.shape[0] == ns else 0.0
                res.measure("min_spike_retention_file_pipeline", keep, kind="min")
                res.check(keep >= 0.90, "destripe:spike-retention:file-pipeline", f"{label}: spike at sample {t0}, channel {c0} keeps {keep:.1%} of its high-passed amplitude in the destriped file",
                          counter="file_pipeline_spikes")
            ov = ov - F.fshift(hp(spk_all, fs), rec.sample_shift[:384], axis=1)[order] * 0      # (stripe attenuation below is judged on windows without a spike)
            stride = nbatch - 2048
            k = 0
            first = 0
            while first < ns and o.shape[0] == ns:
                last = min(first + nbatch, ns)
                a_, b_ = first + 1024 + 200, (last - 1024 - 200 if last < ns else ns - 400)
                if b_ - a_ >= 300:
                    att = GS.db(GS.rms(ov[:, a_:b_]), GS.rms(ref[:, a_:b_]))
                    res.measure("worst_stripe_attenuation_file_pipeline_db", att)
                    res.check(att <= -40.0, "destripe:stripe-attenuation:file-pipeline", f"{label}: batch {k} (samples {a_}:{b_}, {'full' if last - first == nbatch else 'last, shorter'}): "
                              f"stripe attenuated by {att:.1f} dB only", counter="file_pipeline_batches")
                if last == ns:
                    break
                first += stride
                k += 1
            sigs.add(("file-pipeline", kind))
        except Exception as e:
            res.exception("destripe:file-pipeline:exception", e, label + ("" if shim else " (no pyfftw stand-in)"))
    elif cls == "through-destripe":
        # referencing / k-filtering requested THROUGH destripe (k_filter, k_kwargs): the settings must reach the spatial filter.
        # High-pass and ADC re-alignment act on each channel alone, so every clause about groups carries over unchanged.
        kind = case["kind"]
        h = GS.header(kind)
        ns = int(rng.choice([1500, 2400]))
        ng = int(rng.integers(2, 5))
        g = np.sort(rng.integers(0, ng, 384)) if rng.random() < 0.5 else (np.arange(384) % ng)
        for _k in range(6):
            vals, cnt = np.unique(g, return_counts=True)
            if cnt.min() >= 40 or vals.size == 1:
                break
            g[g == vals[np.argmin(cnt)]] = vals[np.argmax(cnt)]
        groups = np.unique(g)
        x = GS.stripe(rng, ns, fs, h["sample_shift"], 600, 5000, 100e-6) + 30e-6 * rng.standard_normal((384, ns))
        for c0 in rng.choice(384, 12, replace=False):          # local spikes: mean and median of a group differ at those samples
            x += GS.local_spike(rng, ns, fs, h, int(c0), t0=int(rng.integers(200, ns - 200)), amp=float(rng.choice([-1, 1])) * 300e-6, width_s=3e-4, sigma_pitch=0.6)[0]
        labels = None
        if rng.random() < 0.5:
            labels = np.zeros(384)
            labels[384 - int(rng.integers(1, 30)):] = 3
        inside = np.arange(384) if labels is None else np.flatnonzero(labels != 3)
        hi = {k: v[inside] for k, v in h.items()}
        label = f"{kind} groups={[int(np.sum(g == v)) for v in groups]} outside={0 if labels is None else int(np.sum(labels == 3))}"
        try:
            for op in ("median", "average"):
                for coll in (None, g[inside]):
                    kk = {"operator": op} if coll is None else {"operator": op, "collection": coll}
                    y = V.destripe(x.copy(), fs, h=h, neuropixel_version=1, k_filter=False, k_kwargs=dict(kk), channel_labels=None if labels is None else labels.copy())
                    agg = np.median if op == "median" else np.mean
                    yi = y[inside]
                    sets = [np.ones(inside.size, bool)] if coll is None else [coll == v for v in groups]
                    worst = max(np.max(np.abs(agg(yi[m], axis=0))) for m in sets)
                    res.check(worst <= 1e-9 * np.max(np.abs(x)), f"destripe-car:{op}-not-zero", f"{label}: destripe(k_filter=False, k_kwargs={{operator: {op!r}"
                              f"{', collection' if coll is not None else ''}}}) leaves a per-group {op} of {worst:.3g} V on the inside-brain channels", counter="referencing_through_destripe")
            # k-filter settings through destripe: grouped == each group destriped on its own with the same settings
            lagc = [None, int(rng.integers(40, 400)), 3000][int(rng.integers(0, 3))]
            bk = {"N": int(rng.integers(2, 4)), "Wn": float(rng.uniform(0.01, 0.2)), "btype": "highpass"}
            kk = {"ntr_pad": 0, "ntr_tap": 0, "lagc": lagc, "butter_kwargs": bk}
            y = V.destripe(x[inside].copy(), fs, h=hi, neuropixel_version=1, k_filter=True, k_kwargs=dict(kk, collection=g[inside]))
            sep = np.zeros_like(y)
            for v in groups:
                m = g[inside] == v
                sep[m] = V.destripe(x[inside][m].copy(), fs, h={k: a[m] for k, a in hi.items()}, neuropixel_version=1, k_filter=True, k_kwargs=dict(kk))
            e = np.max(np.abs(y - sep)) / np.max(np.abs(sep))
            res.check(e <= 1e-9, "destripe-kfilt:grouped-differs", f"{label}: destripe(k_kwargs with collection, lagc={lagc}, butter={bk}) differs from destriping each group alone "
                      f"with the same settings by {e:.3g}", counter="group_equals_separate")
            # and the settings do reach the filter: the result equals high-pass -> re-alignment -> kfilt(**settings)
            ref = V.kfilt(F.fshift(hp(x[inside], fs), hi["sample_shift"], axis=1), collection=g[inside], **kk)
            e = np.max(np.abs(y - ref)) / np.max(np.abs(ref))
            res.check(e <= 1e-9, "destripe-kfilt:settings-not-forwarded", f"{label}: destripe(k_kwargs=lagc={lagc}, butter={bk}) differs from high-pass, re-alignment and "
                      f"kfilt with the same settings by {e:.3g}", counter="settings_through_destripe")
            sigs.add((kind, ng, labels is None))
        except Exception as e:
            res.exception("destripe:exception", e, label)
    elif cls == "groups":
        for _ in range(case["n"]):
            nc = int(rng.integers(40, 200))
            ns = int(rng.integers(200, 1200))
            ng = int(rng.integers(2, 6))
            g = rng.integers(0, ng, nc) * int(rng.integers(1, 4)) + int(rng.integers(0, 3))
            if rng.random() < 0.5:
                g = np.sort(g)
            for _k in range(8):            # each group large enough for the spatial filters (sosfiltfilt pads 12 traces): merge small ones into the largest
                vals, cnt = np.unique(g, return_counts=True)
                if cnt.min() >= 16 or vals.size == 1:
                    break
                g[g == vals[np.argmin(cnt)]] = vals[np.argmax(cnt)]
            x = rng.standard_normal((nc, ns)) * 50e-6 + rng.standard_normal((1, ns)) * 80e-6
            groups = np.unique(g)
            label = f"nc={nc} ns={ns} groups={[int(np.sum(g == v)) for v in groups]}"
            # ---- car: zero median / mean per group at every sample
            for op in ("median", "average"):
                try:
                    y = V.car(x.copy(), collection=g, operator=op)
                    agg = np.median if op == "median" else np.mean
                    worst = max(np.max(np.abs(agg(y[g == v], axis=0))) for v in groups)
                    res.check(worst <= 1e-9 * np.max(np.abs(x)), f"car:group-{op}-not-zero", f"{label}: car(collection, operator={op!r}) leaves a per-group {op} of {worst:.3g}",
                              counter="car_zero_reference")
                    sep = np.zeros_like(x)
                    for v in groups:
                        sep[g == v] = V.car(x[g == v].copy(), operator=op)
                    e = np.max(np.abs(y - sep)) / np.max(np.abs(x))
                    res.check(e <= 1e-12, f"car:grouped-ignores-operator" if op == "average" else "car:grouped-differs", f"{label}: grouped car(operator={op!r}) differs from per-group calls by {e:.3g}",
                              counter="group_equals_separate")
                    y0 = V.car(x.copy(), operator=op)
                    w0 = np.max(np.abs(agg(y0, axis=0)))
                    res.check(w0 <= 1e-9 * np.max(np.abs(x)), f"car:{op}-not-zero", f"{label}: car(operator={op!r}) leaves a {op} of {w0:.3g}", counter="car_zero_reference")
                except Exception as e:
                    res.exception("car:exception", e, label)
            # ---- kfilt with groups == per-group kfilt with the same gain-control and filter settings
            lagc = [300, None, 0, int(rng.integers(20, 150))][int(rng.integers(0, 4))]
            bk = [None, {"N": 3, "Wn": 0.1, "btype": "highpass"}, {"N": 2, "Wn": float(rng.uniform(0.05, 0.3)), "btype": "highpass"}][int(rng.integers(0, 3))]
            try:
                y = V.kfilt(x.copy(), collection=g, lagc=lagc, butter_kwargs=bk)
                sep = np.zeros_like(x)
                for v in groups:
                    # (the grouped call documents that each group is filtered without lateral padding)
                    sep[g == v] = V.kfilt(x[g == v].copy(), lagc=lagc, butter_kwargs=bk)
                e = np.max(np.abs(y - sep)) / np.max(np.abs(sep))
                key = "kfilt:grouped-ignores-lagc" if lagc != 300 else "kfilt:grouped-differs"
                res.check(e <= 1e-9, key, f"{label}: grouped kfilt(lagc={lagc}, butter={bk}) differs from per-group calls by {e:.3g}", counter="group_equals_separate")
            except Exception as e:
                res.exception("kfilt:exception", e, f"{label} lagc={lagc}")
            # ---- fk with groups == per-group fk with the same settings
            si = 1 / 30000.0
            vb = [float(rng.uniform(0.5, 5)), 0]
            vb[1] = vb[0] * float(rng.uniform(1.5, 4))
            btype = str(rng.choice(["highpass", "lowpass"]))
            kfl = None if rng.random() < 0.5 else {"bounds": [0.0, float(rng.uniform(0.005, 0.02))], "btype": "highpass"}
            lg = [0.5, None, 0.01][int(rng.integers(0, 3))]
            # lateral padding / taper asked by the caller: more traces than some groups hold, as many, fewer, none; taper left to its default or given
            pad = int(rng.choice([0, 0, 10, 30, 60]))
            tap = [None, None, 0, 5][int(rng.integers(0, 4))]
            pkw = {} if pad == 0 and tap is None else {"ntr_pad": pad, "ntr_tap": tap}
            if pkw:
                res.count("fk_grouped_with_padding")
            try:
                y = V.fk(x.copy(), si=si, dx=20e-6, vbounds=vb, btype=btype, lagc=lg, collection=g, kfilt=kfl, **pkw)
                sep = np.zeros_like(x)
                for v in groups:
                    sep[g == v] = V.fk(x[g == v].copy(), si=si, dx=20e-6, vbounds=vb, btype=btype, lagc=lg, kfilt=kfl, **pkw)
                e = np.max(np.abs(y - sep)) / max(np.max(np.abs(sep)), 1e-300)
                key = "fk:grouped-differs"
                if btype != "highpass":
                    key = "fk:grouped-ignores-btype"
                elif kfl is not None:
                    key = "fk:grouped-ignores-kfilt"
                if pkw:
                    key = "fk:grouped-padding"
                res.check(e <= 1e-9, key, f"{label}: grouped fk(btype={btype}, kfilt={kfl}, lagc={lg}, {pkw}) differs from per-group calls by {e:.3g}", counter="group_equals_separate")
            except Exception as e:
                res.exception("fk:exception", e, f"{label} btype={btype}")
            sigs.add(("groups", nc, ng))
    elif cls == "adc-table":
        # the ADC delay table for recordings that do not hold 384 channels (legacy 276-channel exports, saved subsets): a channel's
        # delay depends on its number and the generation only - judged against the wiring rule written out here (round 19)
        import neuropixel
        import spikeglx
        for ver, per, ncyc in ((1, 12, 13), ("NPultra", 12, 13), (2, 16, 16), (2.1, 16, 16), (2.4, 16, 16)):
            for nc in [276, 301, 384, 96, 192] + [int(v) for v in rng.integers(1, 385, 4)]:
                k = np.arange(nc)
                want_adc = (k // (2 * per)) * 2 + k % 2
                want_ss = ((k // 2) % per) / ncyc
                try:
                    ss, adc = neuropixel.adc_shifts(version=ver, nc=nc)
                    res.check(np.shape(ss) == (nc,) and np.allclose(ss, want_ss, atol=1e-12) and np.array_equal(np.asarray(adc, dtype=int), want_adc), "adc-table:channel-count",
                              f"adc_shifts(version={ver!r}, nc={nc}): delays / ADC numbers are not those of channels 0..{nc - 1} "
                              f"(first difference at channel {int(np.argmax(~np.isclose(ss, want_ss))) if np.shape(ss) == (nc,) else '?'})", counter="adc_tables_checked")
                except Exception as e:
                    res.exception("adc-table:exception", e, f"adc_shifts({ver!r}, {nc})")
        # and through a header: a 276-channel legacy recording read from its metadata
        try:
            from vlib import gen_meta as G
            rec = G.make(rng, "3A", n=276, ns=10)
        except Exception:
            rec = None
        if rec is not None:
            try:
                import tempfile
                with tempfile.TemporaryDirectory() as td:
                    mf = Path(td) / "legacy_g0_t0.imec.ap.meta"
                    mf.write_text(rec.meta_text)
                    h = spikeglx.geometry_from_meta(spikeglx.read_meta_data(mf))
                res.count("adc_tables_checked")
                k = np.arange(276)
                res.check(np.allclose(h["sample_shift"], ((k // 2) % 12) / 13, atol=1e-12), "adc-table:channel-count", "geometry_from_meta of a 276-channel 3A header: delays are not those of channels 0..275")
            except Exception as e:
                res.exception("adc-table:exception", e, "276-channel 3A header")
        sigs.add("adc-table")
    elif cls == "agc":
        for _ in range(case["n"]):
            nc = int(rng.integers(1, 40))
            # pick ns so that ns + window pads to an odd FFT size in a fair share of the cases
            nsw_half = int(rng.integers(1, 60))
            ns_win = 2 * nsw_half + 1
            tgt = int(rng.choice([81, 243, 729, 128, 256, 144, 0]))
            ns = max(ns_win + 1, tgt - ns_win - int(rng.integers(0, 3))) if tgt else int(rng.integers(ns_win + 1, 1500))
            dt = np.float64 if rng.random() < 0.6 else np.float32
            x = (rng.standard_normal((nc, ns)) * 10 ** rng.uniform(-6, 0)).astype(dt)
            if nc > 2 and rng.random() < 0.4:
                x[int(rng.integers(0, nc))] = 0           # dead channel
            si = float(rng.choice([1.0, 0.002, 1 / 30000]))
            wl = ns_win * si * 0.999
            x0 = x.copy()
            pad = int(F.ns_optim_fft(ns + ns_win))
            label = f"agc nc={nc} ns={ns} window={ns_win} padded={pad} {np.dtype(dt).name}"
            try:
                out, gain = V.agc(x, wl=wl, si=si)
                res.check(out.shape == x0.shape and gain.shape == x0.shape, "agc:shape", f"{label}: shapes {out.shape} {gain.shape}")
                prod = out.astype(np.float64) * gain.astype(np.float64)
                scale = np.max(np.abs(x0)) + 1e-300
                e = np.max(np.abs(prod - x0)) / scale
                res.measure("max_agc_product_error", e)
                res.check(e <= (1e-6 if dt == np.float64 else 1e-4), "agc:product" + (":odd-padded-size" if pad % 2 else ""),
                          f"{label}: data x gain differs from the input by {e:.3g}", counter="agc_products")
                res.check(np.all(gain >= 0), "agc:negative-gain", f"{label}: negative gain")
                sigs.add(("agc", ns_win, pad % 2, np.dtype(dt).name))
            except Exception as e:
                res.exception("agc:exception", e, label)
    res.sig = f"{cls}-{case.get('kind', '')}-{case.get('k_filter', '')}-{case['seed']}"
    res.nontrivial = len(sigs) > 0
    res.nt = len(sigs)
    return res
