"""C11 Truncated or inconsistent files open and expose exactly the complete samples.

Monitor: truncation-point enumerator around spikeglx.Reader / OnlineReader construction: for a written
recording every number of trailing bytes of an incomplete last frame is produced (a prefix of the writer's byte
stream), with metadata claiming fewer / equal / more samples, and the constructed reader is judged against the
floor(bytes / frame) prefix model.
"""
import numpy as np

from vlib import gen_meta as G
from vlib.result import Result, rng_for, scratch

PROPERTY = "C11"
LEVEL = "fault_enumeration"
RULE = ("fault space = truncation points of the writer: frame sizes 2*nc for nc in {2,5,97,277,385} x whole frames in {1,2,22,1000} x every "
        "trailing byte count 0..frame-1 (all of them for nc<=97 in quick, 40 stratified incl. frame/2 +-1 for 277/385; all in thorough) x "
        "metadata claiming fewer / equal / more samples / still-acquiring (online reader) x integer and fractional sampling rates x Reader "
        "and OnlineReader, plus compressed streams shorter than announced, plus readers instantiated with open=False whose file grows / shrinks before open(), plus long recordings (1e5..3e5 frames, bin and cbin) whose metadata is off by 1..3 frames, plus files of 4-byte and 1-byte samples read with the matching dtype. Non-trivial: trailing bytes > 0 or metadata claim != content; "
        "distinct = distinct (nc, frames, trailing, claim, fs, reader class)")
ASSUMPTIONS = ["truncation = a prefix of the byte stream the writer would have produced", "at least one complete frame is present",
               "still-acquiring metadata (no fileTimeSecs / fileSizeBytes yet) is only given to OnlineReader, the class meant for it"]
REQUIRED = {"module_level_reads": 100, "strict_diagnostic_policy_opens": 200, "constructions": 400, "resaved_headers": 60, "prefix_values_checked": 400, "half_frame_or_more": 100, "beyond_end_reads": 400, "cbin_short": 2, "deferred_opens": 60, "reopens_after_growth": 100, "metadata_without_size_field": 100, "online_live_sizes": 20, "long_off_by_few": 6, "other_sample_widths": 40, "headers_announcing_zero": 40}
CASE_TIMEOUT = 400.0
NCS = [2, 5, 97, 277, 385]
FRAMES = [1, 2, 22, 1000]


def EXHAUSTIVE(tier):
    return "every trailing byte count 0..frame-1 for all five frame sizes" if tier == "thorough" else False


def gen_cases(seed, tier):
    cases = []
    for nc in NCS:
        frame = 2 * nc
        if tier == "thorough" or nc <= 97:
            trail = list(range(frame))
        else:
            rng = np.random.default_rng(seed + nc)
            trail = sorted(set([0, 1, 2, 3, frame // 2 - 2, frame // 2 - 1, frame // 2, frame // 2 + 1, frame // 2 + 2, frame - 3, frame - 2, frame - 1] +
                               [int(v) for v in rng.integers(0, frame, 28)]))
        for fr in FRAMES:
            k = 8 if tier == "thorough" else 2
            for part in range(k):
                sub = trail[part::k]
                if sub:
                    cases.append({"cls": "truncate", "nc": nc, "frames": fr, "trailing": sub, "seed": seed, "_w": len(sub) * (1 + nc / 100) / 60})
    for i in range(6 if tier == "quick" else 40):
        cases.append({"cls": "cbin-short", "seed": seed * 100 + i, "_w": 2})
    for i in range(12 if tier == "quick" else 120):
        cases.append({"cls": "deferred", "seed": seed * 100 + i, "_w": 1})
    for i in range(6 if tier == "quick" else 60):
        cases.append({"cls": "other-sample-width", "seed": seed * 100 + i, "_w": 1})
    for i in range(8 if tier == "quick" else 60):
        cases.append({"cls": "long-off-by-few", "seed": seed * 100 + i, "form": ["bin", "cbin"][i % 2], "_w": 3})
    return cases


class _diagnostics:
    """strict=True: warnings are errors and logging is on (records go to a null handler) for the duration of the block; restored afterwards"""

    def __init__(self, strict):
        self.strict = strict

    def __enter__(self):
        if self.strict:
            import logging
            import warnings
            self._cw = warnings.catch_warnings()
            self._cw.__enter__()
            warnings.simplefilter("error")
            self._disabled = logging.root.manager.disable
            logging.disable(logging.NOTSET)
            self._h = logging.NullHandler()
            self._lg = logging.getLogger("ibllib")
            self._lvl = self._lg.level
            self._lg.addHandler(self._h)
            self._lg.setLevel(logging.DEBUG)
        return self

    def __exit__(self, *a):
        if self.strict:
            import logging
            self._lg.removeHandler(self._h)
            self._lg.setLevel(self._lvl)
            logging.disable(self._disabled)
            self._cw.__exit__(*a)
        return False


def in_progress(text):
    return "".join(ln + "\n" for ln in text.splitlines() if not ln.startswith(("fileTimeSecs", "fileSizeBytes", "fileSHA1")))


def judge(res, sr, raw, s2v, nwhole, label, keyp):
    """reader state vs the floor(bytes/frame) prefix model"""
    nc = raw.shape[1]
    ok = res.check(sr.ns == nwhole, keyp + ":ns", f"{label}: ns={sr.ns}, complete frames present={nwhole}")
    res.check(sr.shape == (nwhole, nc), keyp + ":shape", f"{label}: shape {sr.shape} expected {(nwhole, nc)}")
    res.check(int(round(sr.rl * sr.fs)) == sr.ns and abs(sr.rl - nwhole / sr.fs) <= 1e-9 * max(1.0, nwhole / sr.fs), keyp + ":duration",
              f"{label}: duration {sr.rl} s does not match {nwhole} samples at {sr.fs} Hz")
    try:
        full = sr[:]
        exp = raw[:nwhole].astype(np.float64) * s2v[None, :]
        good = full.shape == exp.shape and np.allclose(full, exp, rtol=2.0 ** -22, atol=0)
        res.check(good, keyp + ":values", f"{label}: sr[:] shape {full.shape} is not the calibrated prefix of the file {exp.shape}",
                  counter="prefix_values_checked")
        if ok:
            last = sr[nwhole - 1]
            res.check(np.allclose(last, exp[-1], rtol=2.0 ** -22, atol=0), keyp + ":last-sample", f"{label}: last complete sample not readable")
            beyond = sr[nwhole:nwhole + 5]
            res.check(beyond.shape[0] == 0, keyp + ":beyond-end", f"{label}: reading past the end returned {beyond.shape[0]} samples",
                      counter="beyond_end_reads")
            part = sr[max(0, nwhole - 3):nwhole + 3, :]
            res.check(part.shape[0] == min(3, nwhole), keyp + ":straddle-end", f"{label}: slice straddling the end returned {part.shape[0]} rows")
    except Exception as e:
        res.exception(keyp + ":read-exception", e, label)


def run_case(case):
    import spikeglx
    res = Result()
    rng = rng_for(case)
    d = scratch()
    nt = 0
    if case["cls"] == "truncate":
        nc, frames = case["nc"], case["frames"]
        frame = 2 * nc
        n = nc - 1
        kind = "3B2" if nc != 385 or rng.random() < 0.5 else "NP2.4"
        for trailing in case["trailing"]:
            for fs in (30000.0, 30000.390639481):
                claim = str(rng.choice(["equal", "fewer", "more", "more-fraction"]))
                if trailing == case["trailing"][-1] or rng.random() < 0.1:
                    claim = "zero"              # header written when the acquisition started and never finalised: zero bytes, zero seconds (round 20)
                    res.count("headers_announcing_zero")
                if claim == "zero":
                    claim_ns = 0
                elif claim == "equal":
                    claim_ns = frames
                elif claim == "fewer":
                    claim_ns = max(1, frames - int(rng.integers(1, 6))) if frames > 1 else 1
                elif claim == "more":
                    claim_ns = frames + int(rng.integers(1, 2000))
                else:
                    claim_ns = frames + 1
                rec = G.make(rng, kind=kind, sites=G.draw_sites(rng, kind, n, "dense"), ns=frames + 1, fs=fs, claim_ns=claim_ns, content="random")
                s2v = rec.s2v
                data = rec.raw.tobytes()[: frames * frame + trailing]
                b = d / "t.ap.bin"
                b.write_bytes(data)
                for cls_name in ("Reader", "OnlineReader", "OnlineReader-acquiring", "Reader-no-size-field"):
                    text = rec.meta_text if cls_name != "OnlineReader-acquiring" else in_progress(rec.meta_text)
                    if cls_name == "Reader-no-size-field":
                        # metadata that give the duration but not the size in bytes (converted / hand-written / stripped headers)
                        text = "".join(ln + "\n" for ln in rec.meta_text.splitlines() if not ln.startswith(("fileSizeBytes", "fileSHA1")))
                        res.count("metadata_without_size_field")
                    b.with_suffix(".meta").write_text(text)
                    label = f"{cls_name} nc={nc} frames={frames} trailing={trailing}B claim={claim}({claim_ns}) fs={fs}"
                    keyp = "online" if cls_name.startswith("Online") else "reader"
                    if cls_name == "Reader" and 2 * trailing >= frame:
                        keyp = "reader:half-trailing-frame"
                    if cls_name == "OnlineReader-acquiring" and trailing > 0:
                        keyp = "online:acquiring-meta-trailing-bytes"
                    if 2 * trailing >= frame:
                        res.count("half_frame_or_more")
                    # ambient diagnostic policy (round 21): the worker runs with warnings ignored and logging disabled; every other file is opened and
                    # read the way a strict caller runs things - warnings promoted to errors (python -W error, pytest -W error), logging enabled down
                    # to DEBUG into a handler.  What the reader SAYS about a mismatch must not decide whether it opens.
                    strict = (case["trailing"].index(trailing) + int(fs > 30000.1)) % 2 == 1
                    with _diagnostics(strict):
                        if strict:
                            label += " [warnings=error, logging on]"
                            res.count("strict_diagnostic_policy_opens")
                        try:
                            R = spikeglx.Reader if cls_name.startswith("Reader") else spikeglx.OnlineReader
                            sr = R(b, sort=False, ignore_warnings=bool(rng.integers(0, 2)) if cls_name != "OnlineReader-acquiring" else False)
                            res.count("constructions")
                        except Exception as e:
                            res.count("constructions")
                            res.exception(keyp + ":open-exception" + (":strict-diagnostics" if strict else ""), e, label)
                            continue
                        judge(res, sr, rec.raw, s2v, frames, label, keyp)
                        sr.close()
                    if trailing > 0 or claim != "equal":
                        nt += 1
                # round 22: the same file through the module-level convenience call spikeglx.read(file, first, last) -> (data, sync, metadata): the frames
                # physically present, and metadata whose duration matches them
                if fs == 30000.0:
                    b.with_suffix(".meta").write_text(rec.meta_text)
                    label = f"spikeglx.read nc={nc} frames={frames} trailing={trailing}B claim={claim}({claim_ns})"
                    try:
                        D, sy, md = spikeglx.read(b, first_sample=0, last_sample=frames + 7)
                        res.count("module_level_reads")
                        o_ = np.asarray(rec.order, int)[:n]
                        expd = rec.raw[:frames, o_].astype(np.float64) * s2v[o_][None, :]
                        res.check(D.shape == (frames, nc) and np.allclose(D[:, :n], expd, rtol=2.0 ** -22, atol=0), "read-function:values",
                                  f"{label}: data {D.shape} is not the calibrated prefix of the file ({frames} frames)")
                        res.check(np.shape(sy)[0] == frames, "read-function:sync-rows", f"{label}: {np.shape(sy)[0]} sync rows for {frames} frames")
                        dur = float(md["fileTimeSecs"])
                        res.check(int(round(dur * float(md["imSampRate"]))) == frames, "read-function:duration",
                                  f"{label}: the metadata returned next to {frames} frames report {dur} s = {dur * float(md['imSampRate']):.2f} samples")
                    except Exception as e:
                        res.exception("read-function:exception", e, label)
                # headers that went through the library's own writer (converted / split / re-saved recordings), announcing one or two
                # frames - durations far below a millisecond - next to a binary of another length (round 19)
                if trailing in case["trailing"][:3]:
                    for claim2 in (1, 2, max(1, frames - 1)):
                        rec2 = G.make(rng, kind=kind, sites=rec.sites, ns=frames + 1, fs=fs, claim_ns=claim2, content="random", raw=rec.raw)
                        label = f"Reader, header re-saved with write_meta_data, nc={nc} frames={frames} trailing={trailing}B claim={claim2} fs={fs}"
                        try:
                            tmpm = d / "src.ap.meta"
                            tmpm.write_text(rec2.meta_text)
                            spikeglx.write_meta_data(spikeglx.read_meta_data(tmpm), b.with_suffix(".meta"))
                            tmpm.unlink()
                            sr = spikeglx.Reader(b, sort=False, ignore_warnings=bool(rng.integers(0, 2)))
                            res.count("constructions")
                            res.count("resaved_headers")
                        except Exception as e:
                            res.exception("reader:resaved-header:open-exception", e, label)
                            continue
                        judge(res, sr, rec.raw, s2v, frames, label, "reader:resaved-header")
                        sr.close()
        res.sig = f"truncate-{nc}-{frames}-{case['trailing'][0]}"
    elif case["cls"] == "deferred":
        # the reader is instantiated with open=False, the file keeps changing (recording / copy in progress), then it is opened:
        # "opening" is judged against the bytes present when open() runs
        for j in range(12):
            nc = int(rng.choice([2, 5, 97, 385]))
            frame = 2 * nc
            kind = "3B2"
            claim_ns = int(rng.integers(2, 60))
            a_frames = claim_ns if rng.random() < 0.5 else int(rng.integers(1, 80))         # consistent or not when instantiated
            a_trail = 0 if rng.random() < 0.5 else int(rng.integers(0, frame))
            b_frames = int(rng.integers(1, 80))
            b_trail = 0 if rng.random() < 0.4 else int(rng.integers(0, frame))
            rec = G.make(rng, kind=kind, sites=G.draw_sites(rng, kind, nc - 1, "dense"), ns=161, claim_ns=claim_ns, content="random")
            by = rec.raw.tobytes()
            b = d / "t.ap.bin"
            b.write_bytes(by[: a_frames * frame + a_trail])
            b.with_suffix(".meta").write_text(rec.meta_text)
            how = str(rng.choice(["open", "with"]))
            label = (f"{'OnlineReader' if j % 3 == 2 else 'Reader'} deferred open ({how}) nc={nc} claim={claim_ns} at instantiation {a_frames} frames+{a_trail}B, at open {b_frames} frames+{b_trail}B")
            keyp = "deferred-open:" + ("grown" if (b_frames, b_trail) > (a_frames, a_trail) else "shrunk" if (b_frames, b_trail) < (a_frames, a_trail) else "same")
            try:
                R = spikeglx.OnlineReader if j % 3 == 2 else spikeglx.Reader
                sr = R(b, open=False, sort=False, ignore_warnings=bool(rng.integers(0, 2)))
                b.write_bytes(by[: b_frames * frame + b_trail])
                if how == "open":
                    sr.open()
                else:
                    sr.__enter__()
                res.count("constructions")
                res.count("deferred_opens")
            except Exception as e:
                res.count("constructions")
                res.exception(keyp + ":open-exception", e, label)
                continue
            judge(res, sr, rec.raw, rec.s2v, b_frames, label, keyp)
            # the recording is still in progress: the writer appends (again ending mid-frame or not) and the SAME reader object is opened again -
            # directly, or after close(); each opening exposes the complete frames present when it runs
            for step in range(2):
                c_frames = b_frames + int(rng.integers(1, 40))
                c_trail = 0 if rng.random() < 0.4 else int(rng.integers(0, frame))
                with open(b, "ab") as fo:           # appended, as a writer does (the bytes already there are never touched)
                    fo.write(by[b.stat().st_size: c_frames * frame + c_trail])
                if isinstance(sr, spikeglx.OnlineReader):
                    # an online reader follows the recording while it stays open: its sample count, shape and duration are those of the file NOW
                    res.check(sr.ns == c_frames and sr.shape == (c_frames, nc) and abs(sr.rl - c_frames / sr.fs) <= 1e-9 * max(1.0, c_frames / sr.fs), "online:live-size",
                              f"{label}; the file grew to {c_frames} frames+{c_trail}B while the online reader stayed open: ns={sr.ns} shape={sr.shape} rl={sr.rl}", counter="online_live_sizes")
                how2 = ("open-again", "close-then-open")[(j + step) % 2]
                label2 = f"{label}; then the file grew to {c_frames} frames+{c_trail}B and the reader was re-opened ({how2})"
                try:
                    if how2 == "close-then-open":
                        sr.close()
                    sr.open()
                    res.count("reopens_after_growth")
                except Exception as e:
                    res.exception(f"reopen:{how2}:open-exception", e, label2)
                    break
                judge(res, sr, rec.raw, rec.s2v, c_frames, label2, f"reopen:{how2}")
                b_frames = c_frames
            sr.close()
            nt += 1
        res.sig = f"deferred-{case['seed']}"
    elif case["cls"] == "other-sample-width":
        # "bytes per sample" need not be 2: the same writer streaming float32 (4 bytes) or int8 / uint8 (1 byte) samples, read with the matching dtype
        for j in range(10):
            dt = np.dtype([np.float32, np.float32, np.int32, np.int8][int(rng.integers(0, 4))])
            nc = int(rng.choice([2, 5, 97]))
            frames = int(rng.choice([1, 2, 22, 300]))
            frame = dt.itemsize * nc
            trailing = int(rng.choice([0, 1, frame // 2, frame - 1, int(rng.integers(0, frame))]))
            claim_ns = int(rng.choice([frames, max(1, frames - 3), frames + 7, 2 * frames, max(1, frames // 2)]))
            fs = float(rng.choice([30000.0, 30000.390639481]))
            rec = G.make(rng, kind="3B2", sites=G.draw_sites(rng, "3B2", nc - 1, "dense"), ns=frames + 1, fs=fs, claim_ns=claim_ns, content="random")
            data = (rng.standard_normal((frames + 1, nc)) * 100).astype(dt) if dt.kind == "f" else rng.integers(-100, 100, (frames + 1, nc)).astype(dt)
            b = d / "t.ap.bin"
            b.write_bytes(data.tobytes()[: frames * frame + trailing])
            for cls_name in ("Reader", "OnlineReader"):
                b.with_suffix(".meta").write_text(rec.meta_text)
                label = f"{cls_name} dtype={dt.name} nc={nc} frames={frames} trailing={trailing}B claim={claim_ns} fs={fs}"
                keyp = "sample-width:" + ("online" if cls_name == "OnlineReader" else "reader")
                try:
                    R = spikeglx.Reader if cls_name == "Reader" else spikeglx.OnlineReader
                    sr = R(b, sort=False, dtype=dt, ignore_warnings=bool(rng.integers(0, 2)))
                    res.count("constructions")
                except Exception as e:
                    res.count("constructions")
                    res.exception(keyp + ":open-exception", e, label)
                    continue
                judge(res, sr, data, rec.s2v, frames, label, keyp)
                res.count("other_sample_widths")
                sr.close()
                nt += 1
        res.sig = f"width-{case['seed']}"
    elif case["cls"] == "long-off-by-few":
        # long recordings whose metadata is off by a handful of frames: the disagreement is tiny RELATIVE to the length (1e-5 and below)
        kind = str(rng.choice(["3B2", "NP2.1"]))
        n = int(rng.choice([1, 1, 3]))
        ns_real = int(rng.integers(100_000, 320_000))
        delta = int(rng.choice([-3, -2, -1, 1, 2, 3]))
        fs = float(rng.choice([30000.0, 30000.390639481, 2500.0]))
        ch_rate = None
        if case["form"] == "cbin":      # (metadata rate, rate written into the compression header), cycling over the cases of a run
            fs, ch_rate = [(30000.390639481, 30000.0), (30000.0, 30000.0), (2500.0325532900833, 2500.0), (30000.390639481, 30000.390639481)][(case["seed"] // 2) % 4]
        rec = G.make(rng, kind=kind, sites=G.draw_sites(rng, kind, n, "dense"), ns=ns_real, fs=fs, claim_ns=ns_real + delta, content="random")
        b = G.write(rec, d)
        form = case["form"]
        label = f"{form} with {ns_real} frames of {rec.nc} channels, metadata announces {ns_real + delta} (relative disagreement {abs(delta) / ns_real:.1e}) fs={fs}"
        try:
            if form == "cbin":
                import mtscomp
                # the compression header carries its own sampling rate: the calibrated one of the metadata, or the nominal one (compressed with the
                # stand-alone tool); the recording's rate is the metadata's
                label += f" (.ch sample_rate {ch_rate})"
                mtscomp.compress(b, out=b.with_suffix(".cbin"), outmeta=b.with_suffix(".ch"), sample_rate=ch_rate, n_channels=rec.nc, dtype=np.int16,
                                 chunk_duration=1.0, check_after_compress=False, n_threads=2)
                b.unlink()
                b = b.with_suffix(".cbin")
            readers = ["Reader"] if form == "cbin" else ["Reader", "OnlineReader"]
            for cls_name in readers:
                R = spikeglx.Reader if cls_name == "Reader" else spikeglx.OnlineReader
                try:
                    sr = R(b, sort=False, ignore_warnings=bool(rng.integers(0, 2)))
                    res.count("constructions")
                except Exception as e:
                    res.count("constructions")
                    res.exception(f"long-off-by-few:{form}:open-exception", e, f"{cls_name} {label}")
                    continue
                judge(res, sr, rec.raw, rec.s2v, ns_real, f"{cls_name} {label}", f"long-off-by-few:{form}")
                res.count("long_off_by_few")
                sr.close()
                nt += 1
        except Exception as e:
            res.exception(f"long-off-by-few:{form}:exception", e, label)
        res.sig = f"long-{case['seed']}-{form}"
    else:
        # compressed stream shorter than the metadata announces
        kind = str(rng.choice(["3B2", "NP2.1"]))
        n = int(rng.choice([384, 40]))
        ns_real = int(rng.integers(50, 800))
        claim = ns_real + int(rng.integers(1, 5000)) if rng.random() < 0.7 else max(1, ns_real - int(rng.integers(1, 40)))      # shorter (or longer) than announced
        rec = G.make(rng, kind=kind, sites=G.draw_sites(rng, kind, n, "dense"), ns=ns_real, content="random")
        b = G.write(rec, d)
        try:
            sr = spikeglx.Reader(b)
            sr.compress_file(keep_original=False, chunk_duration=0.004)
            sr.close()
            rec2 = G.make(rng, kind=kind, sites=rec.sites, ns=ns_real, claim_ns=claim, raw=rec.raw)
            b.with_suffix(".meta").write_text(rec2.meta_text)
            label = f"cbin with {ns_real} samples, metadata announces {claim}"
            sr = spikeglx.Reader(b.with_suffix(".cbin"), sort=False, ignore_warnings=bool(rng.integers(0, 2)))
            res.count("constructions")
            res.count("cbin_short")
            judge(res, sr, rec.raw, rec.s2v, ns_real, label, "cbin-short")
            sr.close()
            nt += 1
        except Exception as e:
            res.exception("cbin-short:exception", e, f"{kind} n={n}")
        res.sig = f"cbin-short-{case['seed']}"
    res.nontrivial = nt > 0
    res.nt = nt
    return res
