"""C09 Metadata parsing, derived acquisition parameters and writing round-trip.

Monitors: round-trip monitor on spikeglx.read_meta_data / write_meta_data over grammar-generated files (the
generator keeps what it serialised); derived-quantity monitor on spikeglx.Reader for files produced by the
SpikeGLX writer model; the shipped fixture metas are re-read with an independent mini-parser as a cross-check
of that model.
"""
import re
from pathlib import Path

import numpy as np

from vlib import gen_meta as G
from vlib.result import Result, rng_for, scratch

PROPERTY = "C09"
LEVEL = "exploration"
RULE = ("grammar-generated metadata files (string values with '=', spaces, >=2 dots, signs, colons; integer / decimal scalars incl. very "
        "small and very large; integer lists; tilde keys; empty values) for the round trip; writer-model files over {3A,3B1,3B2,NP2.1 "
        "(21,1030),NP2.4 (24,2013),NPultra,nidq} x AP/LF x independent per-channel IMRO gain pairs x saved-channel counts x range/max-int "
        "pairs x integer/fractional rates for derived quantities. Non-trivial: AP gain != LF gain on a channel, or channel subset < 384, "
        "or >= 1 tilde key; distinct = distinct (kind, stream, n, gains-hash, fs, range) / distinct generated file")
ASSUMPTIONS = ["only in-grammar files: every line has '=', numeric values are canonical decimals or integer lists (no trailing commas, "
               "no float lists)", "float32 precision of the conversion vector (rtol 1e-6)"]
REQUIRED = {"uuid_tagged_stream_files": 10, "roundtrip_files": 50, "values_checked": 500, "derived_files": 30, "s2v_checked": 30, "fixtures_checked": 10, "nidq_3a_run_headers": 5}
CASE_TIMEOUT = 60.0


def gen_cases(seed, tier):
    n = 100 if tier == "quick" else 10000
    cases = [{"cls": "roundtrip", "seed": seed * 1000 + i, "n": 20, "_w": 1} for i in range(n)]
    cases += [{"cls": "derived", "seed": seed * 1000 + i, "n": 8, "_w": 2} for i in range(n)]
    cases += [{"cls": "fixtures", "seed": seed, "_w": 2}]
    return cases


WORDS = ["Immediate", "true", "false", "imec", "NP2_QBSC_00\t", "D:/data/run_g0/run_g0_t0.imec0.ap.bin", "a=b", "k=v=w", "1.2.3",
         "-0.6", "+5", "0:383,768", "PXI1Slot2_1ch_Int : 30003.000300", "2019-08-15T17:37:20", "1e5", "0x1F", "all", " leading",
         "trailing ", "(0,384)(0 0 0 500 250 1)", "3.1.4.1", "1,2,x", "-1,-2", "NaN", "1 2 3", "é", "~tilde~inside"]


def gen_meta_file(rng):
    """returns (text, truth) where truth maps parsed key -> expected python value"""
    lines, truth = [], {}
    nk = int(rng.integers(3, 40))
    for i in range(nk):
        key = "k%d_%s" % (i, rng.choice(["im", "sns", "file", "ni", "sync"]))
        tilde = rng.random() < 0.15
        kind = rng.choice(["str", "int", "dec", "ilist", "empty", "small", "big", "zeros", "full", "flist"], p=[.26, .17, .12, .12, .05, .05, .05, .05, .08, .05])
        if kind == "str":
            v = str(rng.choice(WORDS))
            exp = v
        elif kind == "int":
            x = int(rng.integers(0, 10 ** int(rng.integers(1, 12))))
            v = str(x)
            exp = float(x)
        elif kind == "dec":
            a = int(rng.integers(0, 100000))
            b = "".join(rng.choice(list("0123456789"), int(rng.integers(1, 13))))
            v = f"{a}.{b}"
            exp = float(v)
        elif kind == "full":
            # a double written with all its digits (durations, sampling rates: 824.4640643928594, 0.03333333333333333, ...)
            xv = float(rng.random() * 10.0 ** float(rng.integers(-7, 4)))
            v = repr(xv)
            if "e" in v:
                v = f"{xv:.40f}".rstrip("0")
            exp = float(v)
        elif kind == "small":
            v = "0." + "0" * int(rng.integers(4, 9)) + str(int(rng.integers(1, 99999)))
            exp = float(v)
        elif kind == "big":
            v = str(int(rng.integers(10 ** 15, 10 ** 18))) + (".5" if rng.random() < 0.3 else "")
            exp = float(v)
        elif kind == "zeros":
            v = str(rng.choice(["0", "0.0", "007", "10.50", "0,0,0", "00.25"]))
            exp = [float(t) for t in v.split(",")]
            exp = exp[0] if len(exp) == 1 else exp
        elif kind == "flist":
            # a list of numbers one of which carries decimals (a single decimal point in the whole value: the parser reads it as numbers)
            xs = [str(int(rng.integers(0, 1000))) for _ in range(int(rng.integers(2, 6)))]
            j = int(rng.integers(0, len(xs)))
            xs[j] = xs[j] + "." + "".join(rng.choice(list("0123456789"), int(rng.integers(1, 6)))).rstrip("0")
            xs[j] = xs[j].rstrip(".") if xs[j].endswith(".") else xs[j]
            v = ",".join(xs)
            exp = [float(t) for t in xs]
        elif kind == "ilist":
            xs = [int(rng.integers(0, 1000)) for _ in range(int(rng.integers(2, 6)))]
            v = ",".join(map(str, xs))
            exp = [float(t) for t in xs]
        else:
            v, exp = "", ""
        lines.append(f"{'~' if tilde else ''}{key}={v}")
        truth[key] = exp
    # the keys the parser itself interprets: keep them consistent and harmless
    typ = rng.choice(["3A", "3B", "NP2", "none"])
    if typ == "3A":
        lines.append("typeEnabled=imec")
        truth["typeEnabled"] = "imec"
        lines.append("imProbeSN=641251510")
        truth["imProbeSN"] = 641251510.0
    elif typ == "3B":
        lines += ["imDatPrb_type=0", "imDatPrb_sn=18005116811"]
        truth.update({"imDatPrb_type": 0.0, "imDatPrb_sn": 18005116811.0})
    elif typ == "NP2":
        lines += ["imDatPrb_type=24", "imDatPrb_sn=19011110513", "imDatPrb_port=1", "imDatPrb_slot=2"]
        truth.update({"imDatPrb_type": 24.0, "imDatPrb_sn": 19011110513.0, "imDatPrb_port": 1.0, "imDatPrb_slot": 2.0})
    order = rng.permutation(len(lines))
    text = "\n".join(lines[i] for i in order) + "\n"
    return text, truth, any(ln.startswith("~") for ln in lines)


def same(a, b):
    if isinstance(a, (list, tuple)) or isinstance(b, (list, tuple)):
        return isinstance(a, (list, tuple)) and isinstance(b, (list, tuple)) and len(a) == len(b) and all(same(x, y) for x, y in zip(a, b))
    if isinstance(a, float) and isinstance(b, float):
        return a == b
    return type(a) is type(b) and a == b if not (isinstance(a, (int, float)) and isinstance(b, (int, float))) else float(a) == float(b)


def mini_parse(text):
    d = {}
    for ln in text.splitlines():
        k, v = ln.split("=", 1)
        d[k.lstrip("~")] = v
    return d


def _eq(a, b):
    try:
        return bool(a == b) if not isinstance(a, (list, tuple)) else list(a) == list(b)
    except Exception:
        return False


def run_case(case):
    import spikeglx
    res = Result()
    rng = rng_for(case)
    cls = case["cls"]
    nt = 0
    d = scratch()
    if cls == "roundtrip":
        for j in range(case["n"]):
            text, truth, has_tilde = gen_meta_file(rng)
            f = d / f"m{j}.meta"
            f.write_text(text)
            try:
                m1 = spikeglx.read_meta_data(f)
                res.count("roundtrip_files")
                for k, exp in truth.items():
                    got = m1.get(k, "<missing>")
                    small = isinstance(exp, float) and 0 < abs(exp) < 1e-4
                    res.check(same(got, exp), "parse:value", f"key {k!r}: parsed {got!r}, serialised value means {exp!r}",
                              counter="values_checked")
                f2 = d / f"m{j}.w.meta"
                spikeglx.write_meta_data(m1, f2)
                m2 = spikeglx.read_meta_data(f2)
                bad = [k for k in set(m1) | set(m2) if not same(m1.get(k, "<missing>"), m2.get(k, "<missing>"))]
                if bad:
                    k = bad[0]
                    v = m1.get(k)
                    if isinstance(v, float) and (0 < abs(v) < 1e-4 or abs(v) >= 1e16):
                        key = "roundtrip:exponent-notation"
                    else:
                        key = "roundtrip:value"
                    res.violation(key, f"read(write(read(f))) != read(f) for key {k!r}: {m1.get(k)!r} -> {m2.get(k, '<missing>')!r}")
                res.count("oracle_evaluations")
                # third generation must be a fixed point byte for byte
                f3 = d / f"m{j}.w2.meta"
                spikeglx.write_meta_data(m2, f3)
                res.check(f3.read_text() == f2.read_text() or bool(bad), "roundtrip:not-idempotent", "write(read(write(..))) is not a fixed point")
                if has_tilde:
                    nt += 1
            except Exception as e:
                res.exception("roundtrip:exception", e, f"file:\n{text[:300]}")
        res.sig = f"roundtrip-{case['seed']}"
    elif cls == "derived":
        for j in range(case["n"]):
            k = str(rng.choice(G.KINDS + ["nidq", "NP2.1-1030", "NP2.4-2013"]))
            try:
                if k == "nidq":
                    rec = G.make_nidq(rng, mn=int(rng.integers(0, 9)), ma=int(rng.integers(0, 3)), xa=int(rng.integers(1, 4)), dw=int(rng.integers(0, 2)), acq="random",
                                      mn_gain=float(rng.choice([1, 200, 500])), ma_gain=float(rng.choice([1, 2, 10])),
                                      aimax=float(rng.choice([5, 10, 2.5])), fs=float(rng.choice([30003.0003, 25000, 62500.0])),
                                      ns=int(rng.integers(1, 10 ** 7)), raw=np.zeros((1, 1), np.int16), tilde=bool(rng.integers(0, 2)))
                    exp_ver, exp_major, exp_type = None, None, "nidq"
                    nontriv = rec.mn > 0 and rec.ma > 0
                else:
                    extra = {}
                    kind = k
                    if k == "NP2.1-1030":
                        kind, extra = "NP2.1", {"imDatPrb_type": 1030}
                    if k == "NP2.4-2013":
                        kind, extra = "NP2.4", {"imDatPrb_type": 2013}
                    np2 = kind.startswith("NP2")
                    stream = "ap" if rng.random() < (0.7 if np2 else 0.6) else "lf"      # NP2 LF-band files exist too (written by the shank converter)
                    n = int(rng.choice([384, 384, 383, 276, 301, 1, 32]))
                    if kind == "NPultra":
                        n = min(n, 384)
                    aimax, maxint = [(0.6, 512), (0.5, 8192), (0.62, 2048), (0.62, 8192), (0.6, 512)][int(rng.integers(0, 5))] if np2 else \
                        [(0.6, 512), (0.6, 512), (0.62, 2048)][int(rng.integers(0, 3))]
                    fs = float(rng.choice([30000.0, 30000.390639481, 29999.757983])) if stream == "ap" else float(rng.choice([2500.0, 2500.0325532900833]))
                    gains = G.random_gains(rng, "random" if rng.random() < 0.8 else "uniform")
                    rec = G.make(rng, kind=kind, stream=stream, sites=G.draw_sites(rng, kind, n, "dense"), gains=gains, fs=fs,
                                 nsync=int(rng.choice([1, 1, 1, 0])),       # streams saved without the SY channel exist too
                                 ns=int(rng.integers(1, 10 ** 8)), aimax=aimax, maxint=maxint,
                                 explicit_maxint=bool(rng.integers(0, 2)) if maxint == 512 else True, extra=extra,
                                 tilde=bool(rng.integers(0, 2)), raw=np.zeros((1, 1), np.int16),
                                 # OneBox ports start at 0; reduced / exported NP2 and NPultra headers may lack the two fields (a type-0 header without them IS a 3B1)
                                 port_slot=(None if (kind in ("NP2.1", "NP2.4", "NPultra") and rng.random() < 0.2) else (int(rng.choice([0, 1, 2, 4])), int(rng.choice([0, 2, 3, 21])))),
                                 encoding="shank" if kind == "NPultra" or rng.random() < 0.5 else "geom")
                    exp_ver, exp_major, exp_type = kind, G.major(kind), stream
                    nontriv = (not np2 and np.any(gains[:n, 0] != gains[:n, 1])) or n < 384
                f = d / f"d{j}.{rec.stream}.meta"
                text = rec.meta_text
                tdec = None
                if rng.random() < 0.5:
                    # the duration written with a limited number of decimals (rounded up or down): still within 0.3 sample of the true count
                    tdec = int(rng.integers(5, 9)) if rec.fs > 10000 else int(rng.integers(4, 8))
                    tsec = f"{round(rec.ns / rec.fs, tdec):.{tdec}f}".rstrip("0").rstrip(".")
                    text = "".join((f"fileTimeSecs={tsec}" if ln.startswith("fileTimeSecs=") else ln) + "\n" for ln in text.splitlines())
                    res.count("limited_precision_durations")
                f.write_text(text)
                # deriving quantities is read-only: the parsed dictionary is the same before and after, and writing it back still round-trips
                import copy as _copy
                md0 = spikeglx.read_meta_data(f)
                snap = _copy.deepcopy(dict(md0))
                for fn_name in ("_get_type_from_meta", "_get_sync_trace_indices_from_meta", "_get_nchannels_from_meta", "_get_fs_from_meta", "_get_neuropixel_version_from_meta",
                                "_get_neuropixel_major_version_from_meta", "_get_max_int_from_meta", "_conversion_sample2v_from_meta", "_get_analog_sync_trace_indices_from_meta",
                                "_get_nshanks_from_meta", "_get_serial_number_from_meta", "geometry_from_meta"):
                    try:
                        getattr(spikeglx, fn_name)(md0)
                    except Exception:
                        pass          # whether each helper applies to this stream is judged below through the Reader
                unchanged = set(md0) == set(snap) and all(_eq(md0[k2], snap[k2]) for k2 in snap)
                res.check(unchanged, "derived:metadata-mutated", f"{k}/{rec.stream}: deriving quantities changed the parsed metadata: keys added {sorted(set(md0) - set(snap))[:4]} "
                          f"changed {[k2 for k2 in snap if k2 in md0 and not _eq(md0[k2], snap[k2])][:4]}", counter="derived_readonly_checked")
                f2 = d / f"d{j}.rewritten.meta"
                spikeglx.write_meta_data(md0, f2)
                md1 = spikeglx.read_meta_data(f2)
                res.check(set(md1) == set(snap) and all(_eq(md1[k2], snap[k2]) for k2 in snap), "roundtrip:after-derived-calls",
                          f"{k}/{rec.stream}: parse -> derive -> write -> parse differs from the first parse (keys {sorted(set(md1) ^ set(snap))[:4]})")
                if k == "nidq":
                    # the nidq header of a run acquired together with a phase-3A probe carries the run-wide key typeEnabled=imec,nidq: still a nidq stream, its rate
                    # is niSampRate, its channel count nSavedChans (function level: such a header has no probe geometry to give a Reader)
                    md3a = type(md0)(md0)
                    md3a["typeEnabled"] = "imec,nidq"
                    try:
                        got3a = (spikeglx._get_type_from_meta(md3a), spikeglx._get_fs_from_meta(md3a), spikeglx._get_nchannels_from_meta(md3a))
                        res.check(got3a == ("nidq", rec.fs, rec.nc), "derived:nidq-in-3A-run", f"nidq header with typeEnabled=imec,nidq: (type, fs, nc) = {got3a}, expected ('nidq', {rec.fs}, {rec.nc})",
                                  counter="nidq_3a_run_headers")
                    except Exception as e:
                        res.exception("derived:nidq-in-3A-run:exception", e, "nidq header with typeEnabled=imec,nidq")
                sr = spikeglx.Reader(f)
                res.count("derived_files")
                lab = f"{k}/{rec.stream}/n={rec.nc}"
                res.check(sr.fs == rec.fs, "derived:fs", f"{lab}: fs {sr.fs} expected {rec.fs}")
                res.check(sr.nc == rec.nc, "derived:nc", f"{lab}: nc {sr.nc} expected {rec.nc}")
                res.check(sr.nsync == rec.nsync, "derived:nsync", f"{lab}: nsync {sr.nsync} expected {rec.nsync}")
                res.check(sr.ns == rec.ns, "derived:ns", f"{lab}: ns {sr.ns} expected {rec.ns} (fs={rec.fs}" + (f", duration written with {tdec} decimals)" if tdec else ")"))
                res.check(sr.type == exp_type, "derived:type", f"{lab}: type {sr.type} expected {exp_type}")
                res.check(sr.version == exp_ver, "derived:version", f"{lab}: version {sr.version} expected {exp_ver}")
                res.check(sr.major_version == exp_major, "derived:major_version", f"{lab}: major version {sr.major_version} expected {exp_major}")
                res.check(sr.shape == (rec.ns, rec.nc), "derived:shape", f"{lab}: shape {sr.shape}")
                res.check(abs(sr.rl - rec.ns / rec.fs) <= (1e-9 * max(1.0, rec.ns / rec.fs) if tdec is None else 0.6 * 10.0 ** -tdec), "derived:rl", f"{lab}: rl {sr.rl}")
                s2v = np.asarray(sr.sample2volts, float)
                ok = s2v.shape == (rec.nc,) and np.allclose(s2v, rec.s2v, rtol=1e-6, atol=0)
                res.check(ok, "derived:s2v", lambda: f"{lab}: sample2volts {s2v[:3]}.. expected {rec.s2v[:3]}.. "
                          f"(first bad channel {np.flatnonzero(~np.isclose(s2v, rec.s2v, rtol=1e-6, atol=0))[:3] if s2v.shape == rec.s2v.shape else s2v.shape})",
                          counter="s2v_checked")
                rv = np.asarray(sr.range_volts, float)
                res.check(rv.shape == (rec.nc,) and np.allclose(rv, rec.s2v * rec.maxint, rtol=1e-6, atol=0), "derived:range_volts",
                          f"{lab}: range_volts {rv[:3]} expected {(rec.s2v * rec.maxint)[:3]}")
                # the conversion dictionary carries the right vector under the stream's own key
                if rec.stream != "nidq":
                    other = "lf" if rec.stream == "ap" else "ap"
                    res.check(set(sr.channel_conversion_sample2v) >= {"ap", "lf"}, "derived:s2v-keys", "conversion dict lacks ap/lf")
                if nontriv:
                    nt += 1
            except Exception as e:
                res.exception("derived:exception", e, f"kind {k}")
        # round 23: the folder of one NP1 run as a data server stores it - AP, LF (and nidq) streams side by side, every file carrying its own dataset
        # uuid in its name, so that a binary and its header do NOT share their full name.  A Reader on each binary derives the quantities of ITS stream
        try:
            import uuid as _uuid
            kf = str(rng.choice(["3B2", "3A", "3B1"]))
            fold = d / "run-folder"
            fold.mkdir()
            gains = G.random_gains(rng)
            made = {}
            for stream in ("ap", "lf"):
                recs = G.make(rng, kind=kf, stream=stream, gains=gains, ns=int(rng.integers(30, 300)), content="random")
                stem = f"run_g0_t0.imec0.{stream}"
                b0 = G.write(recs, fold, name=stem)
                b1 = fold / f"{stem}.{_uuid.UUID(int=int(rng.integers(1, 2 ** 62)), version=4)}.bin"
                b0.rename(b1)
                (fold / f"{stem}.meta").rename(fold / f"{stem}.{_uuid.UUID(int=int(rng.integers(1, 2 ** 62)), version=4)}.meta")
                made[stream] = (b1, recs)
            for stream, (b1, recs) in made.items():
                lab = f"{kf} run folder with uuid-tagged ap and lf files: Reader({stream} binary)"
                srs = spikeglx.Reader(b1)
                s2v = np.asarray(srs.sample2volts, float)
                res.check(srs.type == stream and srs.fs == recs.fs and srs.ns == recs.ns and s2v.shape == (recs.nc,) and np.allclose(s2v, recs.s2v, rtol=1e-6, atol=0),
                          "derived:stream-of-uuid-tagged-file", f"{lab}: type {srs.type} fs {srs.fs} ns {srs.ns} (expected {stream}, {recs.fs}, {recs.ns}); volts per bit "
                          f"{'agree' if s2v.shape == (recs.nc,) and np.allclose(s2v, recs.s2v, rtol=1e-6, atol=0) else 'differ'} - header used: {Path(srs.file_meta_data).name}",
                          counter="uuid_tagged_stream_files")
                srs.close()
        except Exception as e:
            res.exception("derived:stream-of-uuid-tagged-file:exception", e, "run folder with uuid-tagged files")
        res.sig = f"derived-{case['seed']}"
    elif cls == "fixtures":
        import os
        fx = Path(os.environ.get("VERIF_REPO", "/repo")) / "src" / "tests" / "fixtures"
        for f in sorted(fx.glob("*.meta")):
            text = f.read_text()
            raw = mini_parse(text)
            try:
                sr = spikeglx.Reader(f)
                res.count("fixtures_checked")
                nc = int(raw["nSavedChans"])
                res.check(sr.nc == nc, "fixture:nc", f"{f.name}: nc {sr.nc} vs {nc}")
                if raw["typeThis"] == "imec":
                    fs = float(raw["imSampRate"])
                    a, l, s = [int(t) for t in raw["snsApLfSy"].split(",")]
                    typ = "ap" if a else "lf"
                    aimax = float(raw["imAiRangeMax"])
                    ptype = raw.get("imDatPrb_type")
                    np2 = ptype in ("21", "24", "1030", "2013")
                    maxint = int(raw.get("imMaxInt", 512))
                    ents = re.findall(r"\(([^()]*)\)", raw["imroTbl"])[1:]
                    n = a + l
                    if np2:
                        g = np.full(n, 80.0)
                    else:
                        g = np.array([float(e.split()[3 if typ == "ap" else 4]) for e in ents[:n]])
                    exp = np.r_[aimax / maxint / g, np.ones(s)]
                    res.check(sr.type == typ and sr.fs == fs and sr.nsync == s, "fixture:type-fs", f"{f.name}: type/fs/nsync {sr.type},{sr.fs},{sr.nsync}")
                    res.check(np.allclose(sr.sample2volts, exp, rtol=1e-6, atol=0), "fixture:s2v", f"{f.name}: sample2volts differs from an independent reading")
                    # the writer model reproduces the fixture's derived values when fed the same fields
                    ver = {"0": "3B2" if "imDatPrb_port" in raw else "3B1", "21": "NP2.1", "1030": "NP2.1", "24": "NP2.4", "2013": "NP2.4",
                           "1100": "NPultra", None: "3A"}[ptype]
                    res.check(sr.version == ver, "fixture:version", f"{f.name}: version {sr.version} expected {ver}")
                    if "fileTimeSecs" in raw:     # absent while SpikeGLX is still acquiring
                        ns = int(round(float(raw["fileTimeSecs"]) * fs))
                        res.check(sr.ns == ns, "fixture:ns", f"{f.name}: ns {sr.ns} vs {ns}")
                else:
                    mn, ma, xa, dw = [int(t) for t in raw["snsMnMaXaDw"].split(",")]
                    i2v = float(raw["niAiRangeMax"]) / 32768
                    exp = np.r_[np.full(mn, i2v / float(raw["niMNGain"])), np.full(ma, i2v / float(raw["niMAGain"])), np.full(xa, i2v), np.ones(dw)]
                    res.check(sr.type == "nidq" and np.allclose(sr.sample2volts, exp, rtol=1e-6), "fixture:nidq", f"{f.name}: nidq conversion differs")
                # round trip of a real file
                m1 = spikeglx.read_meta_data(f)
                f2 = d / (f.name + ".w")
                spikeglx.write_meta_data(m1, f2)
                m2 = spikeglx.read_meta_data(f2)
                bad = [k for k in set(m1) | set(m2) if not same(m1.get(k, "<missing>"), m2.get(k, "<missing>"))]
                res.check(not bad, "fixture:roundtrip", f"{f.name}: keys {bad[:4]} change in a read-write-read round trip", counter="roundtrip_files")
                nt += 1
            except Exception as e:
                res.exception("fixture:exception", e, f.name)
        res.sig = "fixtures"
    res.nontrivial = nt > 0
    res.nt = nt
    return res
