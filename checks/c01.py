"""C01 Reader returns calibrated voltages aligned with the probe geometry.

Monitor: boundary spy on spikeglx.Reader.__getitem__ / read / read_samples (every result of the generated
selector workload is intercepted) judged against a calibrated-array reference model built from the *generated*
metadata and raw matrix (never from the repository's parse).
"""
import numpy as np

from vlib import gen_meta as G
from vlib import selectors as S
from vlib.result import Result, rng_for, scratch

PROPERTY = "C01"
LEVEL = "exploration"
RULE = ("files from the SpikeGLX writer model: {3A,3B1,3B2,NP2.1,NP2.4,NPultra,nidq} x {shank,geom map} x random / sorted / interleaved "
        "site orders x independent per-channel gains x channel subsets x sorted/unsorted reader x bin/cbin (chunk seams inside the file) "
        "x full-range random int16 content; per file a seeded workload of (sample selector, channel selector) pairs: ints (+/-), slices "
        "with any start/stop/step incl. negative and out-of-range, empty slices, channel lists/arrays (unsorted, repeated, sync), sample "
        "lists/arrays on uncompressed files, []. Non-trivial file: non-identity channel permutation AND non-uniform gains AND "
        "non-constant data; distinct = distinct (kind, encoding, order mode, n, sort, container) signature")
ASSUMPTIONS = ["pairs of two index arrays are not generated (NumPy pairs them pointwise, the reader gathers orthogonally; the property "
               "names neither)", "values agree to float32 rounding of 'float32(raw) x factor': |got-exp| <= 2^-22 |exp|; sync exact",
               "mtscomp (dependency) is observed only through the reader"]
REQUIRED = {"getitem_calls": 300, "read_calls": 50, "values_compared": 300, "geometry_rows_checked": 20, "cbin_files": 3, "negstep_slices": 10, "lf_band_files": 10, "inconsistent_metadata_files": 10, "uuid_named_with_sibling_band": 10, "shank_files_read": 20, "numpy_integer_selectors": 100, "inplace_compressed_same_object": 20}
CASE_TIMEOUT = 60.0
RTOL = 2.0 ** -22


def gen_cases(seed, tier):
    nf = 400 if tier == "quick" else 30000
    npairs = 40 if tier == "quick" else 120
    return [{"cls": "file", "seed": seed * 100000 + i, "pairs": npairs, "_w": 1} for i in range(nf)]


def expected(cal, nsel, csel):
    a = cal[nsel]
    return a[..., csel]


def compare(res, got, exp, syncmask_cols, label, key):
    """got vs exp (float64 model); sync columns exact"""
    res.count("values_compared")
    if not isinstance(got, np.ndarray) and not np.isscalar(got):
        res.violation(key + ":type", f"{label}: returned {type(got).__name__}")
        return
    g = np.asarray(got)
    if g.shape != np.shape(exp):
        res.violation(key + ":shape", f"{label}: shape {g.shape}, NumPy indexing of the calibrated array gives {np.shape(exp)}")
        return
    if g.ndim >= 1 and g.dtype != np.float32:
        res.violation(key + ":dtype", f"{label}: dtype {g.dtype}, expected float32")
    elif g.ndim == 0 and not np.issubdtype(g.dtype, np.floating):
        res.violation(key + ":dtype", f"{label}: scalar dtype {g.dtype}")
    if g.size == 0:
        return
    e = np.asarray(exp, np.float64)
    err = np.abs(g.astype(np.float64) - e)
    bad = err > RTOL * np.abs(e)
    if np.any(bad):
        i = np.argwhere(bad)[0] if g.ndim else ()
        res.violation(key + ":value", f"{label}: value {g[tuple(i)] if g.ndim else g} expected {e[tuple(i)] if g.ndim else e} "
                      f"({int(bad.sum())} of {g.size} differ)")
        return
    if syncmask_cols is not None and np.any(syncmask_cols):
        sub_g = g[..., syncmask_cols] if g.ndim else g
        sub_e = e[..., syncmask_cols] if g.ndim else e
        if not np.array_equal(sub_g, sub_e):
            res.violation(key + ":sync-scaled", f"{label}: sync channel values are not the raw words")


def run_case(case):
    import spikeglx
    res = Result()
    rng = rng_for(case)
    d = scratch()
    kind = str(rng.choice(G.KINDS + ["nidq", "3A", "3B1", "3B2", "3B2"]))
    sort = bool(rng.integers(0, 2))
    cbin = rng.random() < 0.35
    ns = int(rng.integers(40, 1500))
    if kind == "nidq":
        rec = G.make_nidq(rng, mn=int(rng.integers(0, 5)), ma=int(rng.integers(0, 3)), xa=int(rng.integers(1, 4)), dw=1, acq="random",
                          mn_gain=float(rng.choice([1, 200, 500])), ma_gain=float(rng.choice([1, 2, 10])), aimax=float(rng.choice([5, 10, 2.5])), ns=ns)
        order = np.arange(rec.nc)
        mode, enc, n = "-", "-", rec.nc
        nontrivial = False
        geom_expected = False
    else:
        mode = str(rng.choice(["random", "interleaved", "sorted-random", "dense"]))
        n = int(rng.choice([384, 384, 384, 200, 33]))
        enc = "shank" if kind == "NPultra" else str(rng.choice(["shank", "geom"]))
        gains = G.random_gains(rng, "random" if rng.random() < 0.85 else "uniform")
        # NP1-family headers may declare their max-int too (and probes of that family with another ADC depth do)
        aimax, maxint = ((0.5, 8192), (0.62, 2048), (0.62, 8192), (0.6, 512))[int(rng.integers(0, 4))] if kind.startswith("NP2") else \
            ((0.6, 512), (0.6, 512), (0.6, 1024), (0.62, 2048))[int(rng.integers(0, 4))]
        stream = "lf" if rng.random() < 0.3 else "ap"          # the LF band of the same probes: its own gain column, the same sync word
        rec = G.make(rng, kind=kind, stream=stream, sites=G.draw_sites(rng, kind, n, mode), encoding=enc, gains=gains, ns=ns, aimax=aimax, maxint=maxint,
                     fs=float(rng.choice([30000.0, 30000.390639481])) if stream == "ap" else float(rng.choice([2500.0, 2500.0325])),
                     nsync=int(rng.choice([1, 1, 1, 1, 0])),
                     claim_ns=(max(1, ns + int(rng.choice([-1, 1])) * int(rng.choice([1, 7, 40, 1500]))) if rng.random() < 0.15 else None))
        if stream == "lf":
            res.count("lf_band_files")
        n = rec.n
        order = np.r_[rec.order if sort else np.arange(n), np.arange(n, rec.nc)]
        nontrivial = (not np.array_equal(order, np.arange(rec.nc))) and len(np.unique(rec.s2v[:n])) > 1
        geom_expected = True
    b = G.write(rec, d)
    uuid_named = kind != "nidq" and rng.random() < 0.2
    if uuid_named:
        # dataset-style names: every file carries its own UUID, and the OTHER band of the same run (other gains, other rate, other length) lies in the
        # same folder under its own UUID-tagged names - each binary is read with ITS band's metadata
        import uuid as _uuid
        u = [str(_uuid.UUID(bytes=rng.bytes(16), version=4)) for _ in range(4)]
        other = "lf" if rec.stream == "ap" else "ap"
        rec_o = G.make(rng, kind=kind, stream=other, sites=rec.sites, encoding=enc, gains=G.random_gains(rng), ns=int(rng.integers(20, 200)), aimax=aimax, maxint=maxint)
        bo = G.write(rec_o, d, name=f"run_g0_t0.imec0.{other}.{u[2]}")
        bo.with_suffix(".meta").rename(d / f"run_g0_t0.imec0.{other}.{u[3]}.meta")
        nb = d / f"run_g0_t0.imec0.{rec.stream}.{u[0]}.bin"
        b.rename(nb)
        b.with_suffix(".meta").rename(d / f"run_g0_t0.imec0.{rec.stream}.{u[1]}.meta")
        b = nb
        res.count("uuid_named_with_sibling_band")
    cal = rec.raw[:, order].astype(np.float64) * rec.s2v[order][None, :]
    syncmask = np.zeros(rec.nc, bool)
    syncmask[rec.nc - rec.nsync:] = True     # sync columns stay last under both orders
    label0 = f"{kind}/{getattr(rec, 'stream', 'nidq')}/{enc}/{mode}/n={n}/sort={sort}/{'cbin' if cbin else 'bin'}" + ("/UUID names, other band alongside" if uuid_named else "")
    seams = None
    # metadata announcing another length than the file holds (recording cut short / still growing): the recording is what the FILE holds, whether or
    # not the reader is asked to keep quiet about the disagreement
    rkw = {"sort": sort}
    claim = int(round(float(rec.meta.get("fileTimeSecs", 0)) * rec.fs)) if kind != "nidq" and "fileTimeSecs" in rec.meta else ns
    if kind != "nidq" and claim != ns:
        rkw["ignore_warnings"] = bool(rng.integers(0, 2))
        label0 += f"/metadata announces {claim} of {ns} samples, ignore_warnings={rkw['ignore_warnings']}"
        res.count("inconsistent_metadata_files")
    try:
        sr = spikeglx.Reader(b, **rkw)
        if cbin:
            cd = float(rng.choice([0.002, 0.005, 0.011]))
            sr.compress_file(keep_original=False, chunk_duration=cd)
            sr.close()
            sr = spikeglx.Reader(b.with_suffix(".cbin"), **rkw)
            seams = np.asarray(sr._raw.chunk_bounds[1:-1])
            res.count("cbin_files")
    except Exception as e:
        res.exception("reader:open-exception", e, label0)
        return res
    # -------- geometry alignment: entry i of the geometry describes returned column i
    if geom_expected:
        g = sr.geometry
        o = order[:n]
        for k, kk in (("x", "x"), ("y", "y"), ("shank", "shank"), ("row", "row"), ("col", "col_out")):
            res.check(np.array_equal(g[k], getattr(rec, kk)[o]), "geometry:alignment",
                      f"{label0}: geometry['{k}'] does not describe the returned columns", counter="geometry_rows_checked")
        res.check(np.array_equal(g["ind"], o), "geometry:ind", f"{label0}: geometry['ind'] is not the column order")
        if sort:
            key = np.c_[g["shank"], g["row"], -g["col"]]
            res.check(all(tuple(key[i]) <= tuple(key[i + 1]) for i in range(n - 1)), "geometry:sort-order",
                      f"{label0}: sorted columns are not ordered by shank, row, descending column")
    res.check(sr.shape == (ns, rec.nc), "reader:shape", f"{label0}: shape {sr.shape}")
    geom_before = {k: np.array(v) for k, v in sr.geometry.items()} if geom_expected and sr.geometry is not None else None
    s2v_before = np.array(sr.sample2volts)
    # -------- selector workload through the three entry points
    for p in range(case["pairs"]):
        nsel, nlab = S.sample_selector(rng, ns, fancy_ok=not cbin, seams=seams)
        csel, clab = S.channel_selector(rng, rec.nc, fancy_ok=not S.is_fancy(nsel) or len(nsel) == 0)
        if S.is_fancy(nsel) and S.is_fancy(csel) and len(nsel) and len(csel):
            csel, clab = slice(None), "slice"
        if p % 7 == 3:
            # integers as NumPy hands them out (an index taken from arange / flatnonzero / argmax), for samples and for channels (round 19)
            nsel, nlab = (np.int64, np.int32, np.intp)[p % 3](int(rng.integers(-ns, ns))), "numpy-int"
            if p % 2:
                csel, clab = np.int64(int(rng.integers(-rec.nc, rec.nc))), "numpy-int"
            res.count("numpy_integer_selectors")
        entry = int(rng.integers(0, 5)) if rec.nsync else int(rng.integers(0, 3))      # the sync companions need a sync channel
        label = f"{label0} sr[{S.describe(nsel)}, {S.describe(csel)}] via {['getitem2', 'getitem1', 'read', 'read_samples', 'read+sync'][entry]}"
        key = "read"
        if cbin and nlab == "slice-negstep":
            key = "cbin:negative-step-sample-slice"
        if nlab == "slice-negstep":
            res.count("negstep_slices")
        try:
            if entry == 0:
                got = sr[nsel, csel]
                exp = expected(cal, nsel, csel)
                cm = syncmask[csel] if not isinstance(csel, (int, np.integer)) else None
                res.count("getitem_calls")
            elif entry == 1 and isinstance(nsel, (int, np.integer, slice)):
                got = sr[nsel]
                exp = cal[nsel]
                cm = syncmask
                res.count("getitem_calls")
            elif entry == 2:
                got = sr.read(nsel=nsel, csel=csel, sync=False)
                exp = expected(cal, nsel, csel)
                cm = syncmask[csel] if not isinstance(csel, (int, np.integer)) else None
                res.count("read_calls")
            elif entry == 4:
                if S.is_fancy(nsel) or isinstance(nsel, (int, np.integer)):   # the sync companion is defined for sample ranges
                    nsel = S.rand_slice(rng, ns)
                    label = f"{label0} read({S.describe(nsel)}, {S.describe(csel)}, sync=True)"
                    if cbin and (nsel.step or 1) < 0:
                        key = "cbin:negative-step-sample-slice"
                data, sy = sr.read(nsel=nsel, csel=csel, sync=True)
                got = data
                exp = expected(cal, nsel, csel)
                cm = syncmask[csel] if not isinstance(csel, (int, np.integer)) else None
                res.count("read_calls")
                word = np.atleast_1d(rec.raw[nsel, -1])
                bits = ((word.astype(np.int64)[:, None] & 0xFFFF) >> np.arange(16)[None, :]) & 1
                res.check(sy.shape[0] == bits.shape[0] and np.array_equal(sy[:, :16], bits), key + ":sync-part",
                          f"{label}: sync returned with the data has {sy.shape[0]} rows / differs from the raw sync word ({bits.shape[0]} rows)")
            else:
                a = int(rng.integers(0, ns))
                bnd = int(rng.integers(a, ns + 1))
                chans = csel if not isinstance(csel, (int, np.integer)) else None
                label = f"{label0} read_samples({a}, {bnd}, {S.describe(chans)})"
                key = "read_samples:empty-range-analog-sync" if (a == bnd and kind == "nidq") else "read_samples"
                out = sr.read_samples(first_sample=a, last_sample=bnd, channels=chans)
                got = out[0] if isinstance(out, tuple) else out
                exp = cal[a:bnd] if chans is None else cal[a:bnd][:, chans]
                cm = syncmask if chans is None else syncmask[chans]
                res.count("read_calls")
                if isinstance(out, tuple) and rec.nsync:
                    word = rec.raw[a:bnd, -1]
                    bits = ((word.astype(np.int64)[:, None] & 0xFFFF) >> np.arange(16)[None, :]) & 1
                    res.check(np.array_equal(out[1][:, :16], bits), "read_samples:sync", f"{label}: sync part differs from the raw sync word")
            if isinstance(cm, (bool, np.bool_)):
                cm = None
            compare(res, got, exp, cm, label, key)
        except Exception as e:
            res.exception(key + ":exception", e, label)
    # -------- reading is read-only: what a read returns belongs to the caller (scribbling over it does not change the next read), and the reader's
    #          geometry and conversion factors are the same after the workload as before
    try:
        a0 = sr[0:min(ns, 7), :]
        a0[...] = -12345.0
        a1 = sr[0:min(ns, 7), :]
        compare(res, a1, cal[0:min(ns, 7)], syncmask, f"{label0} second read of rows 0:7 after the first result was overwritten by the caller", "read:shared-buffer")
        if geom_before is not None:
            same = set(sr.geometry) == set(geom_before) and all(np.array_equal(sr.geometry[k], geom_before[k]) for k in geom_before)
            res.check(same, "geometry:changed-by-reading", f"{label0}: the reader's geometry changed while reading", counter="state_unchanged_checked")
        res.check(np.array_equal(np.array(sr.sample2volts), s2v_before), "read:conversion-changed-by-reading", f"{label0}: sample2volts changed while reading")
    except Exception as e:
        res.exception("read:exception", e, f"{label0} repeat read")
    # -------- the same reader OBJECT after it compressed its own file in place (round 20): it was asked for sorted or on-disk order when it was made, and
    #          goes on describing the same recording in that order - geometry, values, every entry point
    if not cbin and case.get("_i", 0) % 3 == 0:
        lab2 = f"{label0} same reader object after compress_file(keep_original=False)"
        try:
            sr.compress_file(keep_original=False, chunk_duration=float(rng.choice([0.002, 0.005, 0.011])))
            res.count("inplace_compressed_same_object")
            if geom_before is not None:
                g2 = sr.geometry
                same = g2 is not None and set(g2) == set(geom_before) and all(np.array_equal(g2[k], geom_before[k]) for k in geom_before)
                res.check(same, "geometry:changed-by-inplace-compression", f"{lab2}: the geometry is no longer the one the reader had (order asked for: sort={sort})")
            res.check(np.array_equal(np.array(sr.sample2volts), s2v_before), "read:conversion-changed-by-inplace-compression", f"{lab2}: sample2volts changed")
            res.check(tuple(sr.shape) == (ns, rec.nc), "reader:shape", f"{lab2}: shape {sr.shape}")
            for q in range(6):
                nsel = S.rand_slice(rng, ns) if q % 2 else int(rng.integers(-ns, ns))
                if isinstance(nsel, slice) and (nsel.step or 1) < 0:
                    nsel = slice(None)
                csel, clab = S.channel_selector(rng, rec.nc, fancy_ok=True)
                got = sr[nsel, csel] if q % 3 else sr.read(nsel=nsel, csel=csel, sync=False)
                cm = syncmask[csel] if not isinstance(csel, (int, np.integer)) else None
                if isinstance(cm, (bool, np.bool_)):
                    cm = None
                compare(res, got, expected(cal, nsel, csel), cm, f"{lab2} sr[{S.describe(nsel)}, {S.describe(csel)}]", "read:after-inplace-compression")
        except Exception as e:
            res.exception("read:after-inplace-compression:exception", e, lab2)
    sr.close()
    # -------- per-shank files of a four-shank probe (as the library's own converter writes them: the whole probe's site table plus the shank the file
    #          holds), for site selections that leave some shanks unused: column i of what the reader returns is the electrode its geometry names
    if kind == "NP2.4" and case.get("_i", 0) % 2 == 0:
        try:
            allsites = G.draw_sites(rng, "NP2.4", 384, "random")
            keep_sh = [(1, 3), (0, 2), (2,), (1, 2, 3), (0, 3)][int(rng.integers(0, 5))]
            sub = allsites[np.isin(allsites[:, 0], keep_sh)]
            par = G.make(rng, kind="NP2.4", sites=sub, encoding=enc, ns=3, raw=np.zeros((3, len(sub) + 1), np.int16), aimax=aimax, maxint=maxint)
            for s_ in keep_sh:
                idx = np.flatnonzero(par.shank == s_)
                rawc = rng.integers(-2000, 2000, (40, idx.size + 1)).astype(np.int16)
                child = G.make(rng, kind="NP2.4", sites=sub, encoding=enc, ns=40, raw=rawc, aimax=aimax, maxint=maxint,
                               extra={"NP2.4_shank": int(s_), "nSavedChans": idx.size + 1, "snsApLfSy": f"{idx.size},0,1"})
                bc = G.write(child, d / f"shank{s_}")
                for sort_ in (True, False):
                    lab = f"NP2.4 per-shank file of shank {s_} (probe sites on shanks {keep_sh}, {enc} map) sort={sort_}"
                    with spikeglx.Reader(bc, sort=sort_) as src:
                        o = idx[np.lexsort((-par.col_out[idx], par.row[idx]))] if sort_ else idx       # parent sites in the order of the returned columns
                        pos = np.searchsorted(idx, o)                                               # their columns in the shank file
                        exp = rawc[:, pos].astype(np.float64) * par.s2v[o][None, :]
                        got = src[:, :idx.size]
                        res.check(got.shape == exp.shape and np.allclose(got, exp, rtol=RTOL, atol=0), "shank-file:value", f"{lab}: values are not raw x volts-per-bit of the columns the geometry names",
                                  counter="shank_files_read")
                        g_ = src.geometry
                        okg = all(np.array_equal(np.asarray(g_[k_]), getattr(par, kk_)[o]) for k_, kk_ in (("x", "x"), ("y", "y"), ("shank", "shank"), ("row", "row")))
                        res.check(okg, "shank-file:geometry", f"{lab}: geometry does not describe the electrodes of shank {s_} in the order of the returned columns "
                                  f"(shanks named {np.unique(g_['shank']).tolist()})")
        except Exception as e:
            res.exception("shank-file:exception", e, f"{label0} per-shank files")
    res.sig = f"{kind}/{enc}/{mode}/{n}/{sort}/{cbin}"
    res.nontrivial = bool(nontrivial)
    return res
