"""C06 Chunked destripe-to-file writes every sample exactly once, for any worker count.

Monitors:
  M6 controlled scheduler substituted for ibldsp.voltage.Parallel (a module global): it receives the real
     delayed(my_function)(i, n) tasks and (a) runs every worker ALONE on a sentinel-filled output (two different
     sentinels) to extract its exact write set, (b) judges coverage (every output row written by somebody, nothing
     outside), agreement (two workers writing the same row write the same bytes - otherwise the final file depends on
     the schedule) and (c) executes all workers in identity / reverse / random orders.  Workers communicate only through
     files, so recorded write sets decide the outcome of every interleaving.
  real loky executor for several worker counts, outputs compared byte for byte;
  M3 observers on the output binary and the QC files; harness-side batch-wise reference.
pyfftw is replaced by the NumPy/SciPy stand-in in vlib/shims (absent from the sandbox).
"""
import os
import shutil
from pathlib import Path

import numpy as np
import scipy.signal

from vlib import gen_meta as G
from vlib.result import Result, rng_for, scratch

PROPERTY = "C06"
LEVEL = "exploration"
RULE = ("recordings of 12000-90000 samples x 65/97/385 channels, batch sizes {4096, 6144, 8192, 16384}, worker counts 1..8 (worker boundaries "
        "fall everywhere relative to batch seams; some workers start at or beyond the last batch), options {append, ns2add, channel "
        "rejection (with a silent and a noisy channel present), whitening scalar/matrix, k-filter/CAR, nc_out, caller-chosen butter_kwargs / k_kwargs}, contents with saturated stretches. Schedules: per-worker write sets (all "
        "interleavings decided by coverage + agreement), executed orders identity/reverse/random, real loky runs. Non-trivial: >= 3 batches, "
        ">= 2 workers, >= 1 saturated stretch; distinct = distinct (ns, nbatch, workers, options)")
ASSUMPTIONS = ["pyfftw replaced by a scipy.fft stand-in (numerically equivalent to +-1 LSB of the int16 output; worker-count identity and sync identity do not depend on it)",
               "workers share nothing but the output / QC files", "the batch-wise reference re-uses the repository's own per-batch building blocks (saturation, fshift, "
               "kfilt/car): it judges the batching / seek / stitch logic, not the DSP (C05, C16 do)"]
REQUIRED = {"qc_files_in_requested_folder": 6, "library_destripe_batches_compared": 12, "library_destripe_batches_with_outside_channels": 2, "configs": 4, "explicit_width_configs": 3, "stale_output_checked": 4, "width_compared": 3, "workers_probed": 10, "write_rows_judged": 50000, "orders_executed": 8, "sync_columns_compared": 4, "reference_compared": 4,
            "saturated_samples": 10, "reject_runs_with_bad_channels": 1, "custom_filter_settings": 1, "compressed_inputs": 2, "inputs_with_inconsistent_metadata": 2, "qc_files_after_rerun": 6}
CASE_TIMEOUT = 400.0
MAX_PROCS = 10
TAPER = 1024


def gen_cases(seed, tier):
    cases = []
    rng = np.random.default_rng(seed + 606)
    base = [
        dict(ns=20000, nbatch=8192, workers=8, n=96), dict(ns=40000, nbatch=16384, workers=8, n=64), dict(ns=12000, nbatch=8192, workers=8, n=64),
        dict(ns=33000, nbatch=6144, workers=5, n=96), dict(ns=26000, nbatch=4096, workers=3, n=96), dict(ns=15000, nbatch=16384, workers=4, n=64),
        dict(ns=30000, nbatch=8192, workers=2, n=384), dict(ns=22000, nbatch=6144, workers=7, n=64),
        # boundary lengths: the last batch is exactly full (ns = nbatch + k * stride), one sample less, one more, and a single full batch
        dict(ns=8192 + 2 * 6144, nbatch=8192, workers=3, n=64), dict(ns=8192, nbatch=8192, workers=2, n=64),
        dict(ns=6144 + 3 * 4096 - 1, nbatch=6144, workers=4, n=64), dict(ns=4096 + 5 * 2048 + 1, nbatch=4096, workers=6, n=64),
        # a recording a little longer than one batch: the second (last) batch holds fewer than 1024 new samples and is the FIRST batch of every later worker
        dict(ns=8192 + 700, nbatch=8192, workers=3, n=64),
    ]
    k = 13 if tier == "quick" else 160
    for i in range(k):
        if i < len(base):
            c = dict(base[i])
        else:
            c = dict(ns=int(rng.integers(12000, 90001)), nbatch=int(rng.choice([4096, 6144, 8192, 16384])), workers=int(rng.integers(1, 9)),
                     n=int(rng.choice([64, 96, 96, 384])))
            if i % 5 == 0:      # aligned lengths: the last batch exactly full, +-1
                c["ns"] = c["nbatch"] + int(rng.integers(0, 8)) * (c["nbatch"] - 2 * TAPER) + int(rng.choice([-1, 0, 0, 1]))
        c["ncout"] = [None, None, "n", "less"][i % 4]      # explicit output width, crossed with every other option
        c.update(cls="sched", seed=seed * 1000 + i, opt=(i % 7) if i < 7 else ([7, 2, 7, 2, 6, 0][i - 7] if i < 13 else i % 8), _w=6 + c["ns"] / 10000 * (c["n"] / 96))
        cases.append(c)
    for i in range(2 if tier == "quick" else 10):
        cases.append(dict(cls="loky", ns=int(rng.integers(14000, 40000)), nbatch=int(rng.choice([4096, 8192])), n=64, seed=seed * 1000 + 500 + i,
                          counts=[1, 2, 3, 5, 8] if tier == "quick" else [1, 2, 3, 4, 5, 6, 7, 8], _w=12))
    for i in range(2 if tier == "quick" else 8):
        cases.append(dict(cls="append", ns=int(rng.integers(13000, 26000)) if i % 2 else 8192 + 6144, nbatch=8192, n=64, workers=int(rng.integers(2, 6)),
                          seed=seed * 1000 + 700 + i, _w=8))
    return cases


# ------------------------------------------------------------------ recording
def make_recording(rng, d, ns, n, name="rec", faults=False, nsync=1, claim_ns=None):
    kind = str(rng.choice(["3B2", "NP2.1", "NP2.4", "3B2", "NP2.4"]))      # every generation, also with fewer saved channels (sampling delays, gains and sync gain differ)
    rec = G.make(rng, kind=kind, sites=G.draw_sites(rng, kind, n, "dense"), ns=ns, raw=np.zeros((1, 1), np.int16), nsync=nsync, claim_ns=claim_ns)
    s2v = rec.s2v[:n]
    t = np.arange(ns)[:, None]
    x = rng.standard_normal((ns, n)) * 15e-6 + 40e-6 * np.sin(2 * np.pi * t * rng.uniform(300, 3000, (1, n)) / 30000.0) + \
        rng.standard_normal((ns, 1)) * 30e-6
    if faults:
        # a silent and a strongly noisy channel: channel rejection has something to label, repair and (for the spatial filter) keep inside
        cd, cn = int(rng.integers(5, n // 2 - 5)), int(rng.integers(n // 2 + 5, n - 5))
        x[:, cd] = rng.standard_normal(ns) * 1e-7
        x[:, cd + 2] = rng.standard_normal(ns) * 1e-7      # ... and its neighbour one row up: two bad channels next to each other are repaired from GOOD channels only (round 19)
        x[:, cn] += rng.standard_normal(ns) * 400e-6
        # ... and a top block lacking the common signal (outside the brain): rejection keeps it out of the spatial reference
        kout = int(rng.integers(8, 14))
        x[:, n - kout:] = rng.standard_normal((ns, kout)) * 15e-6
    raw = np.clip(np.round(x / s2v[None, :]), -32768, 32767).astype(np.int16)
    # saturated stretches (all channels at full scale), one of them across a batch seam region
    sat = []
    maxint = rec.maxint
    for _ in range(int(rng.integers(1, 4))):
        a = int(rng.integers(2000, ns - 2000))
        ln = int(rng.integers(5, 80))
        raw[a:a + ln, :] = (maxint - 1) * rng.choice([-1, 1])
        sat.append((a, a + ln))
    sync = G.sync_words(rng, (ns, nsync))
    rec.raw = np.ascontiguousarray(np.c_[raw, sync])
    rec.sat = sat
    b = G.write(rec, Path(d) / name)
    return b, rec


# ------------------------------------------------------------------ controlled scheduler
class Scheduler:
    """stand-in for joblib.Parallel"""
    mode = "inorder"
    order = None
    probe = None            # dict filled in 'probe' mode
    out_path = None
    out_bytes = 0
    qc_dir = None

    def __init__(self, n_jobs=None, **kw):
        self.n_jobs = n_jobs

    def __call__(self, tasks):
        tasks = list(tasks)
        cls = Scheduler
        if cls.mode == "probe":
            cls.probe = {"workers": []}
            for i, (f, a, k) in enumerate(tasks):
                imgs, errs, rms_imgs = [], [], []
                for sent in (0x11, 0xEE):
                    cls.out_path.write_bytes(bytes([sent]) * cls.out_bytes)
                    rmsf, timf = cls.qc_dir / "ap_rms.bin", cls.qc_dir / "ap_time.bin"
                    rmsf.write_bytes(bytes([sent]) * cls.rms_bytes)
                    timf.write_bytes(bytes([sent]) * cls.time_bytes)
                    err = None
                    try:
                        f(*a, **k)
                    except Exception as e:      # a crashing worker is an observation, not a harness failure
                        import traceback
                        err = f"{type(e).__name__}: {e} @ {traceback.extract_tb(e.__traceback__)[-1].lineno}"
                    errs.append(err)
                    imgs.append(np.frombuffer(cls.out_path.read_bytes(), dtype=np.uint8))
                    rms_imgs.append(np.frombuffer(timf.read_bytes(), dtype=np.uint8))
                cls.probe["workers"].append({"i": i, "err": errs[0] or errs[1], "imgs": imgs, "time_imgs": rms_imgs})
            # leave a consistent state for the code that runs after the fan-out
            cls.out_path.write_bytes(b"")
            (cls.qc_dir / "ap_rms.bin").write_bytes(b"")
            (cls.qc_dir / "ap_time.bin").write_bytes(b"")
            for f, a, k in tasks:
                try:
                    f(*a, **k)
                except Exception:
                    pass
            return [None] * len(tasks)
        order = list(range(len(tasks))) if cls.order is None else list(cls.order)
        for i in order:
            f, a, k = tasks[i]
            f(*a, **k)
        return [None] * len(tasks)


def canonical_batches(ns, nbatch):
    stride = nbatch - 2 * TAPER
    out = []
    first = 0
    while True:
        last = min(first + nbatch, ns)
        out.append((first, last))
        if last == ns:
            break
        first += stride
    return out


def reference(V, F, sr, rec, nbatch, k_filter, wrot, labels, nc_out, ns2add, h, butter_kwargs=None, k_kwargs=None, lib=None):
    """batch-wise in-memory destriping with the documented taper margins, stitched by the harness"""
    import spikeglx
    ns, n = rec.ns, rec.n
    fs = sr.fs
    taper = np.r_[0, scipy.signal.windows.cosine((TAPER - 1) * 2), 0]
    # the documented defaults, written out here (not taken from the library's own helper)
    bk = butter_kwargs or {"N": 3, "Wn": 300 / fs * 2, "btype": "highpass"}
    kk = k_kwargs or {"ntr_pad": 60, "ntr_tap": 0, "lagc": int(fs / 10), "butter_kwargs": {"N": 3, "Wn": 0.01, "btype": "highpass"}}
    sos = scipy.signal.butter(**bk, output="sos")

    def car_ref(dat, collection=None, operator="median", **_):
        # common referencing written out: per group of traces (or over all of them) the median / mean across traces is removed at every sample
        agg = np.median if operator == "median" else np.mean
        if collection is None:
            return dat - agg(dat, axis=0)
        res_ = np.zeros_like(dat)
        for v in np.unique(collection):
            sel = np.asarray(collection) == v
            res_[sel] = dat[sel] - agg(dat[sel], axis=0)
        return res_

    def kfilt_ref(dat, ntr_pad=0, ntr_tap=None, lagc=300, butter_kwargs=None, collection=None, **_):
        # the spatial high-pass written out from its documentation: gain control, ntr_pad mirrored traces on either side, a cosine apodisation over
        # ntr_tap traces at either end of the PADDED array, zero-phase Butterworth along the channels, crop, gain restored
        if collection is not None:
            res_ = np.zeros_like(dat)
            for v in np.unique(collection):
                sel = np.asarray(collection) == v
                res_[sel] = kfilt_ref(dat[sel], ntr_pad=0, ntr_tap=None, lagc=lagc, butter_kwargs=butter_kwargs)
            return res_
        nx = dat.shape[0]
        pad = min(int(ntr_pad), nx)
        tap = pad if ntr_tap is None else int(ntr_tap)
        nxp = nx + 2 * pad
        if not lagc:
            xf, gain = dat.copy(), 1
        else:
            xf, gain = V.agc(dat, wl=lagc, si=1.0)
        if pad > 0:
            xf = np.r_[np.flipud(xf[:pad]), xf, np.flipud(xf[-pad:])]
        if tap > 0:
            t_ = np.arange(nxp, dtype=np.float64)

            def ramp(a_, b_):
                return np.where(t_ <= a_, 0.0, np.where(t_ >= b_, 1.0, (1 - np.cos((t_ - a_) / (b_ - a_) * np.pi)) / 2))
            xf = xf * (ramp(0, tap) * (1 - ramp(nxp - tap, nxp)))[:, None]
        sosk = scipy.signal.butter(**(butter_kwargs or {"N": 3, "Wn": 0.1, "btype": "highpass"}), output="sos")
        xf = scipy.signal.sosfiltfilt(sosk, xf, axis=0)
        if pad > 0:
            xf = xf[pad:-pad]
        return xf * gain

    def interp_ref(dat, lab, x_, y_):
        # repair of dead / noisy channels written out: each one becomes the weighted mean of the channels that are NOT themselves dead or noisy,
        # weights exp(-(distance / 20 um) ** 1.3), those below 0.005 dropped; a channel without any such neighbour becomes zero
        dat = dat.copy()
        bad = np.flatnonzero((lab == 1) | (lab == 2))
        src = dat.copy()            # nothing repaired serves as a source (bad channels never do)
        for i_ in bad:
            w_ = np.exp(-((np.hypot(x_ - x_[i_], y_ - y_[i_]) / 20.0) ** 1.3))
            w_[bad] = 0
            w_[w_ < 0.005] = 0
            if not np.any(w_ > 0):
                dat[i_] = 0
                continue
            dat[i_] = (w_[w_ > 0] / np.sum(w_)) @ src[w_ > 0]
        return dat

    def spatial(dat):
        return kfilt_ref(dat, **kk) if k_filter else car_ref(dat, **kk)
    out = np.zeros((ns + ns2add, nc_out), np.float64)
    rows = []
    for first, last in canonical_batches(ns, nbatch):
        chunk = sr[first:last, :n].T
        satf, mute = V.saturation(data=chunk, max_voltage=sr.range_volts[:n], fs=fs)
        chunk[:, :TAPER] *= taper[:TAPER]
        chunk[:, -TAPER:] *= taper[TAPER:]
        tapered = chunk.copy()
        chunk = scipy.signal.sosfiltfilt(sos, chunk)
        chunk = F.fshift(chunk, s=h["sample_shift"])
        if labels is not None:
            chunk = interp_ref(chunk, labels, np.asarray(h["x"], float), np.asarray(h["y"], float))
            inside = np.where(labels != 3)[0]
            chunk[inside, :] = spatial(chunk[inside, :])
        else:
            chunk = spatial(chunk)
        if lib is not None and (len(rows) < 2 or last == ns):
            # the clause names the library's OWN in-memory destriping: the first two and the last batch also go through voltage.destripe (same
            # tapered samples, same labels, same settings) and must agree with the harness's batch before muting (round 21)
            res_, label_ = lib
            try:
                got = V.destripe(tapered.copy(), fs, h=h, butter_kwargs=butter_kwargs, k_kwargs=k_kwargs, channel_labels=labels, k_filter=k_filter)
                devl = float(np.max(np.abs(np.asarray(got, np.float64) - chunk) / rec.s2v[:n, None])) if np.shape(got) == chunk.shape else float("inf")
                res_.measure("max_dev_library_destripe_from_reference_lsb", devl)
                res_.check(devl <= 0.05, "in-memory-destripe:reference", f"{label_}: voltage.destripe of the batch {first}:{last} (labels "
                           f"{'given, ' + str(int(np.sum(labels == 3))) + ' outside' if labels is not None else 'none'}) differs from the batch-wise reference by {devl:.3g} LSB",
                           counter="library_destripe_batches_compared")
                if labels is not None and np.any(labels == 3):
                    res_.count("library_destripe_batches_with_outside_channels")
            except Exception as e:
                res_.exception("in-memory-destripe:exception", e, label_)
        chunk = chunk * mute[None, :]
        a = TAPER if first > 0 else 0
        b = (last - first) if last == ns else nbatch - TAPER
        data = (chunk[:, a:b] / rec.s2v[:n, None]).T
        if wrot is not None:
            data = np.dot(data, wrot)
        full = np.c_[data, rec.raw[first + a:first + b, n:].astype(np.float64)]
        out[first + a:first + b] = full[:, :nc_out]
        rows.append((first, last))
    if ns2add:
        out[ns:] = out[ns - 1]
    return out, rows


def run_destripe(V, b, out, nbatch, nproc, opts, h=None):
    kw = dict(output_file=out, nbatch=nbatch, nprocesses=nproc, reject_channels=opts.get("reject", False), k_filter=opts.get("k_filter", True),
              wrot=opts.get("wrot"), ns2add=opts.get("ns2add", 0), append=opts.get("append", False), nc_out=opts.get("nc_out"),
              reader_kwargs=opts.get("reader_kwargs"))
    if opts.get("k_kwargs") is not None:
        kw["k_kwargs"] = {k: (dict(v) if isinstance(v, dict) else v) for k, v in opts["k_kwargs"].items()}
    if opts.get("butter_kwargs") is not None:
        kw["butter_kwargs"] = dict(opts["butter_kwargs"])
    if opts.get("qc_path") is not None:
        kw["output_qc_path"] = opts["qc_path"]
    return V.decompress_destripe_cbin(b, **kw)


def options(rng, opt, n, pad1=False, variant=None):
    o = {"k_filter": True}
    if opt == 1:
        o["k_filter"] = False
    elif opt == 2:
        o["ns2add"] = int(rng.integers(1, 3000)) if rng.random() < 0.6 else int(rng.choice([1, 1, 2]))      # a single padded sample is a padding like any other
        if pad1:
            o["ns2add"] = 1
    elif opt == 3:
        o["wrot"] = float(rng.uniform(0.5, 3))
    elif opt == 4:
        o["wrot"] = np.eye(n) * float(rng.uniform(0.5, 2)) + 0.01 * rng.standard_normal((n, n))
        o["k_filter"] = False
    elif opt == 5:
        o["nc_out"] = n      # without the sync column
    elif opt == 6:
        o["reject"] = True   # channel rejection: labels from detect_bad_channels_cbin, interpolation + exclusion of outside-brain channels
    elif opt == 7:
        # filter settings chosen by the caller: temporal high-pass and spatial filter / referencing parameters
        o["butter_kwargs"] = {"N": int(rng.integers(2, 5)), "Wn": float(rng.uniform(150, 600)) / 30000 * 2, "btype": "highpass"}
        if (rng.random() < 0.5) if variant is None else (variant == 0):
            # (lateral padding AND apodisation chosen by the caller; the default settings - padding 60, no apodisation - are what every other option runs with)
            o["k_kwargs"] = {"ntr_pad": int(rng.choice([20, 60])), "ntr_tap": [10, 30, None][int(rng.integers(0, 3))], "lagc": [None, int(rng.integers(300, 6000))][int(rng.integers(0, 2))],
                             "butter_kwargs": {"N": int(rng.integers(2, 4)), "Wn": float(rng.uniform(0.01, 0.1)), "btype": "highpass"}}
        else:
            o["k_filter"] = False
            o["k_kwargs"] = {"operator": str(rng.choice(["average", "average", "median"]))}
            if rng.random() < 0.8:
                # referencing per group of channels (shanks, or any grouping the caller chooses); the per-channel tones of the recordings make the
                # mean and the median across a group differ by several counts at most samples
                o["k_kwargs"]["collection"] = np.sort(rng.integers(0, int(rng.integers(2, 5)), n))
    return o


def run_case(case):
    import ibldsp.voltage as V
    import ibldsp.fourier as F
    import spikeglx
    import pyfftw
    assert getattr(pyfftw, "__verif_shim__", False), "the pyfftw stand-in must be the one imported"
    res = Result()
    rng = rng_for(case)
    d = scratch()
    cls = case["cls"]
    orig_parallel = V.Parallel
    ns, nbatch, n = case["ns"], case["nbatch"], case["n"]
    stride = nbatch - 2 * TAPER
    K = len(canonical_batches(ns, nbatch))
    try:
        if cls == "sched":
            nw = case["workers"]
            # the input is what the FILE holds: some recordings carry metadata written before acquisition ended (fewer samples announced) or of another copy (more)
            claim = None
            if case["seed"] % 6 in (4, 5):      # (4: compressed input, 5: flat input)
                claim = max(1000, ns + int(rng.choice([-1, -1, 1])) * int(rng.choice([1, 700, 2500, 9000])))
                res.count("inputs_with_inconsistent_metadata")
            b, rec = make_recording(rng, d, ns, n, faults=case["opt"] == 6, nsync=0 if (case["seed"] % 5 == 3 or (case["opt"] == 6 and case["seed"] % 2 == 1)) else 1, claim_ns=claim)      # some recordings are saved without the sync channel
            if rec.nsync == 0:
                res.count("zero_sync_recordings")
            container = "bin"
            if case["seed"] % 3 == 1:
                # the usual production input: the compressed recording (chunk seams fall anywhere relative to batch seams), duration written with few decimals
                from vlib import np2 as _np2
                _np2.round_duration(b.with_suffix(".meta"), ns if claim is None else claim, rec.fs, rng)
                b = _np2.compress_original(b, rec, chunk_duration=float(rng.choice([0.05, 0.11, 1.0])))
                container = "cbin"
                res.count("compressed_inputs")
            opts = options(rng, case["opt"], n, pad1=case["seed"] % 1000 == 8, variant=(case["seed"] // 2) % 2)      # every run pads one recording by exactly one sample, and holds both kinds of caller-chosen spatial settings
            if case.get("ncout") == "n":
                opts["nc_out"] = n
            elif case.get("ncout") == "less":
                opts["nc_out"] = int(rng.integers(max(1, n // 2), n))
            nc_out = opts.get("nc_out") or rec.nc
            if nc_out != rec.nc:
                res.count("explicit_width_configs")
            ns2add = opts.get("ns2add", 0)
            total_rows = ns + ns2add
            rowbytes = nc_out * 2
            label = f"{rec.kind} nsync={rec.nsync} {container}{'' if claim is None else f' (metadata announces {claim} samples)'} ns={ns} nbatch={nbatch} (K={K} batches) workers={nw} n={n} opts={ {k: (v if np.isscalar(v) else ({kk_: (vv_ if np.isscalar(vv_) or isinstance(vv_, dict) or vv_ is None else 'array') for kk_, vv_ in v.items()} if isinstance(v, dict) else 'matrix')) for k, v in opts.items()} }"
            res.count("configs")
            res.count("saturated_samples", sum(e - a for a, e in rec.sat))
            chunk = int(ns / nw)
            start_batches = [int(np.ceil(i * chunk / nbatch)) for i in range(nw)]
            rogue = [i for i in range(nw) if start_batches[i] > 0 and (start_batches[i] - 1) * stride + nbatch >= ns]
            V.Parallel = Scheduler
            # ---------------- (1) single worker = baseline output
            o1 = d / "o1" / "out.bin"
            o1.parent.mkdir()
            Scheduler.mode, Scheduler.order = "inorder", None
            try:
                run_destripe(V, b, o1, nbatch, 1, opts)
            except Exception as e:
                res.exception("destripe:exception-1-worker", e, label)
                return res
            base = o1.read_bytes()
            res.check(len(base) == total_rows * rowbytes, "output:size", f"{label}: 1 worker: output has {len(base)} bytes, expected {total_rows * rowbytes}")
            img1 = np.frombuffer(base, np.int16).reshape(-1, nc_out) if len(base) % rowbytes == 0 else None
            # ---------------- sync column bit for bit
            if img1 is not None and nc_out == rec.nc and img1.shape[0] == total_rows and rec.nsync:
                same = np.array_equal(img1[:ns, -1], rec.raw[:, -1])
                if not same:
                    bad = np.flatnonzero(img1[:ns, -1] != rec.raw[:, -1])
                    near = any(a - 8 <= bad[0] <= e + 8 for a, e in rec.sat)
                    res.violation("sync:muted-under-saturation" if near and np.all(np.abs(img1[bad, -1]) <= np.abs(rec.raw[bad, -1])) else "sync:not-copied",
                                  f"{label}: sync column differs from the source at {bad.size} samples (first {bad[0]}, wrote {img1[bad[0], -1]} source {rec.raw[bad[0], -1]}; "
                                  f"saturated stretches {rec.sat})")
                res.count("sync_columns_compared")
                res.count("oracle_evaluations")
            # ---------------- QC files of the 1-worker run
            qc = o1.parent
            try:
                satf = np.load(qc / "_iblqc_ephysSaturation.samples.npy")
                rms = np.load(qc / "_iblqc_ephysTimeRmsAP.rms.npy")
                tim = np.load(qc / "_iblqc_ephysTimeRmsAP.timestamps.npy")
                res.check(satf.shape == (ns,), "qc:saturation-size", f"{label}: saturation file has {satf.shape} entries for {ns} samples")
                res.check(rms.shape == (K, n) and tim.shape == (K,), "qc:rms-rows", f"{label}: RMS file {rms.shape} / time file {tim.shape} for {K} batches")
                exp_sat = np.zeros(ns, bool)
                for a, e in rec.sat:
                    exp_sat[a:e] = True
                res.check(np.all(satf[exp_sat]), "qc:saturation-missed", f"{label}: saturated stretches {rec.sat} not flagged in the saturation file")
            except Exception as e:
                res.exception("qc:exception", e, label)
            # ---------------- harness reference
            if img1 is not None and img1.shape[0] == total_rows:
                sr = spikeglx.Reader(b)
                labels = V.detect_bad_channels_cbin(sr) if opts.get("reject") else None
                if labels is not None:
                    res.count("reject_runs")
                    res.count("reject_runs_with_bad_channels", int(np.any((labels == 1) | (labels == 2))))
                    res.count("reject_runs_with_outside_channels", int(np.any(labels == 3)))
                if opts.get("butter_kwargs") is not None:
                    res.count("custom_filter_settings")
                ref, _ = reference(V, F, sr, rec, nbatch, opts.get("k_filter", True), opts.get("wrot"), labels, nc_out, ns2add, sr.geometry,
                                   butter_kwargs=opts.get("butter_kwargs"), k_kwargs=opts.get("k_kwargs"), lib=(res, label))
                sr.close()
                # the code casts by truncation: compare integers with integers (two values closer than 1 truncate to integers at most 1 apart)
                mcol = min(n, nc_out)
                dev = np.max(np.abs(img1[:, :mcol].astype(np.float64) - np.trunc(np.clip(ref[:, :mcol], -32768, 32767))))
                res.measure("max_dev_from_reference_lsb", dev)
                res.check(dev <= 1.0, "output:reference", f"{label}: output differs from batch-wise in-memory destriping by {dev:.2f} LSB", counter="reference_compared")
            # ---------------- a fresh (non-append) run over an existing, longer output file ends with exactly this run's samples
            if img1 is not None:
                os_ = d / "stale" / "out.bin"
                os_.parent.mkdir()
                try:
                    Scheduler.mode, Scheduler.order = "inorder", None
                    # ... and the folder is the one of an EARLIER run of the same recording made with smaller batches (round 20): more batches, hence more
                    # rows in every per-batch file that run left behind (working files included)
                    nb0 = max(3072, nbatch // 2)
                    K0 = len(canonical_batches(ns, nb0))
                    run_destripe(V, b, os_, nb0, 1, opts)
                    os_.write_bytes(rng.integers(0, 256, len(base) + rowbytes * int(rng.integers(1, 700)), dtype=np.uint8).tobytes())
                    run_destripe(V, b, os_, nbatch, min(nw, 2), opts)
                    got = os_.read_bytes()
                    res.check(got == base, "output:stale-file-not-replaced", f"{label}: a run over an existing output of {len(got) - len(base)} more bytes "
                              f"leaves {len(got)} bytes, a fresh run gives {len(base)}", counter="stale_output_checked")
                    if K0 > K:
                        for qf in ("_iblqc_ephysTimeRmsAP.rms.npy", "_iblqc_ephysTimeRmsAP.timestamps.npy", "_iblqc_ephysSaturation.samples.npy"):
                            q1, q2 = np.load(o1.parent / qf), np.load(os_.parent / qf)
                            res.check(q1.shape == q2.shape and np.array_equal(q1, q2), "qc:rows:rerun-in-used-folder", f"{label}: {qf} of a run into the folder of an earlier run with "
                                      f"{K0} batches has shape {q2.shape}, the same run into a fresh folder gives {q1.shape}" + ("" if q1.shape != q2.shape else " (other values)"),
                                      counter="qc_files_after_rerun")
                except Exception as e:
                    res.exception("output:stale:exception", e, label)
                shutil.rmtree(os_.parent, ignore_errors=True)
            # ---------------- narrower output = the first columns of the full-width output
            if img1 is not None and nc_out != rec.nc:
                ow = d / "wide" / "out.bin"
                ow.parent.mkdir()
                try:
                    run_destripe(V, b, ow, nbatch, 1, {k: v for k, v in opts.items() if k != "nc_out"})
                    wide = np.frombuffer(ow.read_bytes(), np.int16).reshape(-1, rec.nc)
                    res.check(wide.shape[0] == img1.shape[0] and np.array_equal(wide[:, :nc_out], img1), "output:width",
                              f"{label}: the {nc_out}-column output is not the first {nc_out} columns of the full-width output", counter="width_compared")
                except Exception as e:
                    res.exception("output:width:exception", e, label)
                shutil.rmtree(ow.parent, ignore_errors=True)
            # ---------------- (2) write sets of nw workers
            if nw > 1:
                op = d / "probe" / "out.bin"
                op.parent.mkdir()
                Scheduler.mode = "probe"
                Scheduler.out_path, Scheduler.out_bytes, Scheduler.qc_dir = op, total_rows * rowbytes + 4 * rowbytes, op.parent
                Scheduler.rms_bytes, Scheduler.time_bytes = (K + 6) * n * 4, (K + 6) * 4
                try:
                    run_destripe(V, b, op, nbatch, nw, opts)
                except Exception as e:
                    pass        # the tail of the function (QC conversion) may legitimately fail on the probe's scratch state
                ws = Scheduler.probe["workers"] if Scheduler.probe else []
                cover = np.zeros(total_rows + 4, int)
                sets = {}
                for w in ws:
                    res.count("workers_probed")
                    if w["err"]:
                        key = "worker:crash:start-beyond-last-batch" if w["i"] in rogue else "worker:crash"
                        res.violation(key, f"{label}: worker {w['i']} (start batch {start_batches[w['i']]}) raised {w['err']}")
                        continue
                    a, c = w["imgs"]
                    m = min(a.size, c.size)
                    if a.size != c.size or a.size < Scheduler.out_bytes:
                        pass
                    written = (a[:m] == c[:m])
                    nrows = m // rowbytes
                    rows = written[:nrows * rowbytes].reshape(nrows, rowbytes)
                    full = rows.all(axis=1)
                    part = rows.any(axis=1) & ~full
                    res.check(not part.any(), "worker:partial-row", f"{label}: worker {w['i']} wrote part of a row")
                    idx = np.flatnonzero(full)
                    beyond = idx[idx >= total_rows]
                    grown = max(a.size, c.size) > Scheduler.out_bytes
                    res.check(beyond.size == 0 and not grown, "worker:writes-outside-file", f"{label}: worker {w['i']} wrote rows {beyond[:4].tolist()} beyond the {total_rows} output rows")
                    idx = idx[idx < total_rows]
                    cover[idx] += 1
                    sets[w["i"]] = (idx, a[: nrows * rowbytes].reshape(nrows, rowbytes))
                    res.count("write_rows_judged", idx.size)
                    # RMS rows written by this worker
                    ta, tc = w["time_imgs"]
                    mt = min(ta.size, tc.size) // 4 * 4
                    trows = np.flatnonzero((ta[:mt] == tc[:mt]).reshape(-1, 4).all(axis=1))
                    extra = trows[trows >= K]
                    res.check(extra.size == 0, "worker:rms-row-beyond-last-batch" if w["i"] in rogue else "worker:rms-row", f"{label}: worker {w['i']} wrote RMS/time rows {extra.tolist()} but there are only {K} batches")
                if not any(w["err"] for w in ws):
                    miss = np.flatnonzero(cover[:total_rows] == 0)
                    res.check(miss.size == 0, "writeset:gap", f"{label}: rows {miss[:4].tolist()}.. ({miss.size}) are written by no worker")
                ks = sorted(sets)
                for ia in range(len(ks)):
                    for ib in range(ia + 1, len(ks)):
                        ra, A = sets[ks[ia]]
                        rb, B = sets[ks[ib]]
                        common = np.intersect1d(ra, rb)
                        if common.size:
                            diff = common[(A[common] != B[common]).any(axis=1)]
                            if diff.size:
                                key = "writeset:conflict:start-beyond-last-batch" if (ks[ia] in rogue or ks[ib] in rogue) else "writeset:conflict"
                                res.violation(key, f"{label}: workers {ks[ia]} and {ks[ib]} both write rows {diff.min()}..{diff.max()} ({diff.size} rows) with different bytes: "
                                              f"the file depends on which finishes last (start batches {start_batches})")
                            res.count("oracle_evaluations")
                # every worker's bytes equal the single-worker file on its rows
                if img1 is not None:
                    b1 = np.frombuffer(base, np.uint8).reshape(-1, rowbytes)
                    for wi, (idx, A) in sets.items():
                        idx2 = idx[idx < b1.shape[0]]
                        dif = idx2[(A[idx2] != b1[idx2]).any(axis=1)]
                        if dif.size:
                            key = "writeset:differs-from-1-worker:start-beyond-last-batch" if wi in rogue else "writeset:differs-from-1-worker"
                            res.violation(key, f"{label}: worker {wi} writes rows {dif.min()}..{dif.max()} with bytes different from the 1-worker output")
                # ---------------- (3) executed orders
                orders = [list(range(nw)), list(range(nw))[::-1]] + [rng.permutation(nw).tolist() for _ in range(2)]
                for oi, order in enumerate(orders):
                    oo = d / f"ord{oi}" / "out.bin"
                    oo.parent.mkdir()
                    Scheduler.mode, Scheduler.order = "inorder", order
                    try:
                        run_destripe(V, b, oo, nbatch, nw, opts)
                        res.count("orders_executed")
                        got = oo.read_bytes()
                        if got != base:
                            ga = np.frombuffer(got[: len(got) // rowbytes * rowbytes], np.uint8).reshape(-1, rowbytes)
                            ba = np.frombuffer(base, np.uint8).reshape(-1, rowbytes)
                            mm = min(len(ga), len(ba))
                            dr = np.flatnonzero((ga[:mm] != ba[:mm]).any(axis=1))
                            key = "order:output-depends-on-schedule"
                            if rogue:
                                key += ":start-beyond-last-batch"
                            res.violation(key, f"{label}: executing the workers in order {order} gives a file that differs from the 1-worker file "
                                          f"(size {len(got)} vs {len(base)}, rows {dr[:3].tolist()}..{dr[-3:].tolist() if dr.size else []})")
                        r2 = np.load(oo.parent / "_iblqc_ephysTimeRmsAP.rms.npy")
                        res.check(r2.shape == (K, n), "qc:rms-rows" + (":start-beyond-last-batch" if rogue else ""), f"{label}: order {order}: RMS file has {r2.shape[0]} rows for {K} batches")
                    except Exception as e:
                        key = "order:exception" + (":start-beyond-last-batch" if rogue else "")
                        res.exception(key, e, f"{label} order {order}")
                    shutil.rmtree(oo.parent, ignore_errors=True)
            res.sig = f"sched-{ns}-{nbatch}-{nw}-{n}-{case['opt']}-{case.get('ncout')}"
            res.nontrivial = K >= 3 and nw >= 2
        elif cls == "loky":
            b, rec = make_recording(rng, d, ns, n)
            label = f"loky ns={ns} nbatch={nbatch} n={n}"
            outs = {}
            V.Parallel = orig_parallel
            for nw in case["counts"]:
                oo = d / f"w{nw}" / "out.bin"
                oo.parent.mkdir()
                try:
                    # round 22: every other run is asked to put its quality files into a folder of their own (output_qc_path)
                    qcd = oo.parent
                    if nw == case["counts"][-1] or nw == case["counts"][0]:
                        qcd = d / f"qc-w{nw}"
                        qcd.mkdir()
                    run_destripe(V, b, oo, nbatch, nw, {"k_filter": True, "qc_path": qcd if qcd != oo.parent else None})
                    outs[nw] = oo.read_bytes()
                    res.count("orders_executed")
                    res.count("loky_runs")
                    if qcd != oo.parent:
                        for qf, shp in (("_iblqc_ephysSaturation.samples.npy", (ns,)), ("_iblqc_ephysTimeRmsAP.rms.npy", (K, n)), ("_iblqc_ephysTimeRmsAP.timestamps.npy", (K,))):
                            okq = (qcd / qf).exists() and np.load(qcd / qf).shape == shp
                            res.check(okq, "qc:requested-folder", f"{label}: {nw} workers, output_qc_path={qcd.name}: {qf} "
                                      f"{'has shape ' + str(np.load(qcd / qf).shape) if (qcd / qf).exists() else 'is not there'}, expected {shp}", counter="qc_files_in_requested_folder")
                    rms = np.load(qcd / "_iblqc_ephysTimeRmsAP.rms.npy")
                    res.check(rms.shape[0] == K, "qc:rms-rows:loky", f"{label}: {nw} workers: {rms.shape[0]} RMS rows for {K} batches")
                except Exception as e:
                    chunk = int(ns / nw)
                    sb = [int(np.ceil(i * chunk / nbatch)) for i in range(nw)]
                    rg = any(s > 0 and (s - 1) * stride + nbatch >= ns for s in sb)
                    res.exception("loky:exception" + (":start-beyond-last-batch" if rg else ""), e, f"{label} workers={nw}")
            if 1 in outs:
                res.check(len(outs[1]) == ns * rec.nc * 2, "output:size", f"{label}: size {len(outs[1])}")
                img = np.frombuffer(outs[1], np.int16).reshape(-1, rec.nc)
                bad = np.flatnonzero(img[:, -1] != rec.raw[:, -1])
                near = bad.size and any(a - 8 <= bad[0] <= e + 8 for a, e in rec.sat)
                res.check(bad.size == 0, "sync:muted-under-saturation" if near else "sync:not-copied", f"{label}: sync column differs at {bad.size} samples (first {bad[:1].tolist()}; saturated {rec.sat})",
                          counter="sync_columns_compared")
                for nw, by in outs.items():
                    res.check(by == outs[1], "loky:worker-count-dependence", f"{label}: {nw} loky workers give a file different from 1 worker")
            res.sig = f"loky-{ns}-{nbatch}"
            res.nontrivial = K >= 3
        elif cls == "append":
            nw = case["workers"]
            b1, rec1 = make_recording(rng, d, ns, n, "a")
            ns2 = int(rng.integers(13000, 24000))
            b2, rec2 = make_recording(rng, d, ns2, n, "b")
            label = f"append ns={ns}+{ns2} nbatch={nbatch} workers={nw}"
            V.Parallel = Scheduler
            Scheduler.mode, Scheduler.order = "inorder", None
            try:
                alone = d / "alone" / "out.bin"
                alone.parent.mkdir()
                run_destripe(V, b2, alone, nbatch, 1, {})
                out = d / "both" / "out.bin"
                out.parent.mkdir()
                run_destripe(V, b1, out, nbatch, nw, {})
                first = out.read_bytes()
                Scheduler.order = list(range(nw))[::-1]
                run_destripe(V, b2, out, nbatch, nw, {"append": True})
                res.count("orders_executed")
                both = out.read_bytes()
                res.check(both[:len(first)] == first, "append:previous-bytes-changed", f"{label}: the bytes of the first run changed")
                res.check(both[len(first):] == alone.read_bytes(), "append:not-concatenation", f"{label}: appended part ({len(both) - len(first)} bytes) is not the stand-alone "
                          f"output of the second recording ({alone.stat().st_size} bytes)")
                res.count("configs")
            except Exception as e:
                res.exception("append:exception", e, label)
            res.sig = f"append-{ns}-{nw}"
            res.nontrivial = True
    finally:
        V.Parallel = orig_parallel
    return res
