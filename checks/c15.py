"""C15 Bad-channel repair touches only bad channels; detection finds injected faults.

Monitors: return-value monitors on voltage.interpolate_bad_channels / detect_bad_channels, and an internal-call spy
(M7) on detect_bad_channels as called by detect_bad_channels_cbin (per-batch labels are recorded and the returned
labels must be their per-channel mode).  Oracles: bit-identity, convex-hull range of the admissible neighbours,
ground truth of the injected faults.
"""
import os

import numpy as np
import scipy.signal

from vlib import gen_meta as G
from vlib import gen_signal as GS
from vlib import monitors as M
from vlib.result import Result, rng_for, scratch

PROPERTY = "C15"
LEVEL = "exploration"
RULE = ("interpolation: label vectors over {0,1,2,3} (isolated, clusters of adjacent bad channels, both probe ends, all-bad neighbourhoods) x "
        "NP1 / NP2.1 / NP2.4 / NPultra geometries x random data with huge values on the bad rows; detection: coherent AP background (common "
        "300-4000 Hz component + LFP + weak independent noise) with an injected silent channel, a strong white-noise channel and a top block "
        "of 0..40 channels lacking the common component, faults >= 8 channels apart, positions over the whole probe; file mode: faults "
        "present in 7/10 vs 3/10 batches. Non-trivial: >= 1 dead, >= 1 noisy and a non-empty top block / >= 2 adjacent bad channels; distinct = "
        "distinct (geometry, label pattern) / (fault positions, block size)")
ASSUMPTIONS = ["a bad channel's admissible neighbours = non-bad channels whose distance-decay weight exp(-(d/20um)^1.3) is >= 0.005 (d <= 72.1 um)",
               "detection is judged on generated backgrounds only; the feature margins measured on the run are written to the evidence",
               "mode over batches is asserted only without ties (7/3 splits)"]
REQUIRED = {"detection_extreme_noise_recordings": 6, "file_mode_headers_announcing_less_than_the_file_holds": 1, "interp_cases": 40, "nonfinite_bad_rows": 20, "bad_rows_checked": 100, "untouched_rows_checked": 40, "detection_cases": 20, "file_mode_cases": 2, "spied_batches": 20, "plurality_channels": 1, "file_mode_cbin": 1, "file_mode_np1_own_maxint": 1, "file_mode_short_recordings": 1, "detection_offset_recordings": 8}
CASE_TIMEOUT = 200.0
KINDS = ["3B2", "NP2.1", "NP2.4", "NPultra"]


def gen_cases(seed, tier):
    n = 12 if tier == "quick" else 600
    cases = [{"cls": "interp", "seed": seed * 1000 + i, "n": 6, "_w": 1} for i in range(n)]
    cases += [{"cls": "detect", "seed": seed * 1000 + i, "n": 2, "_w": 4} for i in range(n)]
    cases += [{"cls": "detect-edge", "seed": seed * 1000 + i, "first": i == 0, "end": ["bottom", "top"][i % 2], "_w": 3} for i in range(max(7, n // 4))]
    cases += [{"cls": "file", "seed": seed * 1000 + i, "_w": 8} for i in range(max(4, n // 6))]
    # round 20: channels resting on their own DC level (as raw AP data do), the coherent background weaker than each channel's own noise
    cases += [{"cls": "detect-offsets", "seed": seed * 1000 + i, "n": 2, "_w": 4} for i in range(max(6, n // 3))]
    return cases


def background(rng, nc, ns, fs=30000.0, ntop=0):
    """coherent AP background: common band-limited component (40 uV, slowly varying gain along the probe) + common LFP + weak independent noise;
    the top block lacks the common components"""
    sos = scipy.signal.butter(3, [300 / fs * 2, 4000 / fs * 2], "bandpass", output="sos")
    common = scipy.signal.sosfiltfilt(sos, rng.standard_normal(ns + 2000))[1000:-1000]
    common *= 40e-6 / common.std()
    x = np.tile(common, (nc, 1)) * (1 + 0.1 * np.sin(np.arange(nc) / 50 + rng.uniform(0, 6)))[:, None]
    lfp = scipy.signal.sosfiltfilt(scipy.signal.butter(3, 100 / fs * 2, "lowpass", output="sos"), rng.standard_normal(ns + 2000))[1000:-1000]
    x += np.tile(lfp * 100e-6 / lfp.std(), (nc, 1))
    x += rng.standard_normal((nc, ns)) * 4e-6
    if ntop > 0:
        x[-ntop:] = rng.standard_normal((ntop, ns)) * 4e-6
    return x


def place_faults(rng, nc, ntop, ndead, nnoisy, positions=None):
    # the last channels are left alone: a silent channel at the very top IS a (one-channel) block lacking the common signal, either label is defensible
    cand = list(range(0, nc - ntop - 8))
    chosen = []
    want = ndead + nnoisy
    if positions is not None:
        chosen = list(positions)
    tries = 0
    while len(chosen) < want and tries < 1000:
        c = int(rng.choice(cand))
        if all(abs(c - d) >= 8 for d in chosen):
            chosen.append(c)
        tries += 1
    return np.array(chosen[:ndead], int), np.array(chosen[ndead:want], int)


def run_case(case):
    import ibldsp.voltage as V
    res = Result()
    rng = rng_for(case)
    cls = case["cls"]
    sigs = set()
    if cls == "interp":
        for _ in range(case["n"]):
            kind = str(rng.choice(KINDS))
            h = GS.header(kind)
            nc, ns = 384, int(rng.integers(5, 60))
            pattern = str(rng.choice(["isolated", "clusters", "ends", "dense-bad", "with-outside", "column", "inside-outside-block"]))
            labels = np.zeros(nc)
            if pattern == "isolated":
                labels[rng.choice(nc, int(rng.integers(1, 12)), replace=False)] = rng.choice([1, 2], 1)
            elif pattern == "clusters":
                for _k in range(int(rng.integers(1, 5))):
                    a = int(rng.integers(0, nc - 12))
                    labels[a:a + int(rng.integers(2, 12))] = rng.choice([1, 2])
            elif pattern == "ends":
                labels[:int(rng.integers(1, 6))] = 1
                labels[-int(rng.integers(1, 6)):] = 2
            elif pattern == "dense-bad":
                a = int(rng.integers(0, nc - 120))
                labels[a:a + int(rng.integers(40, 120))] = rng.choice([1, 2])      # bad channels with no admissible neighbour in the middle
            elif pattern == "with-outside":
                nt = int(rng.integers(1, 41))
                labels[-nt:] = 3
                labels[rng.choice(nc - nt, int(rng.integers(1, 10)), replace=False)] = 1
                labels[nc - nt - 1] = 2      # bad channel right below the outside block: outside channels are legitimate donors
            elif pattern == "inside-outside-block":
                nt = int(rng.integers(40, 120))      # outside-brain channels are legitimate donors: a bad channel deep inside the block has no other
                labels[-nt:] = 3
                labels[nc - nt // 2] = rng.choice([1, 2])
                labels[nc - 1] = rng.choice([1, 2])
            else:
                labels[np.flatnonzero(h["col"] == h["col"][0])[: int(rng.integers(3, 40))]] = 1
            dt = np.float64 if rng.random() < 0.7 else np.float32
            scale = float(10 ** rng.uniform(-5, 1))
            mode = str(rng.choice(["random", "constant", "positive"])) if pattern != "inside-outside-block" else "positive"
            if mode == "random":
                data = rng.standard_normal((nc, ns)) * scale
            elif mode == "constant":
                data = np.full((nc, ns), scale) * rng.choice([-1, 1])
            else:
                data = rng.uniform(0.5, 1.5, (nc, ns)) * scale
            bad = (labels == 1) | (labels == 2)
            data[bad] = 1e6 * scale * rng.choice([-1, 1], (int(bad.sum()), 1))      # any leak from a bad row shows
            garbage = str(rng.choice(["huge", "huge", "nan", "inf", "mixed"]))        # what a broken channel holds is irrelevant to its repair
            if garbage != "huge":
                g = data[bad]
                if garbage == "nan":
                    g[:] = np.nan
                elif garbage == "inf":
                    g[:] = np.inf * rng.choice([-1, 1], (g.shape[0], 1))
                else:
                    m = rng.random(g.shape)
                    g[m < 0.2] = np.nan
                    g[(m >= 0.2) & (m < 0.4)] = np.inf
                    g[(m >= 0.4) & (m < 0.5)] = -np.inf
                data[bad] = g
                res.count("nonfinite_bad_rows", int(bad.sum()))
            data = data.astype(dt)
            d0 = data.copy()
            label = f"{kind} pattern={pattern} nbad={int(bad.sum())} data={mode} bad rows hold {garbage} {np.dtype(dt).name}"
            pexp, krig = 1.3, 20.0
            res.count("interp_cases")
            try:
                pexp, krig = (1.3, 20.0) if rng.random() < 0.6 else (float(rng.choice([1.0, 1.3, 2.0])), float(rng.choice([10.0, 20.0, 40.0])))
                out = V.interpolate_bad_channels(data, labels.copy(), h["x"], h["y"], p=pexp, kriging_distance_um=krig)
            except Exception as e:
                res.exception("interp:exception", e, label)
                continue
            res.check(out.shape == d0.shape, "interp:shape", f"{label}: shape {out.shape}")
            good = ~bad
            res.check(np.array_equal(out[good], d0[good]), "interp:good-channel-modified", f"{label}: a channel labelled good / outside-brain was modified",
                      counter="untouched_rows_checked")
            xy = h["x"] + 1j * h["y"]
            nviol = 0
            for i in np.flatnonzero(bad):
                d = np.abs(xy - xy[i])
                w = np.exp(-((d / krig) ** pexp))
                donors = np.flatnonzero(good & (w >= 0.005))
                res.count("bad_rows_checked")
                if donors.size == 0:
                    if not np.all(out[i] == 0):
                        res.violation("interp:no-donor-not-zero", f"{label}: bad channel {i} has no admissible neighbour but is not filled with zeros ({out[i][:3]})")
                    continue
                lo, hi = d0[donors].min(axis=0).astype(np.float64), d0[donors].max(axis=0).astype(np.float64)
                tol = (1e-9 if dt == np.float64 else 1e-5) * scale
                o = out[i].astype(np.float64)
                if not np.all(np.isfinite(o)):
                    nviol += 1
                    if nviol <= 2:
                        res.violation("interp:non-finite-from-bad-row", f"{label}: repaired channel {i} is not finite although its {donors.size} admissible neighbours are")
                    continue
                if np.any(o < lo - tol) or np.any(o > hi + tol):
                    nviol += 1
                    j = int(np.argmax(np.maximum(lo - o, o - hi)))
                    key = "interp:outside-donor-range"
                    if abs(o[j]) < 1e3 * scale:        # no leak from a bad row: a weight-normalisation issue
                        key = "interp:not-convex:weights-rethresholded"
                    if nviol <= 2:
                        res.violation(key, f"{label}: bad channel {i} sample {j} = {o[j]:.6g} lies outside the range [{lo[j]:.6g}, {hi[j]:.6g}] of its {donors.size} "
                                      f"admissible neighbours")
            if np.sum(bad) >= 2:
                sigs.add((kind, pattern))
    elif cls in ("detect", "detect-edge", "detect-offsets"):
        fs, ns, nc = 30000.0, 9000, 384
        reps = case.get("n", 1)
        for rep in range(reps):
            ntop = int(rng.choice([0, 0, 1, 3, 6, 12, 25, 40]))
            top_end = cls == "detect-edge" and case.get("end") == "top" and not case.get("first", False)
            if top_end:
                ntop = 0                              # the silent channel sits 1..5 channels below the LAST channel of a probe that is fully inside
            x = background(rng, nc, ns, fs, ntop)
            if cls == "detect-offsets":
                # a white common component 2.5-3.5 times WEAKER than the private noise of each channel (the median over 384 channels still
                # recovers it), and every channel - the silent one too - resting on its own DC level within +-1.5 mV. Measured on the unchanged
                # tree (40 recordings): silent channel -0.97 (threshold -0.5), clear channels >= -0.13, PSD of clear channels <= 0.010 (0.02)
                priv = rng.uniform(6e-6, 11e-6)
                x = rng.standard_normal((nc, ns)) * priv
                x[: nc - ntop] += rng.standard_normal(ns) * priv / rng.uniform(2.5, 3.5)
            if cls == "detect-edge":
                first = case.get("first", False)      # the first edge case of every run puts the silent channel on channel 0
                if top_end:
                    pos = [int(nc - 1 - int(rng.integers(1, 6))), int(rng.integers(40, 300))]
                    dead, noisy = place_faults(rng, nc, ntop, 1, 1, positions=pos)
                else:
                    pos = [0 if first else int(rng.choice([1, 2, 3, 4, 5])), int(nc - ntop - 9 - int(rng.integers(0, 3)))]
                    dead, noisy = place_faults(rng, nc, ntop, 1, 1, positions=pos if (first or rng.random() < 0.7) else pos[::-1])
            else:
                dead, noisy = place_faults(rng, nc, ntop, int(rng.integers(1, 3)), int(rng.integers(1, 3)))
                dead, noisy = dead[dead >= 6], noisy      # channels 0..5 are the 'edge' class
            exp = np.zeros(nc)
            if ntop:
                exp[-ntop:] = 3
            if ntop >= 6 and cls == "detect" and rng.random() < 0.6:
                # a strongly noisy channel INSIDE the outside-brain block is still a noisy channel (and must be repaired, not ignored)
                noisy = np.r_[noisy, nc - 1 - int(rng.integers(1, ntop - 2))]
            x[dead] = rng.standard_normal((dead.size, ns)) * 1e-7
            extreme = cls == "detect" and rep == 0
            if extreme:
                # round 22: a quiet recording (common component 10 uV) with ONE channel railing - broadband noise of 4-8 mV, several hundred times the
                # background (a broken site on a low-gain channel): it is noisy, and it is the only thing it changes
                x *= 0.25
                x[dead] = rng.standard_normal((dead.size, ns)) * 1e-7
                noisy = noisy[:1]
                x[noisy] = rng.standard_normal((noisy.size, ns)) * float(rng.uniform(4e-3, 8e-3))
                res.count("detection_extreme_noise_recordings")
            elif rng.random() < 0.5:
                x[noisy] += rng.standard_normal((noisy.size, ns)) * 200e-6
            else:                       # strong broadband noise and nothing else on that channel
                x[noisy] = rng.standard_normal((noisy.size, ns)) * 200e-6
            exp[dead] = 1
            exp[noisy] = 2
            label = f"top block={ntop} dead={dead.tolist()} noisy={noisy.tolist()}"
            if cls == "detect-offsets":
                x += rng.uniform(-1.5e-3, 1.5e-3, nc)[:, None]
                label = "channels on their own DC levels, weak common background: " + label
                res.count("detection_offset_recordings")
            res.count("detection_cases")
            try:
                lab, feat = V.detect_bad_channels(x.copy(), fs)
            except Exception as e:
                res.exception("detect:exception", e, label)
                continue
            wrong = np.flatnonzero(lab != exp)
            if wrong.size:
                key = "detect:labels" + (":dc-offsets" if cls == "detect-offsets" else "") + (":one-railing-channel" if (cls == "detect" and rep == 0) else "")
                if wrong.tolist() == [0] and 0 in dead.tolist() and lab[0] == 0:
                    key = "detect:dead-channel-0-missed"      # mechanism: the 11-point median detrend pads the edge with the edge value itself
                res.violation(key, f"{label}: labels differ at channels {wrong[:8].tolist()}: got {lab[wrong][:8].tolist()} expected {exp[wrong][:8].tolist()} "
                              f"(xcor_hf {np.round(feat['xcor_hf'][wrong][:4], 2).tolist()})")
            res.count("oracle_evaluations")
            # ---- the labels do not depend on whether the diagnostic figure is asked for (display=True draws it off-screen here)
            if ntop and res.observed.get("display_runs", 0) < 2:
                try:
                    os.environ.setdefault("MPLBACKEND", "Agg")
                    import matplotlib
                    matplotlib.use("Agg", force=True)
                    import matplotlib.pyplot as plt
                    lab_d, _ = V.detect_bad_channels(x.copy(), fs, display=True)
                    plt.close("all")
                    res.check(np.array_equal(lab_d, lab), "detect:display-changes-labels", f"{label}: display=True returns other labels at channels {np.flatnonzero(lab_d != lab)[:8].tolist()}: "
                              f"{lab_d[lab_d != lab][:8].tolist()} instead of {lab[lab_d != lab][:8].tolist()}", counter="display_runs")
                except ImportError:
                    pass
            # margins (for the evidence)
            ok = exp == 0
            if dead.size:
                res.measure("max_xcor_hf_dead (threshold -0.5)", float(np.max(feat["xcor_hf"][dead])))
            res.measure("min_xcor_hf_good (threshold -0.5)", float(np.min(feat["xcor_hf"][ok])), kind="min")
            res.measure("max_psd_hf_good (threshold 0.02)", float(np.max(feat["psd_hf"][ok])))
            if noisy.size:
                res.measure("min_psd_hf_noisy (threshold 0.02)", float(np.min(feat["psd_hf"][noisy])), kind="min")
            if ntop:
                res.measure("max_xcor_lf_outside (threshold -0.75)", float(np.max(feat["xcor_lf"][exp == 3])))
            res.measure("min_xcor_lf_inside (threshold -0.75)", float(np.min(feat["xcor_lf"][ok])), kind="min")
            if dead.size and noisy.size and ntop:
                sigs.add((tuple(dead.tolist()), tuple(noisy.tolist()), ntop))
    elif cls == "file":
        fs = 30000.0
        n = 96
        nb = 10
        bdur = 0.3
        ns = int(3.6 * fs)
        d = scratch()
        ci = case["seed"] % 1000                                            # ordinal of the file-mode case within the run
        short = ci % 3 == 2
        if short:
            # a recording shorter than n_batches x batch_duration (a test run, an excerpt): the evenly spaced batches overlap, there are still
            # n_batches of them, and stationary faults are found as in any other file (round 19)
            ns = int(float(rng.uniform(1.0, 1.7)) * fs)
        fkind = ["NP2.1", "3B2", "NP2.4", "3B2"][ci % 4]                  # every generation (its own volts-per-bit path) ...
        fnsync = [0, 1, 1, 0][ci % 4]                                       # ... and recordings saved without the sync channel
        fgains = None
        fsites = G.draw_sites(rng, fkind, n, "dense")
        if fkind == "3B2":
            # NP1: the sites saved in an order that is not the probe order, and AP gains that differ from channel to channel (250 / 500 / 1000)
            fsites = G.draw_sites(rng, fkind, n, "random")
            fgains = np.c_[rng.choice([250, 500, 1000], 384), np.full(384, 250)]
        fmaxint = None
        if fkind == "3B2":
            fmaxint = (512, 2048, 512, 1024)[ci % 4]       # NP1-family headers that announce their own ADC range (imMaxInt)
        # round 21: a flat recording whose header was saved while the file was still being appended to - it announces 40-70 % of the samples the
        # file holds.  The file is what it physically holds: the batches are spread over ALL of it and the labels are the mode over those
        stale = ci % 4 == 1 and not short
        claim = int(ns * float(rng.uniform(0.4, 0.7))) if stale else None
        if stale:
            res.count("file_mode_headers_announcing_less_than_the_file_holds")
        rec = G.make(rng, kind=fkind, sites=fsites, gains=fgains, ns=ns, raw=np.zeros((1, 1), np.int16), nsync=fnsync, maxint=fmaxint, claim_ns=claim)
        if fmaxint not in (None, 512):
            res.count("file_mode_np1_own_maxint")
        if fkind == "3B2":
            res.count("file_mode_permuted_mixed_gains", int(not np.array_equal(rec.order, np.arange(n)) and len(np.unique(rec.s2v[:n])) > 1))
        s2v = rec.s2v[:n]
        raw = np.zeros((ns, n + fnsync), np.int16)
        starts = [int(t0 * fs) for t0 in np.linspace(0, ns / fs - bdur, nb)]
        often, seldom = int(rng.integers(8, 28)), int(rng.integers(62, 88))      # channel faulty in 7 of 10 batches / in 3 of 10 batches
        kind_often, kind_seldom = str(rng.choice(["dead", "noisy"])), str(rng.choice(["dead", "noisy"]))
        in7 = set(rng.choice(nb, 7, replace=False).tolist())
        in3 = set(rng.choice(nb, 3, replace=False).tolist())
        if short:
            in7, in3 = set(range(nb)), set()
            res.count("file_mode_short_recordings")
        # a channel whose state changes over the file between three values: its most frequent label is a plurality, not a majority
        mixed = int(rng.integers(38, 52))
        plur, other = ("dead", "noisy") if rng.random() < 0.5 else ("noisy", "dead")
        perm = rng.permutation(nb).tolist()
        mixed_state = {bb: ([plur] * 4 + [other] * 3 + ["clean"] * 3)[j] for j, bb in enumerate(perm)}
        if short:
            mixed_state = {bb: "clean" for bb in perm}
        # gaps between batches hold plain background
        pos = 0
        seg_bounds = []
        for t0 in np.linspace(0, ns / fs - bdur, nb):
            seg_bounds.append((int(t0 * fs), int((t0 + bdur) * fs)))
        filler = background(rng, n, ns, fs)
        # rows of the signal arrays below are in the READER's channel order (sorted by shank, row, column - what detect_bad_channels_cbin analyses and what
        # its labels are indexed by); column order[j] of the file holds row j
        order = np.asarray(rec.order, int)
        raw[:, order] = np.clip(np.round(filler.T / s2v[order][None, :]), -32768, 32767).astype(np.int16)
        for b, (s0, s1) in enumerate(seg_bounds):
            seg = background(rng, n, s1 - s0, fs)
            for ch, kd, present in ((often, kind_often, b in in7), (seldom, kind_seldom, b in in3), (mixed, mixed_state[b], mixed_state[b] != "clean")):
                if present:
                    if kd == "dead":
                        seg[ch] = rng.standard_normal(s1 - s0) * 1e-7
                    else:
                        seg[ch] += rng.standard_normal(s1 - s0) * 200e-6
            raw[s0:s1, order] = np.clip(np.round(seg.T / s2v[order][None, :]), -32768, 32767).astype(np.int16)
        rec.raw = raw
        b = G.write(rec, d)
        use_c = bool((ci // 2) % 2)                                # compressed and flat recordings alternate (both in every run)
        label = f"file mode ({fkind}, {fnsync} sync channel): ch {often} {kind_often} in 7/10 batches, ch {seldom} {kind_seldom} in 3/10 batches, {'cbin' if use_c else 'bin'}"
        if stale:
            label += f" [header announces {claim} of {ns} samples]"
        import spikeglx
        try:
            if use_c:
                sr = spikeglx.Reader(b)
                sr.compress_file(keep_original=False)
                sr.close()
                b = b.with_suffix(".cbin")
            spy = M.Spy(V.detect_bad_channels)
            V.detect_bad_channels = spy
            try:
                handed = b if rng.random() < 0.5 else spikeglx.Reader(b)
                flags = V.detect_bad_channels_cbin(handed, n_batches=nb, batch_duration=bdur)
            finally:
                V.detect_bad_channels = spy.fn
            res.count("file_mode_cases")
            res.count("file_mode_cbin", int(use_c))
            per = np.array([c[2][0] for c in spy.calls if not c[3]])
            res.count("spied_batches", len(per))
            res.check(per.shape == (nb, n), "file:batches", f"{label}: {per.shape[0]} batches analysed with {per.shape[1] if per.ndim == 2 else '?'} channels, expected ({nb}, {n})")
            flags = np.asarray(flags).ravel()
            if per.shape == (nb, n):
                mode = np.zeros(n)
                ties = np.zeros(n, bool)
                for c in range(n):
                    vals, cnt = np.unique(per[:, c], return_counts=True)
                    mode[c] = vals[np.argmax(cnt)]
                    ties[c] = np.sum(cnt == cnt.max()) > 1
                res.check(flags.shape == (n,) and np.array_equal(flags[~ties], mode[~ties]), "file:not-the-mode",
                          f"{label}: returned labels are not the per-channel mode of the batch labels (differs at {np.flatnonzero(flags != mode)[:6].tolist()})")
                want = 1 if kind_often == "dead" else 2
                res.check(flags[often] == want, "file:majority-fault-not-flagged", f"{label}: channel {often} got label {flags[often]}, batch labels {per[:, often].tolist()}")
                res.check(flags[seldom] == 0, "file:minority-fault-flagged", f"{label}: channel {seldom} got label {flags[seldom]}, batch labels {per[:, seldom].tolist()}")
                wantm = 1 if plur == "dead" else 2
                cntm = np.bincount(per[:, mixed].astype(int), minlength=4)
                if cntm[wantm] > max(cntm[k] for k in range(4) if k != wantm):      # judged only when the detector itself saw the plurality
                    res.check(flags[mixed] == wantm, "file:plurality-label-not-returned", f"{label}: channel {mixed} ({plur} in 4, {other} in 3, clean in 3 batches) got label "
                              f"{flags[mixed]}, batch labels {per[:, mixed].tolist()}", counter="plurality_channels")
                # the slices handed to the detector are the evenly spaced batches of the file
                srx = spikeglx.Reader(b, sort=False)
                for k, c in enumerate(spy.calls[:nb]):
                    a = c[0][0]
                    s0, s1 = seg_bounds[k]
                    m = min(a.shape[1], s1 - s0) - 2
                    # batches are spread over the whole file: batch k is the k-th evenly spaced excerpt
                    exp_k = (raw[s0:s0 + m, order].astype(np.float32) * rec.s2v[order].astype(np.float32)[None, :]).T
                    okk = any(a.shape[1] >= m + sh and np.allclose(a[:, sh:sh + m], exp_k, rtol=1e-6, atol=0) for sh in (0, 1))
                    res.check(okk, "file:batch-position", f"{label}: batch {k} is not the excerpt starting at sample {s0} (+-1) of the file")
                srx.close()
                for k, c in enumerate(spy.calls[:nb]):
                    a = c[0][0]
                    s0, s1 = seg_bounds[k]
                    res.check(a.shape[0] == n and abs(a.shape[1] - int(bdur * fs)) <= 1, "file:batch-slice", f"{label}: batch {k} has shape {a.shape}, expected ({n}, ~{int(bdur * fs)})")
            sigs.add((often, seldom, kind_often, kind_seldom))
        except Exception as e:
            res.exception("file:exception", e, label)
    res.sig = f"{cls}-{case['seed']}"
    res.nontrivial = len(sigs) > 0
    res.nt = len(sigs)
    return res
