"""C20 Denoising, smoothing and counting utilities conserve what they must.

Monitors: return-value monitors on cadzow.denoise, voltage.svd_denoise_npx, smooth.lp / rolling_window /
non_uniform_savgol / smooth_interpolate_savgol, spiketrains.spikes_venn2/3 and voltage.stack, judged by identity /
polynomial-reproduction / conservation predicates that do not share code with the implementation.
"""
import io
import contextlib

import numpy as np

from vlib.result import Result, rng_for

PROPERTY = "C20"
LEVEL = "exploration"
RULE = ("cadzow: full rectangular site grids 1-4 columns x 4-40 rows in shuffled trace order, rank = full / single plane wave at rank 1 / "
        "low-rank + noise; svd_denoise_npx with rank = nc (with / without collections) and rank-2 data; smoothers on constants and random "
        "signals for all five windows and lengths 3..31; non_uniform_savgol on polynomials of degree <= order (1..4) over irregular abscissae, "
        "windows 5..31; NaN patterns; 2-3 sorters' spike trains with chunk sizes {None, 7, 12345, 30000, 600000}; label vectors for stack. "
        "Non-trivial: grid with >= 2 columns / >= 2 spikes per bin somewhere / >= 2 labels with fold > 1; distinct = distinct (function, shape, "
        "parameters) signature")
ASSUMPTIONS = ["spike times are sorted (as produced by spike sorters)", "floating point tolerances: identities 1e-10 relative, polynomial reproduction rtol 1e-6"]
REQUIRED = {"stack_second_steps": 20, "venn_crowded_bins": 20, "smooth_call_histories": 100, "smooth_integer_constants": 20, "cadzow_np1_identity": 6, "cadzow_identity": 10, "cadzow_planewave": 10, "svd_identity": 10, "svd_offset_identity": 10, "smooth_constants": 30, "savgol_polynomials": 30, "savgol_nan": 10,
            "venn_conservation": 20, "stack_checked": 10}
CASE_TIMEOUT = 200.0


def gen_cases(seed, tier):
    n = 14 if tier == "quick" else 600
    cases = []
    for cls, w in (("cadzow", 2), ("svd", 1), ("smooth", 1), ("savgol", 2), ("venn", 2), ("stack", 1)):
        cases += [{"cls": cls, "seed": seed * 10000 + i, "n": 4, "_w": w} for i in range(n)]
    cases += [{"cls": "cadzow-np1", "seed": seed * 10000 + 9000 + i, "_w": 3} for i in range(2 if tier == "quick" else 12)]
    return cases


def run_case(case):
    res = Result()
    rng = rng_for(case)
    cls = case["cls"]
    sigs = set()
    if cls == "cadzow-np1":
        # the probe-level driver of the trajectory-matrix denoiser (sliding windows of channels, cross-faded): at the full rank of its windows it returns
        # band-limited data unchanged, for every documented (overlap, window) working set
        import ibldsp.cadzow as CZ
        import neuropixel
        import scipy.fft
        h = neuropixel.trace_header(version=1)
        fs, fmax = 30000.0, 7500.0
        ns = int(rng.choice([32, 48, 64]))
        Wf = scipy.fft.rfft(rng.standard_normal((384, ns)) * float(10 ** rng.uniform(-6, 0)))
        Wf[:, scipy.fft.rfftfreq(ns, 1 / fs) >= fmax - 1] = 0
        wav = scipy.fft.irfft(Wf, n=ns)
        for ovx, nswx in ((16, 32), (32, 64), (24, 64), (8, 16)):
            T, _, _, _ = CZ.trajectory(h["x"][:nswx], h["y"][:nswx])
            rfull = int(min(T.shape))
            label = f"cadzow_np1 ns={ns} ovx={ovx} nswx={nswx} rank={rfull} (full)"
            try:
                out = CZ.cadzow_np1(wav.copy(), fs=fs, rank=rfull, fmax=fmax, ovx=ovx, nswx=nswx)
                err = np.max(np.abs(out - wav)) / np.max(np.abs(wav)) if out.shape == wav.shape else np.inf
                res.check(err <= 1e-9, "cadzow:np1-full-rank-identity", f"{label}: band-limited data come back changed by {err:.3g} (relative)", counter="cadzow_np1_identity")
            except Exception as e:
                res.exception("cadzow:np1:exception", e, label)
        sigs.add(("cadzow-np1", ns))
    elif cls == "cadzow":
        import ibldsp.cadzow as CZ
        for _ in range(case["n"]):
            ncol, nrow = int(rng.integers(1, 5)), int(rng.integers(4, 41))
            if ncol * nrow > 100:
                nrow = 100 // ncol      # SVD per frequency of a (nrow/2*ncol/2)^2 matrix: keep the run time bounded
            cx, cy = np.meshgrid(np.arange(ncol) * float(rng.choice([16.0, 32.0])), np.arange(nrow) * float(rng.choice([15.0, 20.0])), indexing="ij")
            perm = rng.permutation(ncol * nrow)
            x, y = cx.ravel()[perm], cy.ravel()[perm] + 20
            nf = int(rng.integers(2, 6))
            nc = ncol * nrow
            label = f"grid {ncol}x{nrow} nf={nf}"
            T, it, itr, trc = CZ.trajectory(x, y)
            rfull = min(T.shape)
            try:
                # (i) rank >= rank of the data => identity
                # (the units of the data are the caller's: spectra of recordings in Volts, in counts, of weak bins - any amplitude scale)
                scale = float(10 ** rng.uniform(-13, 6)) if rng.random() < 0.6 else 1.0
                label += f" scale={scale:.1e}"
                W = (rng.standard_normal((nc, nf)) + 1j * rng.standard_normal((nc, nf))) * scale
                W0 = W.copy()
                out = CZ.denoise(W, x, y, rfull)
                err = np.max(np.abs(out - W0)) / np.max(np.abs(W0))
                res.check(out.shape == W0.shape and err <= 1e-10, "cadzow:full-rank-identity", f"{label}: rank {rfull} (full) changes the data by {err:.3g}",
                          counter="cadzow_identity")
                res.check(np.array_equal(W, W0), "cadzow:input-mutated", f"{label}: input spectrum modified")
                # an explicit bound that keeps the whole band is still the identity; a smaller one leaves the kept bins untouched by the others
                for im in (nf, nf + int(rng.integers(1, 5))):
                    out = CZ.denoise(W0.copy(), x, y, rfull, imax=im)
                    err = np.max(np.abs(out - W0)) / np.max(np.abs(W0))
                    res.check(err <= 1e-10, "cadzow:full-rank-identity:imax", f"{label}: rank {rfull} (full) with imax={im} >= {nf} bins changes the data by {err:.3g}", counter="cadzow_identity")
                if nf > 2:
                    im = int(rng.integers(1, nf))
                    out = CZ.denoise(W0.copy(), x, y, rfull, imax=im)
                    err = np.max(np.abs(out[:, :im] - W0[:, :im])) / np.max(np.abs(W0))
                    res.check(err <= 1e-10, "cadzow:full-rank-identity:imax", f"{label}: rank {rfull} (full) with imax={im}: the kept bins change by {err:.3g}")
                out = CZ.denoise(W0.copy(), x, y, rfull, niter=int(rng.integers(2, 4)))
                res.check(np.max(np.abs(out - W0)) / np.max(np.abs(W0)) <= 1e-9, "cadzow:full-rank-identity:niter", f"{label}: several iterations at full rank change the data")
                # every trace is used: trace counts positive
                res.check(np.all(trc > 0) and trc.size == nc, "cadzow:trajectory-coverage", f"{label}: trace counts {trc[:8]}")
                # (ii) a single plane wave has rank one
                kx, ky = rng.uniform(-0.05, 0.05, 2)
                amp = (rng.standard_normal(nf) + 1j * rng.standard_normal(nf)) * scale
                P = np.exp(1j * (kx * x + ky * y))[:, None] * amp[None, :]
                out = CZ.denoise(P.copy(), x, y, 1)
                err = np.max(np.abs(out - P)) / np.max(np.abs(P))
                res.check(err <= 1e-10, "cadzow:plane-wave-rank1", f"{label}: a single plane wave is changed by rank-1 denoising ({err:.3g})", counter="cadzow_planewave")
                # (iii) low rank + noise: error to the clean signal decreases
                if rfull >= 8:      # rank 2 out of >= 8: the rank reduction discards at least 3/4 of the noise subspace
                    k2 = rng.uniform(-0.05, 0.05, (2, 2))
                    clean = sum(np.exp(1j * (k2[j, 0] * x + k2[j, 1] * y))[:, None] * (rng.standard_normal(nf) + 1j * rng.standard_normal(nf))[None, :] for j in range(2))
                    noise = 0.3 * (rng.standard_normal((nc, nf)) + 1j * rng.standard_normal((nc, nf)))
                    out = CZ.denoise(clean + noise, x, y, 2)
                    e0 = np.linalg.norm(noise)
                    e1 = np.linalg.norm(out - clean)
                    res.measure("max_cadzow_error_ratio", e1 / e0)
                    res.check(e1 < e0, "cadzow:noise-not-reduced", f"{label}: rank-2 denoising of 2 plane waves + noise: error {e1:.3f} >= noise {e0:.3f}")
                if ncol >= 2:
                    sigs.add(("cadzow", ncol, nrow))
            except Exception as e:
                res.exception("cadzow:exception", e, label)
    elif cls == "svd":
        import ibldsp.voltage as V
        for _ in range(case["n"]):
            nc, ns = int(rng.integers(4, 60)), int(rng.integers(60, 300))
            X = rng.standard_normal((nc, ns))
            label = f"svd nc={nc} ns={ns}"
            try:
                out = V.svd_denoise_npx(X.copy(), rank=nc)
                err = np.max(np.abs(out - X)) / np.max(np.abs(X))
                res.check(out.shape == X.shape and err <= 1e-10, "svd:full-rank-identity", f"{label}: rank=nc changes the data by {err:.3g}", counter="svd_identity")
                ngr = int(rng.integers(2, 5))
                coll = rng.integers(0, ngr, nc)
                out = V.svd_denoise_npx(X.copy(), rank=nc, collection=coll)
                err = np.max(np.abs(out - X)) / np.max(np.abs(X))
                res.check(err <= 1e-10, "svd:full-rank-identity-collections", f"{label}: rank=nc with {ngr} collections changes the data by {err:.3g}", counter="svd_identity")
                # rank-2 data + noise at rank 2 (rank argument scaled so that the effective rank is 2)
                A = rng.standard_normal((nc, 2)) @ rng.standard_normal((2, ns))
                noise = 0.2 * rng.standard_normal((nc, ns))
                out = V.svd_denoise_npx(A + noise, rank=2)
                e1, e0 = np.linalg.norm(out - A), np.linalg.norm(noise)
                if nc >= 8:
                    res.measure("max_svd_error_ratio", e1 / e0)
                    res.check(e1 < e0, "svd:noise-not-reduced", f"{label}: rank-2 denoising: error {e1:.3f} >= noise {e0:.3f}")
                out = V.svd_denoise_npx(A.copy(), rank=2)
                res.check(np.max(np.abs(out - A)) / np.max(np.abs(A)) <= 1e-10, "svd:rank2-identity", f"{label}: rank-2 data changed at rank 2")
                # channels with their own baseline: rank-2 activity + one offset per channel has rank <= 3, so rank 3 (and anything above)
                # returns it unchanged - offsets are data like everything else (round 19)
                off = rng.uniform(2, 20, nc) * rng.choice([-1, 1], nc)
                B = A + off[:, None]
                for rk in (3, min(nc, 5)):
                    if rk < 3:
                        continue
                    out = V.svd_denoise_npx(B.copy(), rank=rk)
                    err = np.max(np.abs(out - B)) / np.max(np.abs(B))
                    res.check(out.shape == B.shape and err <= 1e-9, "svd:offset-data-identity", f"{label}: rank-2 activity + per-channel offsets (rank 3) changed by {err:.3g} at rank {rk}", counter="svd_offset_identity")
                msz = int(np.min(np.unique(coll, return_counts=True)[1]))
                if msz >= 4:
                    # the library gives each collection int(rank * size / nc) components: ask for enough that every group gets >= 3
                    rk = min(nc, int(np.ceil(3 * nc / msz)) + 1)
                    out = V.svd_denoise_npx(B.copy(), rank=rk, collection=coll)
                    err = np.max(np.abs(out - B)) / np.max(np.abs(B))
                    res.check(err <= 1e-9, "svd:offset-data-identity-collections", f"{label}: rank-3 data with offsets changed by {err:.3g} at rank {rk} (>= 3 per collection, smallest of {msz} channels)")
                if nc >= 8:
                    out = V.svd_denoise_npx(B + noise, rank=3)
                    e1 = np.linalg.norm(out - B)
                    res.check(e1 < e0, "svd:noise-not-reduced:offsets", f"{label}: rank-3 denoising of offset data: error {e1:.3f} >= noise {e0:.3f}")
                sigs.add(("svd", nc))
            except Exception as e:
                res.exception("svd:exception", e, label)
    elif cls == "smooth":
        import ibldsp.smooth as SM
        for _ in range(case["n"]):
            for win in ("flat", "hanning", "hamming", "bartlett", "blackman"):
                wl = int(rng.integers(3, 32))
                n = int(rng.integers(wl, 400))
                c = float(rng.uniform(-5, 5))
                label = f"rolling_window {win} wl={wl} n={n}"
                try:
                    out = SM.rolling_window(np.full(n, c), window_len=wl, window=win)
                    res.check(out.shape == (n,), "smooth:rolling-length", f"{label}: output length {out.shape}", counter="smooth_constants")
                    if out.shape == (n,):
                        res.check(np.max(np.abs(out - c)) <= 1e-12 * max(1, abs(c)), "smooth:rolling-constant", f"{label}: constant {c} becomes {out[:3]}")
                    xr = rng.standard_normal(n)
                    o2 = SM.rolling_window(xr, window_len=wl, window=win)
                    res.check(o2.shape == (n,), "smooth:rolling-length", f"{label}: random input: output length {o2.shape}")
                    o3 = SM.rolling_window(list(xr), window_len=wl, window=win)
                    res.check(np.array_equal(o3, o2), "smooth:rolling-list", f"{label}: list input differs from array input")
                except Exception as e:
                    res.exception("smooth:rolling-exception", e, label)
            n = int(rng.integers(8, 600))
            f0 = float(rng.uniform(0.02, 0.6))
            fac = [f0, f0 + float(rng.uniform(0.02, 0.3))]
            pad = float(rng.choice([0.2, 0.2, 0.05, 0.5, 1.0]))
            u = rng.random()
            if u < 0.15:
                pad = 0.0                                         # "between 0 and 1": no padding at all
            elif u < 0.35:
                pad = float(rng.uniform(0.02, 0.98)) / n          # fewer than one padding sample asked for
            elif u < 0.45:
                pad = float(rng.integers(1, 4)) / n               # exactly 1..3 padding samples
            c = float(rng.uniform(-5, 5))
            label = f"lp n={n} fac={np.round(fac, 3).tolist()} pad={pad:.6g} (n*pad={n * pad:.3g})"
            try:
                out = SM.lp(np.full(n, c), fac, pad=pad)
                res.check(out.shape == (n,), "smooth:lp-length" + (":pad0" if pad == 0 else ""), f"{label}: output length {out.shape}", counter="smooth_constants")
                if out.shape == (n,):
                    res.check(np.max(np.abs(out - c)) <= 1e-12 * max(1, abs(c)), "smooth:lp-constant", f"{label}: constant {c} becomes {out[:3]}")
                # constants stored as integers (counts per bin, pixel positions, raw samples): the same constant comes back, whatever type it comes back in
                ci = int(rng.integers(-300, 300))
                dti = [np.int64, np.int32, np.int16][int(rng.integers(0, 3))]
                outi = SM.lp(np.full(n, ci, dtype=dti), fac, pad=pad)
                res.check(outi.shape == (n,) and np.max(np.abs(np.asarray(outi, np.float64) - ci)) <= 1e-9 * max(1, abs(ci)), "smooth:lp-constant:integer-series",
                          f"{label}: the {np.dtype(dti).name} constant {ci} becomes {np.unique(outi)[:4]} ({np.asarray(outi).dtype})", counter="smooth_integer_constants")
                xr = rng.standard_normal(n)
                res.check(SM.lp(xr, fac, pad=pad).shape == (n,), "smooth:lp-length" + (":pad0" if pad == 0 else ""), f"{label}: random input changes length")
                sigs.add(("smooth", n // 50))
            except Exception as e:
                res.exception("smooth:lp-exception", e, label)
            # call histories (round 21): a smoother is a function of its arguments.  Several calls on series of ONE length and padding with different
            # corner pairs, highest first (the order in which a caller tunes a smoother down), then in random order: every constant comes back, and
            # repeating the very first call at the end gives the very same numbers
            nh = int(rng.integers(8, 600))
            padh = float(rng.choice([0.2, 0.05, 0.5]))
            f0s = np.sort(rng.uniform(0.01, 0.6, 4))[::-1]
            facs = [[float(f), float(f + rng.uniform(0.02, 0.3))] for f in f0s]
            order = list(range(4)) + [int(k) for k in rng.permutation(4)]
            xh = rng.standard_normal(nh)
            label = f"lp call history n={nh} pad={padh} corners={np.round(facs, 3).tolist()} order={order}"
            try:
                first = SM.lp(xh, facs[0], pad=padh)
                for k in order:
                    ch = float(rng.uniform(-5, 5))
                    outh = SM.lp(np.full(nh, ch), facs[k], pad=padh)
                    res.check(outh.shape == (nh,) and np.max(np.abs(outh - ch)) <= 1e-12 * max(1, abs(ch)), "smooth:lp-constant:call-history",
                              f"{label}: call with corners {np.round(facs[k], 3).tolist()}: constant {ch} becomes {np.asarray(outh)[:3]}", counter="smooth_call_histories")
                again = SM.lp(xh, facs[0], pad=padh)
                res.check(np.array_equal(first, again), "smooth:lp:call-history", f"{label}: the first call repeated after the others differs by "
                          f"{float(np.max(np.abs(np.asarray(first) - np.asarray(again)))) if np.shape(first) == np.shape(again) else 'shape'}")
                # the same history through the spectral low-pass the smoother is built on (sampling interval 1, corners in cycles per sample)
                import ibldsp.fourier as FO
                for k in order:
                    ch = float(rng.uniform(-5, 5))
                    outf = FO.lp(np.full(nh, ch), 1.0, [facs[k][0] / 2, facs[k][1] / 2])
                    res.check(np.max(np.abs(outf - ch)) <= 1e-9 * max(1, abs(ch)), "fourier-lp-constant:call-history",
                              f"{label}: fourier.lp corners {np.round(facs[k], 3).tolist()}/2: constant {ch} becomes {np.asarray(outf)[:3]}")
            except Exception as e:
                res.exception("smooth:lp-exception:call-history", e, label)
    elif cls == "savgol":
        import ibldsp.smooth as SM
        for _ in range(case["n"]):
            window = int(rng.choice(np.arange(5, 32, 2)))
            order = int(rng.integers(1, min(5, window)))
            n = int(rng.integers(window, 200)) if rng.random() < 0.9 else window
            x = np.cumsum(rng.uniform(0.5, 1.5, n)) + float(rng.uniform(-50, 50))
            deg = int(rng.integers(0, order + 1))
            coef = rng.standard_normal(deg + 1)
            xc = (x - x.mean()) / (x.std() + 1e-9)
            y = sum(c * xc ** k for k, c in enumerate(coef))
            label = f"savgol window={window} order={order} degree={deg} n={n}"
            try:
                out = SM.non_uniform_savgol(x, y, window, order)
                scale = np.max(np.abs(y)) + 1e-12
                err = np.max(np.abs(out - y)) / scale
                res.measure("max_savgol_poly_error", err)
                res.check(out.shape == y.shape and err <= 1e-6, "savgol:polynomial", f"{label}: polynomial not reproduced (rel err {err:.3g})", counter="savgol_polynomials")
                sigs.add(("savgol", window, order, deg))
            except Exception as e:
                res.exception("savgol:exception" + (":signal-as-long-as-window" if n == window else ""), e, label)
            # NaN gaps filled with finite values
            n = int(rng.integers(80, 400))
            sig = np.cumsum(rng.standard_normal(n)) * 0.1 + np.sin(np.arange(n) / 9.0)
            pat = str(rng.choice(["scattered", "runs", "edges"]))
            mask = np.zeros(n, bool)
            if pat == "scattered":
                mask[rng.choice(n, int(n * rng.uniform(0.02, 0.3)), replace=False)] = True
            elif pat == "runs":
                for _r in range(int(rng.integers(1, 5))):
                    a = int(rng.integers(0, n - 12))
                    mask[a:a + int(rng.integers(2, 12))] = True
            else:
                mask[:int(rng.integers(1, 6))] = True
                mask[-int(rng.integers(1, 6)):] = True
            sig[mask] = np.nan
            w2 = int(rng.choice([5, 11, 21, 31]))
            o2 = int(rng.integers(1, 4))
            kind = str(rng.choice(["linear", "cubic", "quadratic"]))
            label = f"smooth_interpolate_savgol n={n} nan={int(mask.sum())} pattern={pat} window={w2} order={o2} {kind}"
            if (~mask).sum() >= w2 + 2:
                try:
                    s0 = sig.copy()
                    out = SM.smooth_interpolate_savgol(sig, window=w2, order=o2, interp_kind=kind)
                    res.check(out.shape == (n,) and np.all(np.isfinite(out)), "savgol:nan-not-filled",
                              f"{label}: {int((~np.isfinite(out)).sum())} non-finite values remain", counter="savgol_nan")
                    res.check(np.array_equal(sig, s0, equal_nan=True), "savgol:input-mutated", f"{label}: input modified")
                except Exception as e:
                    res.exception("savgol:nan-exception", e, label)
    elif cls == "venn":
        import ibldsp.spiketrains as ST
        for _ in range(case["n"]):
            k = int(rng.choice([2, 3]))
            fs = 30000
            dur = int(rng.choice([20000, 90000, 700000, 1500000]))
            base_n = int(rng.integers(5, 400))
            bs = np.sort(rng.integers(0, dur, base_n))
            bc = rng.integers(0, 384, base_n)
            samples, channels = [], []
            for j in range(k):
                keep = rng.random(base_n) < rng.uniform(0.3, 1.0)
                s = bs[keep] + rng.integers(-3, 4, int(keep.sum()))
                c = np.clip(bc[keep] + rng.integers(-1, 2, int(keep.sum())), 0, 383)
                ne = int(rng.integers(0, 200))
                s = np.r_[s, rng.integers(0, dur, ne)]
                c = np.r_[c, rng.integers(0, 384, ne)]
                if rng.random() < 0.5:      # bursts: several spikes of one sorter in the same bin
                    nb = int(rng.integers(1, 30))
                    s = np.r_[s, np.repeat(rng.integers(0, dur, nb), 3) + np.tile([0, 1, 2], nb)]
                    c = np.r_[c, np.repeat(rng.integers(0, 384, nb), 3)]
                s = np.clip(s, 0, dur - 1)
                o = np.argsort(s, kind="stable")
                samples.append(s[o].astype(np.int64))
                channels.append(c[o].astype(np.int64))
            fn = ST.spikes_venn2 if k == 2 else ST.spikes_venn3
            names = [format(i, f"0{k}b") for i in range(1, 2 ** k)]
            results = {}
            for chunk in (None, 7, 12345, 30000, 600000, 12 * int(rng.integers(100, 5000))):
                label = f"venn{k} dur={dur} n={[len(s) for s in samples]} chunk_size={chunk}"
                if chunk == 7 and dur > 100000:
                    continue      # 7-sample chunks over long trains: same code path, hours of run time
                try:
                    with contextlib.redirect_stdout(io.StringIO()), contextlib.redirect_stderr(io.StringIO()):
                        d = fn(tuple(samples), tuple(channels), chunk_size=chunk, fs=fs)
                    res.check(sorted(d) == sorted(names), "venn:keys", f"{label}: keys {sorted(d)}")
                    for j in range(k):
                        tot = sum(int(v) for nm, v in d.items() if nm[j] == "1")
                        res.check(tot == len(samples[j]), "venn:conservation", f"{label}: sorter {j + 1}: regions containing it sum to {tot}, it has {len(samples[j])} spikes",
                                  counter="venn_conservation")
                    res.check(all(int(v) >= 0 for v in d.values()), "venn:negative", f"{label}: negative count")
                    results[chunk] = {nm: int(v) for nm, v in d.items()}
                except Exception as e:
                    res.exception("venn:exception", e, label)
            # other coincidence windows: every spike still belongs to exactly one region, whatever the bin sizes and the channel count
            for _r in range(2):
                sb = [None, 1, 5, 30, 97, 360][int(rng.integers(0, 6))]
                cb = int(rng.choice([1, 2, 4, 7, 16, 384]))
                nch = int(rng.choice([384, 384, 385, 400, 768]))
                fs2 = float(rng.choice([30000, 30000, 2500, 20000]))
                chunk = [None, 12345, 30000, 600000, (sb or 12) * int(rng.integers(100, 5000))][int(rng.integers(0, 5))]
                sbe = sb or int(0.4 * fs2 / 1000)
                if (chunk or 20 * fs2) / sbe * nch / cb > 6e5:          # bins per chunk: keep the count matrix small (memory / time, not a different code path)
                    chunk = max(sbe, int(6e5 * sbe * cb / nch))
                label = f"venn{k} dur={dur} n={[len(s) for s in samples]} samples_binsize={sb} channels_binsize={cb} num_channels={nch} fs={fs2} chunk_size={chunk}"
                try:
                    with contextlib.redirect_stdout(io.StringIO()), contextlib.redirect_stderr(io.StringIO()):
                        d = fn(tuple(samples), tuple(channels), samples_binsize=sb, channels_binsize=cb, fs=fs2 if fs2 != 30000 else 30000, num_channels=nch, chunk_size=chunk)
                    for j in range(k):
                        tot = sum(int(v) for nm, v in d.items() if nm[j] == "1")
                        res.check(tot == len(samples[j]), "venn:conservation:bin-parameters", f"{label}: sorter {j + 1}: regions containing it sum to {tot}, it has {len(samples[j])} spikes",
                                  counter="venn_conservation")
                except Exception as e:
                    res.exception("venn:exception:bin-parameters", e, label)
            # round 22: a busy stretch seen through coarse bins - hundreds of spikes of ONE sorter in one (time, channel) bin (population bursts, a noisy
            # sorter, a summary at 50 ms x whole probe): every spike still belongs to exactly one region
            if _ % 2 == 0:
                sb3 = int(rng.choice([600, 1500, 3000]))
                t0 = int(rng.integers(0, max(1, dur - 4 * sb3)))
                s3, c3 = [], []
                for j in range(k):
                    nbusy = int(rng.integers(130, 700))
                    sj = np.sort(np.r_[samples[j], t0 + rng.integers(0, 2 * sb3, nbusy)]).astype(np.int64)
                    s3.append(np.clip(sj, 0, dur - 1))
                    c3.append(rng.integers(0, 384, sj.size).astype(np.int64))
                for chunk in (None, 30000, 12 * sb3):
                    label = f"venn{k} busy stretch: n={[len(s) for s in s3]} samples_binsize={sb3} channels_binsize=384 chunk_size={chunk}"
                    try:
                        with contextlib.redirect_stdout(io.StringIO()), contextlib.redirect_stderr(io.StringIO()):
                            d = fn(tuple(s3), tuple(c3), samples_binsize=sb3, channels_binsize=384, chunk_size=chunk)
                        for j in range(k):
                            tot = sum(int(v) for nm, v in d.items() if nm[j] == "1")
                            res.check(tot == len(s3[j]) and all(int(v) >= 0 for v in d.values()), "venn:conservation:crowded-bins",
                                      f"{label}: sorter {j + 1}: regions containing it sum to {tot}, it has {len(s3[j])} spikes", counter="venn_crowded_bins")
                    except Exception as e:
                        res.exception("venn:exception:crowded-bins", e, label)
            # bin-aligned chunk sizes (multiples of the 12-sample bin) give the same dictionary
            aligned = [c for c in results if c is not None and c % 12 == 0] + ([None] if None in results else [])
            for a in aligned[1:]:
                res.check(results[a] == results[aligned[0]], "venn:chunk-dependence",
                          f"venn{k} dur={dur}: bin-aligned chunk sizes {aligned[0]} and {a} give different dictionaries: {results[aligned[0]]} vs {results[a]}")
            sigs.add(("venn", k, dur))
    elif cls == "stack":
        import ibldsp.voltage as V
        for _ in range(case["n"]):
            ntr, ns = int(rng.integers(1, 80)), int(rng.integers(1, 50))
            nlab = int(rng.integers(1, max(2, ntr // 2 + 1)))
            word = rng.choice(rng.choice(1000, nlab, replace=False), ntr)
            data = rng.standard_normal((ntr, ns))
            if rng.random() < 0.3:
                data[rng.random((ntr, ns)) < 0.1] = np.nan
            agg = [np.nanmean, np.nansum, np.nanmedian][int(rng.integers(0, 3))]
            label = f"stack ntr={ntr} ns={ns} labels={nlab} agg={agg.__name__}"
            try:
                import warnings
                with warnings.catch_warnings():
                    warnings.simplefilter("ignore")
                    st, fold = V.stack(data.copy(), word, fcn_agg=agg)
                    labs = np.unique(word)
                    exp = np.stack([agg(data[word == lb], axis=0) for lb in labs])
                res.check(st.shape == exp.shape and np.allclose(st, exp, rtol=1e-12, atol=0, equal_nan=True), "stack:aggregate", f"{label}: per-label aggregate differs from the direct computation",
                          counter="stack_checked")
                res.check(np.array_equal(fold, [np.sum(word == lb) for lb in labs]), "stack:fold", f"{label}: fold {fold} is not the label counts")
                hdr = {"toto": rng.standard_normal(ntr), "cdp": word.astype(float)}
                with warnings.catch_warnings():
                    warnings.simplefilter("ignore")
                    st2, hs = V.stack(data.copy(), word, fcn_agg=agg, header={k: v.copy() for k, v in hdr.items()})
                res.check(np.allclose(st2, exp, rtol=1e-12, atol=0, equal_nan=True), "stack:aggregate", f"{label}: aggregate with header differs")
                res.check(np.array_equal(hs["fold"], [np.sum(word == lb) for lb in labs]) and np.allclose(hs["toto"], [hdr["toto"][word == lb].mean() for lb in labs]),
                          "stack:header", f"{label}: aggregated header / fold wrong")
                # round 23: stacking in two steps - the stack just made is stacked again into coarser labels, with the header the first step returned (it
                # carries the first step's fold): the fold reported by a call is the number of traces THAT call put into each label
                coarse = (np.arange(labs.size) // int(rng.integers(1, 4))).astype(int)
                with warnings.catch_warnings():
                    warnings.simplefilter("ignore")
                    st3, hs3 = V.stack(np.asarray(st2).copy(), coarse, fcn_agg=agg, header={k: np.array(v) for k, v in hs.items()})
                cl = np.unique(coarse)
                res.check(np.array_equal(np.asarray(hs3["fold"]), [np.sum(coarse == c_) for c_ in cl]), "stack:fold:second-step",
                          f"{label}: second step into {cl.size} coarser labels: fold {np.asarray(hs3['fold'])[:6]} is not the number of traces aggregated {[int(np.sum(coarse == c_)) for c_ in cl][:6]}",
                          counter="stack_second_steps")
                exp3 = np.stack([agg(np.asarray(st2)[coarse == c_], axis=0) for c_ in cl])
                res.check(np.allclose(st3, exp3, rtol=1e-12, atol=0, equal_nan=True), "stack:aggregate:second-step", f"{label}: second-step aggregate differs from the direct computation")
                if nlab >= 2 and ntr > nlab:
                    sigs.add(("stack", ntr, nlab))
            except Exception as e:
                res.exception("stack:exception", e, label)
    res.sig = f"{cls}-{case['seed']}"
    res.nontrivial = len(sigs) > 0
    res.nt = len(sigs)
    return res
