"""C08 Probe geometry is a consistent, jointly permuted description of the sites.

Monitors: return-value monitors on spikeglx.geometry_from_meta / read_geometry / Reader.geometry and
neuropixel.trace_header / rc2xy / xy2rc / adc_shifts, judged against the site table the generator drew and an
independent reading of SpikeGLX's mux table.
"""
import numpy as np

from vlib import gen_meta as G
from vlib.result import Result, rng_for, scratch

PROPERTY = "C08"
LEVEL = "exploration"
RULE = ("random selections of 384 (or fewer, prefix) sites out of the NP1 / NP2 1-shank / NP2 4-shank / NPultra grids in random, sorted "
        "and interleaved channel orders, both metadata encodings, sorted and unsorted, split-shank restrictions; whole-grid row/col<->x/y "
        "identities; canonical dense layouts. Non-trivial: a selection whose sort permutation is not the identity; distinct = distinct "
        "(kind, encoding, order mode, n, site-table hash)")
ASSUMPTIONS = ["saved-channel subsets are prefixes of the 384 acquired channels (original channel = file column)",
               "NPultra has no geometry-map reference in the fixtures: shank-map encoding only",
               "mux tables: NP1/NPultra 32 ADCs x 12 channels over 13 slots, NP2 24 ADCs x 16 channels over 16 slots (SpikeGLX muxTbl)"]
REQUIRED = {"geometries_checked": 40, "joint_permutation_checked": 40, "encodings_compared": 10, "split_checked": 4, "grid_points": 1000,
            "adc_checked": 40, "cached_tag_variants": 200, "lf_band_geometries": 20, "split_reader_geometries": 8, "split_of_subset_parents": 3, "reader_lifetime_geometries": 30}
CASE_TIMEOUT = 60.0
KEYS = [("x", "x"), ("y", "y"), ("shank", "shank"), ("row", "row"), ("col", "col_out"), ("adc", "adc"), ("sample_shift", "sample_shift")]


def gen_cases(seed, tier):
    n = 150 if tier == "quick" else 12000
    cases = [{"cls": "meta", "seed": seed * 1000 + i, "n": 6, "_w": 1} for i in range(n)]
    cases += [{"cls": "grid", "seed": seed, "_w": 1}, {"cls": "dense", "seed": seed, "_w": 1}]
    return cases


def check_geometry(res, g, rec, order, label, split=None):
    """g: returned dict; rec: ground truth; order: expected permutation of the site table (indices into rec arrays)"""
    ok = True
    for k, kk in KEYS:
        exp = getattr(rec, kk)[order]
        got = np.asarray(g.get(k))
        good = got.shape == exp.shape and np.array_equal(got, exp)
        ok &= res.check(good, f"geometry:{k}", lambda: f"{label}: geometry['{k}'] {got[:6]} expected {exp[:6]}")
    return ok


def run_case(case):
    import neuropixel
    import spikeglx
    res = Result()
    rng = rng_for(case)
    cls = case["cls"]
    nt = 0
    d = scratch()
    if cls == "meta":
        for j in range(case["n"]):
            kind = str(rng.choice(G.KINDS))
            mode = str(rng.choice(["random", "sorted-random", "interleaved", "dense"]))
            n = int(rng.choice([384, 384, 384, 300, 97, 12]))
            sites = G.draw_sites(rng, kind, n, mode)
            n = len(sites)
            recs = {}
            encs = ["shank"] if kind == "NPultra" else ["shank", "geom"]
            geos = {}
            for enc in encs:
                rec = G.make(rng, kind=kind, sites=sites, encoding=enc, ns=3, raw=np.zeros((3, n + 1), np.int16), tilde=bool(rng.integers(0, 2)),
                             port_slot=None if (kind in ("NP2.1", "NP2.4", "NPultra") and j % 3 == 1) else (2, 3))     # reduced headers without port / slot fields
                recs[enc] = rec
                f = d / f"g{j}_{enc}.ap.meta"
                f.write_text(rec.meta_text)
                label = f"{kind}/{enc}/{mode}/n={n}"
                try:
                    md = spikeglx.read_meta_data(f)
                    gs, inds = spikeglx.geometry_from_meta(md, return_index=True, sort=True)
                    gu, indu = spikeglx.geometry_from_meta(md, return_index=True, sort=False)
                    res.count("geometries_checked")
                    # unsorted: on-disk order
                    check_geometry(res, gu, rec, np.arange(n), label + "/unsorted")
                    res.check(np.array_equal(gu["ind"], np.arange(n)) and np.array_equal(indu, np.arange(n)), "geometry:ind-unsorted",
                              f"{label}: unsorted ind is not the identity")
                    # sorted: ordered by shank, row, descending column; a true permutation
                    res.check(np.array_equal(np.sort(gs["ind"]), np.arange(n)), "geometry:ind-permutation", f"{label}: sorted ind is not a permutation")
                    res.check(np.array_equal(gs["ind"], inds), "geometry:return-index", f"{label}: return_index differs from geometry['ind']")
                    key = np.c_[gs["shank"], gs["row"], -gs["col"]]
                    nondec = all(tuple(key[i]) <= tuple(key[i + 1]) for i in range(n - 1))
                    res.check(nondec, "geometry:sort-order", f"{label}: sorted geometry is not ordered by (shank, row, -col)")
                    # joint permutation of every key
                    for k in gu:
                        res.check(np.array_equal(gs[k], gu[k][gs["ind"]]), f"geometry:joint-permutation:{k}",
                                  f"{label}: key '{k}' was not permuted together with the others", counter="joint_permutation_checked")
                    res.check(set(gs) == set(gu) and {"x", "y", "row", "col", "shank", "adc", "sample_shift", "ind"} <= set(gs), "geometry:keys",
                              f"{label}: keys {sorted(gs)}")
                    check_geometry(res, gs, rec, rec.order, label + "/sorted")
                    res.check(np.array_equal(gs["ind"], rec.order), "geometry:ind-sorted", f"{label}: sort permutation differs from the model's")
                    # each site once
                    trip = set(zip(gs["shank"].tolist(), gs["row"].tolist(), gs["col"].tolist()))
                    res.check(len(trip) == n, "geometry:sites-once", f"{label}: {n - len(trip)} duplicated sites")
                    # read_geometry and Reader.geometry agree with geometry_from_meta
                    g2 = spikeglx.read_geometry(f)
                    res.check(all(np.array_equal(g2[k], gs[k]) for k in gs), "read_geometry", f"{label}: read_geometry differs from geometry_from_meta")
                    for sort in (True, False):
                        sr = spikeglx.Reader(f, sort=sort)
                        gg = gs if sort else gu
                        res.check(all(np.array_equal(sr.geometry[k], gg[k]) for k in gg), "Reader.geometry", f"{label}: Reader(sort={sort}).geometry differs")
                        res.check(np.array_equal(sr.raw_channel_order[:n], gg["ind"]) and sr.raw_channel_order[n:].tolist() == list(range(n, n + 1)),
                                  "Reader.raw_channel_order", f"{label}: raw_channel_order is not the geometry's permutation")
                    # the geometry of a reader OBJECT over its life (round 20): asked for in sorted or file order when made, it describes the same sites
                    # in the same order after the reader compressed its binary in place, and again after it decompressed it in place
                    if j % 2 == 0 and enc == encs[-1]:
                        for sort in (True, False):
                            dd = d / f"life{j}_{int(sort)}"
                            rb = G.make(rng, kind=kind, sites=sites, encoding=enc, ns=300, port_slot=(2, 3) if "imDatPrb_port" in rec.meta else None)
                            bb = G.write(rb, dd)
                            gg = gs if sort else gu
                            srl = spikeglx.Reader(bb, sort=sort)
                            steps = [("opened", lambda: None), ("compress_file(keep_original=False)", lambda: srl.compress_file(keep_original=False)),
                                     ("decompress_file(keep_original=False)", lambda: srl.decompress_file(keep_original=False))]
                            for name_, act in steps:
                                act()
                                gl = srl.geometry
                                res.check(gl is not None and all(np.array_equal(gl[k], gg[k]) for k in gg) and np.array_equal(srl.raw_channel_order[:n], gg["ind"]),
                                          "Reader.geometry:object-lifetime", f"{label}: Reader(sort={sort}) after {name_}: the geometry / channel order of the reader object "
                                          f"is no longer the one asked for", counter="reader_lifetime_geometries")
                            srl.close()
                    # ADC model: delays depend on original channel and generation only; per ADC distinct and evenly spaced
                    adc, ss = gu["adc"], gu["sample_shift"]
                    okadc = True
                    for a in np.unique(adc):
                        s = np.sort(ss[adc == a])
                        okadc &= len(np.unique(s)) == s.size and (s.size < 3 or np.allclose(np.diff(s), np.diff(s)[0], atol=1e-12) or n < 384)
                    res.check(okadc, "adc:spacing", f"{label}: an ADC serves two channels at the same delay or unevenly", counter="adc_checked")
                    # the geometry is a function of the acquisition's header fields: a dictionary that went through other hands - re-used from a recording
                    # of another generation and updated field by field, so that the tag the parser caches in it ('neuropixelVersion') is stale or gone -
                    # describes the same sites
                    for stale in ("3A", "3B2", "NP2.1", "NP2.4", "NPultra", None):
                        md2 = type(md)(md)
                        if stale is None:
                            md2.pop("neuropixelVersion", None)
                        else:
                            md2["neuropixelVersion"] = stale
                        g2s = spikeglx.geometry_from_meta(md2, sort=True)
                        res.check(set(g2s) == set(gs) and all(np.array_equal(g2s[k], gs[k]) for k in gs), "geometry:depends-on-cached-tag",
                                  f"{label}: the same header fields with the parser's cached tag neuropixelVersion={stale!r} give another geometry "
                                  f"(keys differing: {[k for k in gs if k not in g2s or not np.array_equal(g2s[k], gs[k])]})", counter="cached_tag_variants")
                    # the LF band of the same probe and selection (its own metadata file, snsApLfSy = 0,n,1): the same sites, groups and delays
                    if kind in ("3A", "3B1", "3B2", "NPultra"):
                        rec_lf = G.make(rng, kind=kind, stream="lf", sites=sites, encoding=enc, ns=3, raw=np.zeros((3, n + 1), np.int16), tilde=bool(rng.integers(0, 2)))
                        f_lf = d / f"g{j}_{enc}.lf.meta"
                        f_lf.write_text(rec_lf.meta_text)
                        for sort in (True, False):
                            g_lf = spikeglx.geometry_from_meta(spikeglx.read_meta_data(f_lf), sort=sort)
                            gg = gs if sort else gu
                            bad = [k for k in gg if k not in g_lf or not np.array_equal(g_lf[k], gg[k])]
                            res.check(not bad, "geometry:lf-band-differs", f"{label}: geometry from the LF band's metadata (sort={sort}) differs from the AP band's in {bad}", counter="lf_band_geometries")
                    geos[enc] = gs
                    if not np.array_equal(rec.order, np.arange(n)):
                        nt += 1
                except Exception as e:
                    res.exception("geometry:exception", e, label)
            if mode == "dense" and n == 384 and "shank" in recs and kind != "NP2.4":
                # metadata without any site map (older acquisitions): the geometry falls back to the canonical dense layout OF THAT PROBE GENERATION,
                # which for a dense 384-site selection is the same table
                rec = recs["shank"]
                f = d / f"g{j}_nomap.ap.meta"
                f.write_text("".join(ln + "\n" for ln in rec.meta_text.splitlines() if "snsShankMap" not in ln and "snsGeomMap" not in ln))
                label = f"{kind}/no site map/dense/n={n}"
                try:
                    md = spikeglx.read_meta_data(f)
                    for sort in (True, False):
                        g0, i0 = spikeglx.geometry_from_meta(md, return_index=True, sort=sort)
                        res.count("default_layouts_checked")
                        for k, kk in KEYS:
                            exp = getattr(rec, kk)
                            got = np.asarray(g0.get(k))
                            res.check(got.shape == exp.shape and np.array_equal(got, exp), f"geometry:default-layout:{k}",
                                      lambda: f"{label} sort={sort}: default geometry['{k}'] {got[:6]} expected the dense layout {exp[:6]}")
                        res.check(np.array_equal(i0, np.arange(n)), "geometry:default-layout:index", f"{label}: returned index is not the identity")
                except Exception as e:
                    res.exception("geometry:default-layout:exception", e, label)
            if len(geos) == 2:
                a, b = geos["shank"], geos["geom"]
                same = all(np.array_equal(a[k], b[k]) for k in a if k != "flag")
                res.check(same, "geometry:encodings-differ", f"{kind}/{mode}/n={n}: shank-map and geometry-map encodings of one site table give different geometries",
                          counter="encodings_compared")
            # split shank: restriction of the parent's geometry
            # (round 21: parents saved with a channel subset - 300 / 97 / 12 sites - as well as full ones)
            if kind == "NP2.4" and "shank" in geos:
                if n < 384:
                    res.count("split_of_subset_parents")
                rec = recs["shank"]
                for s in np.unique(sites[:, 0]):
                    ns_ = int(np.sum(sites[:, 0] == s))
                    child = G.make(rng, kind=kind, sites=sites, encoding=str(rng.choice(encs)), ns=3, raw=np.zeros((3, ns_ + 1), np.int16),
                                   extra={"NP2.4_shank": int(s), "nSavedChans": ns_ + 1, "snsApLfSy": f"{ns_},0,1"})
                    f = d / f"g{j}_child{s}.ap.meta"
                    f.write_text(child.meta_text)
                    try:
                        for sort in (True, False):
                            gc = spikeglx.geometry_from_meta(spikeglx.read_meta_data(f), sort=sort)
                            parent = spikeglx.geometry_from_meta(spikeglx.read_meta_data(d / f"g{j}_shank.ap.meta"), sort=sort)
                            sel = parent["shank"] == s
                            ok = all(np.array_equal(gc[k], parent[k][sel]) for k in parent if k not in ("ind", "flag"))
                            res.check(ok, "geometry:split-shank", f"shank {s} sort={sort}: split geometry is not the restriction of its parent's",
                                      counter="split_checked")
                            res.check(np.array_equal(np.sort(gc["ind"]), np.arange(ns_)), "geometry:split-ind", f"shank {s}: ind of the split geometry is not a permutation of its columns")
                            # model: rows of the site table with shank == s, sample shifts of the ORIGINAL channels
                            idx = np.flatnonzero(rec.shank == s)
                            if sort:
                                idx = idx[np.lexsort((-rec.col_out[idx], rec.row[idx]))]
                            check_geometry(res, gc, rec, idx, f"split shank {s} sort={sort}")
                        sr = spikeglx.Reader(f)
                        res.check(sr.nc == ns_ + 1 and len(sr.geometry["x"]) == ns_, "geometry:split-reader", "reader of a split shank: wrong sizes")
                        for sort in (True, False):      # the reader's own geometry of a split shank is the function's, in the order asked for
                            srs_ = spikeglx.Reader(f, sort=sort)
                            gfn = spikeglx.geometry_from_meta(spikeglx.read_meta_data(f), sort=sort)
                            res.check(all(np.array_equal(srs_.geometry[k], gfn[k]) for k in gfn), "geometry:split-reader:order", f"shank {s}: Reader(sort={sort}).geometry of the split "
                                      f"file differs from geometry_from_meta(sort={sort})", counter="split_reader_geometries")
                        h = neuropixel.split_trace_header(parent, shank=s)
                        res.check(all(np.array_equal(h[k], parent[k][sel]) for k in parent), "split_trace_header", "split_trace_header is not the restriction")
                        # a parent whose site selection leaves some shanks unused: shank NUMBERS select, not ranks among the shanks present
                        present = np.unique(parent["shank"])
                        if present.size > 1:
                            drop = rng.choice(present, int(rng.integers(1, present.size)), replace=False)
                            keepm = ~np.isin(parent["shank"], drop)
                            sub = {k: v[keepm] for k, v in parent.items()}
                            for s2 in range(4):
                                h2 = neuropixel.split_trace_header(sub, shank=s2)
                                sel2 = sub["shank"] == s2
                                res.check(all(np.array_equal(h2[k], sub[k][sel2]) for k in sub), "split_trace_header:unused-shanks",
                                          f"parent with shanks {np.unique(sub['shank']).tolist()}: split_trace_header(shank={s2}) returns {len(h2['shank'])} sites of shank(s) "
                                          f"{np.unique(h2['shank']).tolist()}, expected {int(sel2.sum())} sites of shank {s2}", counter="split_checked")
                    except Exception as e:
                        res.exception("geometry:split:exception", e, f"shank {s}")
        res.sig = f"meta-{case['seed']}"
    elif cls == "grid":
        for ver, kind in ((1, "3B2"), (2, "NP2.1"), (2.4, "NP2.4"), ("NPultra", "NPultra")):
            nsh, ncol, nrow = G.grid(kind)
            ncol_out = 4 if ver == 1 else ncol
            rr, cc = np.meshgrid(np.arange(nrow, dtype=float), np.arange(ncol_out, dtype=float), indexing="ij")
            rr, cc = rr.ravel(), cc.ravel()
            try:
                xy = neuropixel.rc2xy(rr, cc, version=ver)
                rc = neuropixel.xy2rc(xy["x"], xy["y"], version=ver)
                res.check(np.array_equal(rc["row"], rr) and np.array_equal(rc["col"], cc), "grid:xy2rc(rc2xy)", f"version {ver}: xy2rc(rc2xy) is not the identity",
                          counter="grid_points")
                res.count("grid_points", rr.size)
                xy2 = neuropixel.rc2xy(rc["row"], rc["col"], version=ver)
                res.check(np.array_equal(xy2["x"], xy["x"]) and np.array_equal(xy2["y"], xy["y"]), "grid:rc2xy(xy2rc)", f"version {ver}: rc2xy(xy2rc) is not the identity")
                # against the independent layout model (through the shank-map convention)
                if ver == 1:
                    c_in = np.repeat(np.array([[0, 1]]), nrow, axis=0).ravel()
                    r_in = np.repeat(np.arange(nrow), 2)
                    ex, ey, ecol = G.site_xy(kind, 0, c_in, r_in)
                    got = neuropixel.rc2xy(r_in.astype(float), ecol, version=ver)
                else:
                    ex, ey, ecol = G.site_xy(kind, 0, cc.astype(int), rr.astype(int))
                    got = xy
                res.check(np.array_equal(got["x"], ex) and np.array_equal(got["y"], ey), "grid:coordinates", f"version {ver}: coordinates differ from the probe layout model")
                # all sites distinct
                res.check(len(set(zip(xy["x"].tolist(), xy["y"].tolist()))) == rr.size, "grid:injective", f"version {ver}: two grid sites share coordinates")
                nt += 1
            except Exception as e:
                res.exception("grid:exception", e, f"version {ver}")
            # adc tables vs the mux model
            try:
                for nc in (384, 300, 1):
                    ss, adc = neuropixel.adc_shifts(version=ver, nc=nc)
                    madc, mss = G.mux_model(kind)
                    res.check(np.array_equal(adc, madc[:nc]) and np.allclose(ss, mss[:nc], atol=1e-15), "adc:mux-table",
                              f"version {ver} nc={nc}: adc/sample_shift differ from the mux table model", counter="adc_checked")
            except Exception as e:
                res.exception("adc:exception", e, f"version {ver}")
        res.sig = "grid"
    elif cls == "dense":
        # every way of naming a generation (major version 2 / 2.1 / 2.4) crossed with the number of shanks asked for: a four-shank PROBE recorded on one
        # shank (version 2.4, one shank) has the single-shank dense layout, a 2.1 header asked for four shanks the four-shank one
        for ver, nshank, kind in ((1, 1, "3B2"), (2, 1, "NP2.1"), (2, 4, "NP2.4"), (2.4, 4, "NP2.4"), ("NPultra", 1, "NPultra"),
                                  (2.1, 1, "NP2.1"), (2.4, 1, "NP2.4:one-shank"), (2.1, 4, "NP2.4")):
            try:
                h = neuropixel.trace_header(version=ver, nshank=nshank)
                if ver == 2.4 and nshank == 1:
                    hd = neuropixel.trace_header(version=2.4)      # one shank is the default
                    res.check(all(np.array_equal(hd[k], h[k]) for k in h), "dense:default-nshank", "trace_header(version=2.4) differs from trace_header(version=2.4, nshank=1)")
                one_shank = kind.endswith(":one-shank")
                kind = kind.split(":")[0]
                rec = G.make(rng, kind=kind, sites=G.draw_sites(rng, "NP2.1" if one_shank else kind, 384, "dense"), ns=3, raw=np.zeros((3, 385), np.int16))
                f = d / f"dense_{kind}.ap.meta"
                f.write_text(rec.meta_text)
                g = spikeglx.geometry_from_meta(spikeglx.read_meta_data(f), sort=False)
                for k in ("x", "y", "row", "col", "shank", "adc", "sample_shift", "ind"):
                    res.check(np.array_equal(h[k], g[k]), f"dense:{k}", f"trace_header(version={ver}, nshank={nshank})['{k}'] differs from the geometry of the dense metadata",
                              counter="geometries_checked")
                xy = neuropixel.rc2xy(h["row"], h["col"], version=ver)
                res.check(np.array_equal(xy["x"], h["x"]) and np.array_equal(xy["y"], h["y"]), "dense:self-consistent", f"trace_header({ver},{nshank}): x/y != rc2xy(row,col)")
                res.check(len(set(zip(h["shank"].tolist(), h["row"].tolist(), h["col"].tolist()))) == 384, "dense:sites-once", f"trace_header({ver},{nshank}) repeats a site")
                dl = neuropixel.dense_layout(version=ver, nshank=nshank)
                res.check(all(np.array_equal(dl[k], h[k]) for k in dl), "dense:layout", "dense_layout and trace_header disagree")
                # what a call returns belongs to the caller: editing the returned arrays in place (shifting a probe, re-numbering rows) leaves the NEXT
                # header / geometry of the same layout untouched
                keep = {k: np.array(v) for k, v in h.items()}
                for k in h:
                    if isinstance(h[k], np.ndarray) and h[k].dtype.kind in "fi":
                        h[k] += 7
                for k in dl:
                    if isinstance(dl[k], np.ndarray) and dl[k].dtype.kind in "fi":
                        dl[k] -= 3
                h2 = neuropixel.trace_header(version=ver, nshank=nshank)
                res.check(all(np.array_equal(h2[k], keep[k]) for k in keep), "dense:shared-arrays", f"trace_header({ver},{nshank}): a header requested after the caller edited an "
                          f"earlier one in place differs from the canonical layout", counter="caller_owned_results")
                gkeep = {k: np.array(v) for k, v in g.items()}
                for k in g:
                    if isinstance(g[k], np.ndarray) and g[k].dtype.kind in "fi":
                        g[k] += 11
                g2 = spikeglx.geometry_from_meta(spikeglx.read_meta_data(f), sort=False)
                res.check(all(np.array_equal(g2[k], gkeep[k]) for k in gkeep), "geometry:shared-arrays", f"{kind}: a geometry derived after the caller edited an earlier one in place differs",
                          counter="caller_owned_results")
                nt += 1
            except Exception as e:
                res.exception("dense:exception", e, f"version {ver} nshank {nshank}")
        res.sig = "dense"
    res.nontrivial = nt > 0
    res.nt = nt
    return res
