"""C18 Spectral helpers equal their textbook definitions for every length.

Monitors: icontract post-condition installed on ibldsp.fourier.convolve (evaluated on every call the
workload makes, also the indirect ones) + return-value monitors on the other public helpers.
"""
import numpy as np

from vlib import monitors as M
from vlib.result import Result, rng_for

PROPERTY = "C18"
LEVEL = "exploration"
RULE = ("convolve: every (nx, nw) pair of the box (quick 1..120 + all pairs padding to 3^k<=243; thorough 1..300), modes "
        "full/same, random contents, 1-D and 2-D x 1-D broadcasting, impulse bases for small lengths; other helpers: "
        "every length 1..N on all axes of 1-3-D arrays. Non-trivial: nx>1 and nw>1 with non-constant random contents; "
        "distinct = distinct (nx,nw,mode) or (function,length,axis)")
ASSUMPTIONS = ["numpy.convolve / numpy.fft are the textbook definitions", "float64 tolerance 1e-9 relative to the operands' magnitudes"]
REQUIRED = {"contract:convolve_post": 1000, "fexpand_checked": 100, "fscale_checked": 100, "nsoptim_checked": 1000,
            "lphp_checked": 50, "integer_sample_arrays": 20, "filter_history_calls": 200, "cosine_arrangements": 100, "corners_above_nyquist": 20, "corners_below_zero": 10, "dft_checked": 50, "cosine_checked": 20}
CASE_TIMEOUT = 300.0

_VIOL = []


def EXHAUSTIVE(tier):
    return "convolve (nx,nw) in [1,300]^2 x {full,same}" if tier == "thorough" else "convolve (nx,nw) in [1,120]^2 x {full,same}"


def gen_cases(seed, tier):
    N = 300 if tier == "thorough" else 120
    cases = []
    for lo in range(1, N + 1, 10):
        cases.append({"cls": "convolve-box", "nx_lo": lo, "nx_hi": min(lo + 10, N + 1), "nw_max": N, "seed": seed,
                      "_w": N / 60})
    cases.append({"cls": "convolve-pow3", "seed": seed, "_w": 2})
    cases.append({"cls": "convolve-large", "seed": seed, "n": 60 if tier == "thorough" else 15, "_w": 2})
    cases.append({"cls": "convolve-basis", "seed": seed, "nmax": 16 if tier == "thorough" else 9, "_w": 2})
    L = 257 if tier == "thorough" else 65
    for k in range(4):
        cases.append({"cls": "spectrum", "seed": seed, "lens": list(range(1 + k, L + 1, 4)), "_w": L / 40})
    cases.append({"cls": "nsoptim", "seed": seed, "nall": 20000 if tier == "thorough" else 5000,
                  "nrand": 20000 if tier == "thorough" else 3000, "_w": 2})
    for k in range(4):
        cases.append({"cls": "filters", "seed": seed, "lens": list(range(2 + k, L + 1, 4)), "_w": L / 40})
    cases.append({"cls": "filters-history", "seed": seed, "nmax": L, "_w": L / 40})
    cases.append({"cls": "dft", "seed": seed, "nmax": 64 if tier == "thorough" else 32, "_w": 2})
    cases.append({"cls": "cosine", "seed": seed, "n": 400 if tier == "thorough" else 80, "_w": 1})
    return cases


# ------------------------------------------------------------------ contract on convolve
def _ref_full(x, w):
    x = np.atleast_1d(x)
    w = np.atleast_1d(w)
    if x.ndim == 1 and w.ndim == 1:
        return np.convolve(x, w)
    if w.ndim == 1:
        return np.stack([np.convolve(r, w) for r in x.reshape(-1, x.shape[-1])]).reshape(*x.shape[:-1], -1)
    if x.ndim == 1:
        return np.stack([np.convolve(x, r) for r in w.reshape(-1, w.shape[-1])]).reshape(*w.shape[:-1], -1)
    xb, wb = np.broadcast_arrays(x[..., :1] * 0 + 1, w[..., :1] * 0 + 1)
    xs = np.broadcast_to(x, xb.shape[:-1] + (x.shape[-1],)).reshape(-1, x.shape[-1])
    ws = np.broadcast_to(w, xb.shape[:-1] + (w.shape[-1],)).reshape(-1, w.shape[-1])
    return np.stack([np.convolve(a, b) for a, b in zip(xs, ws)]).reshape(*xb.shape[:-1], -1)


@M.counted("convolve_post")
def convolve_post(x, w, mode, result):
    nx, nw = x.shape[-1], w.shape[-1]
    ref = _ref_full(np.asarray(x, float), np.asarray(w, float))
    scale = max(float(np.sum(np.abs(x)) / max(1, x.size // nx) * np.max(np.abs(w))) if x.size and w.size else 0.0, 1e-300)
    from ibldsp.fourier import ns_optim_fft
    pad = int(ns_optim_fft(nx + nw))
    key = "convolve:odd-padded-size" if pad % 2 else "convolve:" + mode
    if mode == "full":
        ok = result.shape[-1] >= nx + nw - 1
        if ok:
            err = np.max(np.abs(result[..., :nx + nw - 1] - ref)) / scale
            tail = np.max(np.abs(result[..., nx + nw - 1:])) / scale if result.shape[-1] > nx + nw - 1 else 0.0
            ok = err <= 1e-9 and tail <= 1e-9
            msg = f"convolve full nx={nx} nw={nw} padded={pad}: rel err {err:.3g}, tail {tail:.3g}"
        else:
            msg = f"convolve full nx={nx} nw={nw}: output length {result.shape[-1]} < {nx + nw - 1}"
    elif mode == "same":
        first = (nw - 1) // 2
        exp = ref[..., first:first + nx]
        ok = result.shape[-1] == nx
        if ok:
            err = np.max(np.abs(result - exp)) / scale
            ok = err <= 1e-9
            msg = f"convolve same nx={nx} nw={nw} padded={pad}: rel err {err:.3g}"
        else:
            msg = f"convolve same nx={nx} nw={nw}: output length {result.shape[-1]} != {nx}"
    else:
        return True
    if not ok:
        _VIOL.append((key, msg))
    return True


def _install():
    import ibldsp.fourier as F
    import ibldsp.voltage as V  # noqa: F401  (uses fourier.convolve through the module attribute)
    if getattr(F.convolve, "_verif", False):
        return F
    wrapped = M.icontract.ensure(convolve_post, error=M.ContractBroken)(F.convolve)
    wrapped._verif = True
    F.convolve = wrapped
    return F


def run_case(case):
    F = _install()
    res = Result()
    rng = rng_for(case)
    cls = case["cls"]
    nt = 0
    if cls == "convolve-box":
        for nx in range(case["nx_lo"], case["nx_hi"]):
            for nw in range(1, case["nw_max"] + 1):
                x = rng.standard_normal(nx)
                w = rng.standard_normal(nw)
                for mode in ("full", "same"):
                    try:
                        F.convolve(x, w, mode=mode)
                    except Exception as e:
                        res.exception("convolve:exception", e, f"convolve nx={nx} nw={nw} {mode}")
                if nx > 1 and nw > 1:
                    nt += 2
        res.sig = f"box-{case['nx_lo']}"
    elif cls == "convolve-pow3":
        for tot in (3, 9, 27, 81, 243):
            lo = {3: 1, 9: 5, 27: 19, 81: 73, 243: 217}[tot]   # sums in (prev fast size, tot] pad to tot
            for s in range(lo, tot + 1):
                if int(F.ns_optim_fft(s)) != tot:
                    continue
                for nx in range(1, s):
                    nw = s - nx
                    x = rng.standard_normal(nx)
                    w = rng.standard_normal(nw)
                    for mode in ("full", "same"):
                        try:
                            F.convolve(x, w, mode=mode)
                        except Exception as e:
                            res.exception("convolve:exception", e, f"convolve nx={nx} nw={nw} {mode}")
                    nt += 2
        res.sig = "pow3"
    elif cls == "convolve-large":
        for _ in range(case["n"]):
            nx = int(rng.integers(300, 5000))
            nw = int(rng.integers(1, 700))
            nd = int(rng.integers(1, 4))
            shp = tuple(int(rng.integers(1, 4)) for _ in range(nd - 1)) + (nx,)
            x = rng.standard_normal(shp)
            w = rng.standard_normal(nw)
            for mode in ("full", "same"):
                try:
                    F.convolve(x, w, mode=mode)
                except Exception as e:
                    res.exception("convolve:exception", e, f"convolve shape={shp} nw={nw} {mode}")
            nt += 2
        res.sig = "large"
    elif cls == "convolve-basis":
        # linear operator in each argument: verified on the full impulse bases (e_i * e_j = e_{i+j})
        for nx in range(1, case["nmax"] + 1):
            for nw in range(1, case["nmax"] + 1):
                X = np.eye(nx)
                for j in range(nw):
                    w = np.zeros(nw)
                    w[j] = 1.0
                    for mode in ("full", "same"):
                        try:
                            F.convolve(X, w, mode=mode)
                        except Exception as e:
                            res.exception("convolve:exception", e, f"basis nx={nx} nw={nw} {mode}")
                    nt += 1
        res.sig = "basis"
    elif cls == "spectrum":
        for n in case["lens"]:
            for nd in (1, 2, 3):
                for ax in range(nd):
                    shp = [int(rng.integers(1, 4)) for _ in range(nd)]
                    shp[ax] = n
                    x = rng.standard_normal(shp)
                    X = np.fft.fft(x, axis=ax)
                    try:
                        R = F.freduce(X, axis=ax)
                        ok = R.shape[ax] == n // 2 + 1 and np.array_equal(R, np.take(X, np.arange(n // 2 + 1), axis=ax))
                        res.check(ok, "freduce", f"freduce n={n} nd={nd} axis={ax}: not the non-negative half")
                        E = F.fexpand(R, n, axis=ax)
                        ok = E.shape == X.shape and M.relerr(E, X) <= 1e-12
                        res.check(ok, "fexpand", f"fexpand(freduce(X)) != X for n={n} nd={nd} axis={ax} (shape {E.shape} vs {X.shape})",
                                  counter="fexpand_checked")
                        if ax == nd - 1:   # default axis = last
                            E2 = F.fexpand(F.freduce(X), n)
                            res.check(E2.shape == X.shape and M.relerr(E2, X) <= 1e-12, "fexpand:default-axis",
                                      f"default-axis round trip fails n={n} nd={nd}")
                        back = np.real(np.fft.ifft(E, axis=ax))
                        res.check(M.relerr(back, x) <= 1e-9, "fexpand:real", f"ifft(fexpand(freduce(fft x))) != x n={n}")
                        # the same axis named by its negative index
                        axn = ax - nd
                        Rn = F.freduce(X, axis=axn)
                        res.check(Rn.shape == R.shape and np.array_equal(Rn, R), "freduce:negative-axis", f"freduce n={n} nd={nd} axis={axn} differs from axis={ax} (shape {Rn.shape} vs {R.shape})")
                        En = F.fexpand(R, n, axis=axn)
                        res.check(En.shape == X.shape and M.relerr(En, X) <= 1e-12, "fexpand:negative-axis", f"fexpand n={n} nd={nd} axis={axn} differs from axis={ax}",
                                  counter="fexpand_checked")
                    except Exception as e:
                        res.exception("fexpand:exception", e, f"n={n} nd={nd} axis={ax}")
                    nt += 1
        nmaxf = 4 * max(case['lens']) + 40
        for n in range(case['lens'][0], nmaxf + 1, 4):
            for si in (1.0, 1 / 30000.0, 0.002):
                try:
                    fs = F.fscale(n, si)
                    ref = np.fft.fftfreq(n, si)
                    if n % 2 == 0:
                        ref[n // 2] = -ref[n // 2]
                    res.check(fs.shape == ref.shape and np.allclose(fs, ref, rtol=1e-12, atol=0), "fscale",
                              f"fscale({n},{si}) != DFT bin frequencies with positive Nyquist", counter="fscale_checked")
                    f1 = F.fscale(n, si, one_sided=True)
                    res.check(np.allclose(f1, np.fft.rfftfreq(n, si), rtol=1e-12, atol=0) and f1.shape == (n // 2 + 1,),
                              "fscale:one-sided", f"fscale({n},{si},one_sided) != rfftfreq")
                except Exception as e:
                    res.exception("fscale:exception", e, f"n={n}")
        res.sig = f"spectrum-{case['lens'][0]}"
    elif cls == "nsoptim":
        fast = sorted({2 ** a * 3 ** b for a in range(40) for b in range(26) if 2 ** a * 3 ** b < 4e7})
        fast = np.array(fast)
        ns = list(range(1, case["nall"] + 1)) + [int(v) for v in rng.integers(1, 10 ** 6, case["nrand"])] + \
            [int(v) + d for v in fast[fast < 10 ** 6] for d in (-1, 0, 1) if int(v) + d >= 1]
        for n in ns:
            try:
                got = int(F.ns_optim_fft(n))
                exp = int(fast[np.searchsorted(fast, n, side="left")])
                res.check(got == exp, "ns_optim_fft", f"ns_optim_fft({n}) = {got}, smallest 2^a3^b >= n is {exp}",
                          counter="nsoptim_checked")
            except Exception as e:
                res.exception("ns_optim_fft:exception", e, f"n={n}")
        nt = len(set(ns))
        res.sig = "nsoptim"
    elif cls == "filters":
        for n in case["lens"]:
            for nd, ax in ((1, 0), (2, 0), (2, 1), (1, None), (2, None), (3, 2), (3, 1), (3, 0), (1, -1), (2, -1), (2, -2), (3, -3)):
                shp = [int(rng.integers(2, 4)) for _ in range(nd)]
                a = nd - 1 if ax is None else ax % nd
                shp[a] = n
                x = rng.standard_normal(shp)
                ikey = ""
                if rng.random() < 0.3:
                    # arbitrary contents include raw integer samples (int16 / int32 counts as stored on disk): the laws are about the VALUES
                    x = rng.integers(-3000, 3000, shp).astype(rng.choice([np.int16, np.int32]))
                    ikey = ":integer-samples"
                    res.count("integer_sample_arrays")
                si = float(rng.choice([1.0, 0.002, 1 / 30000]))
                fny = 0.5 / si
                b = np.sort(rng.uniform(0, fny, 2))
                if rng.random() < 0.2:
                    # a transition band that reaches beyond Nyquist (the taper is simply cut off there): still the same response for lp, hp and bp
                    b[1] = fny * float(rng.uniform(1.05, 1.6))
                    ikey += ":corner-above-nyquist"
                    res.count("corners_above_nyquist")
                elif rng.random() < 0.12:
                    # a transition band that starts below 0 Hz (partial gain at DC) on a signal with an offset: the same three laws
                    b[0] = -fny * float(rng.uniform(0.02, 0.3))
                    x = x + (x.dtype.type(3) if x.dtype.kind == "i" else float(rng.uniform(0.5, 3)))
                    ikey += ":corner-below-zero"
                    res.count("corners_below_zero")
                if b[1] - b[0] < 1e-6 * fny:
                    b[1] = b[0] + 1e-3 * fny
                b4 = np.sort(rng.uniform(0, fny, 4))
                b4[1] = max(b4[1], b4[0] + 1e-3 * fny)
                b4[2] = max(b4[2], b4[1])
                b4[3] = max(b4[3], b4[2] + 1e-3 * fny)
                if rng.random() < 0.5:
                    # the two corner pairs drawn independently: transition bands that touch, overlap, coincide or are crossed - the band-pass is still the product
                    lo2, hi2 = np.sort(rng.uniform(0, fny, 2)), np.sort(rng.uniform(0, fny, 2))
                    lo2[1], hi2[1] = max(lo2[1], lo2[0] + 1e-3 * fny), max(hi2[1], hi2[0] + 1e-3 * fny)
                    if rng.random() < 0.2:
                        hi2 = lo2.copy()
                    b4 = np.r_[lo2, hi2]
                if ":corner-below-zero" in ikey:
                    b4[0] = b[0]
                if ":corner-above-nyquist" in ikey:
                    b4[3] = max(b4[3], fny * float(rng.uniform(1.05, 1.6)))
                key = "filters:3d-non-last-axis" if (nd == 3 and a == 0) else ("filters:negative-axis" if (ax or 0) < 0 else "filters")
                key += ikey
                try:
                    x0 = x.copy()
                    lo = F.lp(x, si, b, axis=ax)
                    hi = F.hp(x, si, b, axis=ax)
                    res.check(lo.shape == x.shape and M.relerr(lo + hi, x) <= 1e-9, key + ":lp+hp",
                              f"lp+hp != identity n={n} nd={nd} axis={ax} b={b.tolist()}", counter="lphp_checked")
                    bp = F.bp(x, si, b4, axis=ax)
                    comp = F.hp(F.lp(x, si, b4[2:4], axis=ax), si, b4[0:2], axis=ax)
                    res.check(M.relerr(bp, comp) <= 1e-9 or np.max(np.abs(bp - comp)) <= 1e-9 * np.max(np.abs(x)),
                              key + ":bp" + ("" if b4[1] <= b4[2] else ":overlapping-corners"), f"bp != hp(lp) n={n} nd={nd} axis={ax} corners={np.round(b4, 6).tolist()}")
                    # against the definition: multiply the spectrum by the cosine-tapered response
                    f = np.abs(np.fft.fftfreq(n, si))
                    resp = np.where(f <= b[0], 0.0, np.where(f >= b[1], 1.0, (1 - np.cos((f - b[0]) / (b[1] - b[0]) * np.pi)) / 2))
                    shape = [1] * nd
                    shape[a] = n
                    ref = np.real(np.fft.ifft(np.fft.fft(x, axis=a) * resp.reshape(shape), axis=a))
                    res.check(M.relerr(hi, ref) <= 1e-9, key + ":hp-definition", f"hp != cosine-tapered response n={n} nd={nd} axis={ax}")
                    res.check(x.dtype == x0.dtype and np.array_equal(x, x0), key + ":input-modified", f"lp/hp/bp modified their input n={n} nd={nd} axis={ax} dtype={x0.dtype}")
                except Exception as e:
                    res.exception(key + ":exception", e, f"n={n} nd={nd} axis={ax}")
                nt += 1
        res.sig = f"filters-{case['lens'][0]}"
    elif cls == "filters-history":
        # one process, ONE set of corners, many calls: every length 2..nmax in ascending order through lp, in descending order through hp, the same
        # length at two sampling intervals, band-pass in between - each answer is the textbook response for ITS length and sampling interval,
        # whatever was filtered before
        def resp_hp(n, si, c):
            f = np.abs(np.fft.fftfreq(n, si))
            return np.where(f <= c[0], 0.0, np.where(f >= c[1], 1.0, (1 - np.cos((f - c[0]) / (c[1] - c[0]) * np.pi)) / 2))
        corners = np.sort(rng.uniform(0.02, 0.45, 2))
        corners[1] = max(corners[1], corners[0] + 0.02)
        c4 = np.r_[np.sort(rng.uniform(0.02, 0.2, 2)) + [0, 0.01], np.sort(rng.uniform(0.25, 0.45, 2)) + [0, 0.01]]
        lens = list(range(2, case["nmax"] + 1))
        sigs = {n: rng.standard_normal(n) for n in lens}
        plan = [("lp", n, 1.0) for n in lens] + [("hp", n, 1.0) for n in lens[::-1]] + [("bp", n, 1.0) for n in lens] + \
               [(("lp", "hp")[n % 2], n, 0.5) for n in lens] + [(("hp", "lp")[n % 2], n, 1.0) for n in lens]
        for typ, n, si in plan:
            x = sigs[n]
            try:
                if typ == "bp":
                    y = F.bp(x, si, c4)
                    r = resp_hp(n, si, c4[0:2]) * (1 - resp_hp(n, si, c4[2:4]))
                else:
                    y = getattr(F, typ)(x, si, corners)
                    r = resp_hp(n, si, corners) if typ == "hp" else 1 - resp_hp(n, si, corners)
                ref = np.real(np.fft.ifft(np.fft.fft(x) * r))
                res.check(y.shape == x.shape and np.max(np.abs(y - ref)) <= 1e-9 * max(1.0, np.max(np.abs(x))), f"filters:history:{typ}",
                          f"{typ}(n={n}, si={si}, corners={np.round(corners if typ != 'bp' else c4, 4).tolist()}) after {typ}-calls on other lengths / sampling intervals with the same corners "
                          f"differs from the cosine-tapered response of THIS length by {np.max(np.abs(y - ref)):.3g}", counter="filter_history_calls")
            except Exception as e:
                res.exception(f"filters:history:{typ}:exception", e, f"n={n} si={si}")
        nt = len(plan)
        res.sig = "filters-history"
    elif cls == "dft":
        for n in range(1, case["nmax"] + 1):
            for nd, ax in ((1, -1), (2, 0), (2, 1), (2, -1), (3, 1)):
                shp = [int(rng.integers(1, 4)) for _ in range(nd)]
                shp[ax] = n
                x = rng.standard_normal(shp)
                try:
                    X = F.dft(x, axis=ax)
                    ref = np.fft.rfft(x, axis=ax)
                    res.check(X.shape == ref.shape and np.max(np.abs(X - ref)) <= 1e-9 * max(1.0, np.max(np.abs(ref))),
                              "dft:real", f"dft != rfft n={n} nd={nd} axis={ax} shape {X.shape} vs {ref.shape}", counter="dft_checked")
                    xc = x + 1j * rng.standard_normal(shp)
                    Xc = F.dft(xc, axis=ax)
                    refc = np.fft.fft(xc, axis=ax)
                    res.check(Xc.shape == refc.shape and np.max(np.abs(Xc - refc)) <= 1e-9 * max(1.0, np.max(np.abs(refc))),
                              "dft:complex", f"dft != fft (complex) n={n} nd={nd} axis={ax}")
                    # explicit scales: chosen coefficients only, and samples listed in any order with their positions
                    ks = np.unique(rng.integers(0, n, int(rng.integers(1, n + 1))))
                    Xk = F.dft(xc, axis=ax, kscale=ks)
                    refk = np.take(refc, ks, axis=ax)
                    res.check(Xk.shape == refk.shape and np.max(np.abs(Xk - refk)) <= 1e-9 * max(1.0, np.max(np.abs(refc))), "dft:kscale",
                              f"dft(kscale={ks[:6].tolist()}..) != those FFT bins n={n} nd={nd} axis={ax}", counter="dft_scales_checked")
                    perm = rng.permutation(n)
                    Xp = F.dft(np.take(xc, perm, axis=ax), xscale=perm.astype(float), axis=ax)
                    res.check(Xp.shape == refc.shape and np.max(np.abs(Xp - refc)) <= 1e-9 * max(1.0, np.max(np.abs(refc))), "dft:xscale",
                              f"dft of shuffled samples with their positions as xscale != fft n={n} nd={nd} axis={ax}", counter="dft_scales_checked")
                except Exception as e:
                    res.exception("dft:exception", e, f"n={n} nd={nd} axis={ax}")
                nt += 1
        for nk in range(1, 9 if case["nmax"] <= 32 else 13):
            for nl in range(1, 7):
                nt_ = int(rng.integers(1, 4))
                img = rng.standard_normal((nk, nl, nt_))
                rr, cc = np.meshgrid(np.arange(nk), np.arange(nl), indexing="ij")
                perm = rng.permutation(nk * nl)
                x = img.reshape(nk * nl, nt_)[perm]
                r = (rr.ravel() / nk)[perm]
                c = (cc.ravel() / nl)[perm]
                try:
                    X2 = F.dft2(x, r, c, nk, nl)
                    ref2 = np.fft.fft2(img, axes=(0, 1))
                    res.check(X2.shape == ref2.shape and np.max(np.abs(X2 - ref2)) <= 1e-9 * max(1.0, np.max(np.abs(ref2))),
                              "dft2", f"dft2 != fft2 on a regular {nk}x{nl} grid", counter="dft_checked")
                    # another number of output coefficients than grid points (fewer: the first ones; more: the spectrum repeats with the grid's period):
                    # coefficient (k, l) of the explicit transform is FFT coefficient (k mod nk, l mod nl)
                    ok_, ol_ = int(rng.integers(1, 2 * nk + 2)), int(rng.integers(1, 2 * nl + 2))
                    X3 = F.dft2(x, r, c, ok_, ol_)
                    ref3 = ref2[np.arange(ok_) % nk][:, np.arange(ol_) % nl]
                    res.check(X3.shape == ref3.shape and np.max(np.abs(X3 - ref3)) <= 1e-8 * max(1.0, np.max(np.abs(ref2))),
                              "dft2:output-size", f"dft2 with {ok_}x{ol_} output coefficients on a regular {nk}x{nl} grid != the matching fft2 coefficients", counter="dft_scales_checked")
                except Exception as e:
                    res.exception("dft2:exception", e, f"{nk}x{nl}")
                nt += 1
        res.sig = "dft"
    elif cls == "cosine":
        from ibldsp.utils import fcn_cosine
        for _ in range(case["n"]):
            b0 = float(rng.uniform(-100, 100))
            b1 = b0 + float(10 ** rng.uniform(-3, 3))
            x = np.sort(np.r_[rng.uniform(b0 - 3 * (b1 - b0), b1 + 3 * (b1 - b0), 200), b0, b1,
                              np.nextafter(b0, -np.inf), np.nextafter(b1, np.inf), np.linspace(b0, b1, 50)])
            try:
                y = fcn_cosine([b0, b1])(x.copy())
                ok = (np.all(np.diff(y) >= -1e-12) and np.all(y[x <= b0] == 0) and np.all(np.abs(y[x >= b1] - 1) <= 1e-12)
                      and np.all((y >= 0) & (y <= 1 + 1e-12)))
                inner = (x > b0) & (x < b1)
                ok2 = np.allclose(y[inner], (1 - np.cos((x[inner] - b0) / (b1 - b0) * np.pi)) / 2, atol=1e-12)
                res.check(ok, "fcn_cosine:monotone", f"fcn_cosine([{b0},{b1}]) not monotone 0..1", counter="cosine_checked")
                res.check(ok2, "fcn_cosine:shape", f"fcn_cosine([{b0},{b1}]) is not the raised cosine between its bounds")
                # the threshold is a function of the VALUE: the same values handed over in another arrangement (descending, shuffled, the two-sided
                # |frequency| scale of an FFT, a 2-D array) give the same answers
                perm = rng.permutation(x.size)
                for name, arr in (("descending", x[::-1].copy()), ("shuffled", x[perm].copy()), ("two-sided", np.r_[x, x[-2:0:-1]]), ("2-D", x[perm][: (x.size // 4) * 4].reshape(4, -1).copy()),
                                  ("integer-typed", np.arange(int(np.floor(b0)) - 5, int(np.ceil(b1)) + 6))):
                    ya = fcn_cosine([b0, b1])(arr.copy())
                    af = np.asarray(arr, float)
                    refa = np.where(af <= b0, 0.0, np.where(af >= b1, 1.0, (1 - np.cos((af - b0) / (b1 - b0) * np.pi)) / 2))
                    res.check(np.shape(ya) == np.shape(arr) and np.allclose(ya, refa, atol=1e-12), "fcn_cosine:arrangement",
                              f"fcn_cosine([{b0},{b1}]) on the same kind of values arranged {name}: differs from the raised-cosine threshold by "
                              f"{np.max(np.abs(ya - refa)) if np.shape(ya) == np.shape(arr) else 'shape'}", counter="cosine_arrangements")
            except Exception as e:
                res.exception("fcn_cosine:exception", e, f"bounds {b0},{b1}")
            nt += 1
        res.sig = "cosine"
    for key, msg in _VIOL:
        res.violation(key, msg)
    _VIOL.clear()
    M.drain_counts(res)
    res.nontrivial = nt > 0
    res.nt = nt
    return res
