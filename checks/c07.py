"""C07 Fourier time shift is an exact, composable delay.

Monitors: icontract snapshot + post-conditions installed on ibldsp.fourier.fshift (and re-bound into
ibldsp.waveforms / neurowaveforms.model which imported it by name), evaluated on *every* call of the
workload, plus metamorphic monitors (roll / identity / additivity / analytic delay / linearity) and
return-value monitors on wave_shift_corrmax, shift_waveform, parabolic_max.
"""
import numpy as np

from vlib import monitors as M
from vlib.result import Result, rng_for

PROPERTY = "C07"
LEVEL = "exploration"
RULE = ("full impulse basis of each length n (n=2..64, primes<=257, {127,128,255,256,509,512,1024,2047,2048} quick; "
        "all n<=2048 sampled bases thorough) x axis x dtype x integer/zero/fractional/per-trace shifts; band-limited "
        "multi-tones vs analytic delay; Ricker-like wavelets for delay estimation. Non-trivial: non-zero shift on a "
        "non-constant signal; distinct = distinct (relation, n, axis, dtype, shift class)")
ASSUMPTIONS = ["fshift is linear in its signal argument (monitored on random combinations), so the impulse basis determines it",
               "for even n the Nyquist bin of a real signal cannot carry a fractional delay: additivity there is asserted only for "
               "integer shifts or Nyquist-free signals"]
REQUIRED = {"contract:fshift_shape_dtype": 500, "contract:fshift_input_untouched": 500, "roll_checked": 200,
            "additivity_checked": 50, "analytic_checked": 50, "corrmax_checked": 50, "pertrace_checked": 50, "shift_vector_reuse_checked": 30, "corrmax_large_delays": 20, "corrmax_monophasic": 10, "nonfinite_inputs": 50,
            "shift_waveform_checked": 3, "parabolic_checked": 50, "phase_estimates": 40, "phase_estimates_large_delay": 10, "phase_reference_calibrations": 40}
CASE_TIMEOUT = 200.0

_VIOL = []


def _primes(n):
    s = np.ones(n + 1, bool)
    s[:2] = False
    for i in range(2, int(n ** 0.5) + 1):
        if s[i]:
            s[i * i::i] = False
    return np.flatnonzero(s).tolist()


def gen_cases(seed, tier):
    if tier == "quick":
        lens = sorted(set(list(range(2, 65)) + _primes(257) + [127, 128, 255, 256, 509, 512, 1024, 2047, 2048]))
    else:
        lens = list(range(2, 2049))
    cases = []
    k = 12 if tier == "quick" else 64
    for j in range(k):
        sub = lens[j::k]
        cases.append({"cls": "basis", "lens": sub, "seed": seed, "_w": sum(min(n, 300) for n in sub) / 3000})
    nrel = 24 if tier == "quick" else 120
    for j in range(nrel):
        cases.append({"cls": "relations", "seed": seed * 1000 + j, "n": 40, "_w": 1})
    for j in range(6 if tier == "quick" else 24):
        cases.append({"cls": "corrmax", "seed": seed * 1000 + j, "k": j, "tier": tier, "_w": 1 if tier == "quick" else 8})
    for j in range(16 if tier == "quick" else 120):
        cases.append({"cls": "shift_waveform", "seed": seed * 1000 + j, "_w": 1})
    for j in range(5 if tier == "quick" else 40):
        cases.append({"cls": "phase", "seed": seed * 1000 + j, "k": j, "n": 12, "_w": 1})
    cases.append({"cls": "parabolic", "seed": seed, "n": 400 if tier == "quick" else 5000, "_w": 1})
    cases.append({"cls": "model", "seed": seed, "_w": 1})
    return cases


# ---------------------------------------------------------------- contracts
def _snap_w(w):
    return (w.copy(), w.dtype, w.shape) if isinstance(w, np.ndarray) else None


@M.counted("fshift_shape_dtype")
def fshift_shape_dtype(w, result):
    if np.iscomplexobj(w):
        return True
    if not (result.shape == w.shape and result.dtype == w.dtype):
        _VIOL.append(("fshift:shape-dtype", f"fshift result {result.shape}/{result.dtype} for input {w.shape}/{w.dtype}"))
    return True


@M.counted("fshift_input_untouched")
def fshift_input_untouched(w, OLD):
    if OLD.w0 is None or np.iscomplexobj(w):
        return True
    w0, dt, shp = OLD.w0
    same = w.dtype == dt and w.shape == shp and np.array_equal(w, w0, equal_nan=True)
    if not same:
        _VIOL.append(("fshift:input-mutated", f"real input array {shp}/{dt} was modified by fshift"))
    return True


def _install():
    import ibldsp.fourier as F
    import ibldsp.waveforms as W
    import ibldsp.voltage as V
    import ibldsp.waveform_extraction as WE
    import neurowaveforms.model as NM
    if getattr(F.fshift, "_verif", False):
        return F, W, NM
    f = F.fshift
    f = M.icontract.ensure(fshift_shape_dtype, error=M.ContractBroken)(f)
    f = M.icontract.ensure(fshift_input_untouched, error=M.ContractBroken)(f)
    f = M.icontract.snapshot(_snap_w, name="w0")(f)
    f._verif = True
    M.rebind(F, "fshift", f, also=(W, NM, WE))
    return F, W, NM


def tol(dt):
    return 1e-9 if np.dtype(dt) == np.float64 else 2e-4


def ricker(n, a, c=None):
    c = (n - 1) / 2 if c is None else c
    t = np.arange(n) - c
    return (1 - (t / a) ** 2) * np.exp(-0.5 * (t / a) ** 2)


def bandlimited(rng, n, frac=0.8, ntones=5):
    """multi-tone strictly below Nyquist; returns x(t) evaluator"""
    kmax = int(np.floor((n - 1) / 2 * frac))   # strictly below Nyquist (n<=2: DC only)
    ks = rng.integers(0, kmax + 1, ntones)
    amp = rng.uniform(0.2, 2, ntones)
    ph = rng.uniform(0, 2 * np.pi, ntones)

    def x(t):
        return sum(a * np.cos(2 * np.pi * k * t / n + p) for a, k, p in zip(amp, ks, ph))
    return x


def run_case(case):
    F, W, NM = _install()
    fshift = F.fshift
    res = Result()
    rng = rng_for(case)
    cls = case["cls"]
    nt = 0
    if cls == "basis":
        for n in case["lens"]:
            # full basis for n <= 300, a random sample of 96 basis vectors (+ first/last) above
            idx = np.arange(n) if n <= 300 else np.unique(np.r_[0, 1, n - 2, n - 1, n // 2, rng.integers(0, n, 96)])
            E = np.zeros((idx.size, n))
            E[np.arange(idx.size), idx] = 1.0
            shifts = [0, 1, -1, 2, n - 1, -(n - 1), n // 2, int(rng.integers(-n + 1, n))]
            for dt in (np.float64, np.float32):
                for ax in (-1, 0):
                    X = E.astype(dt) if ax == -1 else np.ascontiguousarray(E.astype(dt).T)
                    for s in shifts:
                        try:
                            Y = fshift(X, s, axis=ax)
                            ref = np.roll(X, s, axis=ax)
                            err = np.max(np.abs(Y - ref))
                            res.check(err <= tol(dt), "fshift:integer-roll" if s else "fshift:zero-identity",
                                      f"n={n} axis={ax} {np.dtype(dt).name} shift={s}: max|fshift-roll|={err:.3g}",
                                      counter="roll_checked")
                            nt += 1
                        except Exception as e:
                            res.exception("fshift:exception", e, f"n={n} axis={ax} s={s}")
                    # per-trace integer shifts: trace i of the basis gets its own shift
                    # (handed over as float and as integer-typed arrays)
                    svi = rng.integers(-n + 1, n, idx.size)
                    if ax == -1:
                        ref = np.stack([np.roll(X[i], int(svi[i])) for i in range(idx.size)])
                    else:
                        ref = np.stack([np.roll(X[:, i], int(svi[i])) for i in range(idx.size)], axis=1)
                    # (lists and 0-d arrays are not generated: the function reshapes the shift vector and tells scalars apart with numpy.isscalar)
                    forms = {"float64 array": svi.astype(float), "int64 array": svi.astype(np.int64), "int32 array": svi.astype(np.int32), "float32 array": svi.astype(np.float32)}
                    for fname in (["float64 array", "int64 array"] + [str(rng.choice(["int32 array", "float32 array"]))]):
                        sv = forms[fname]
                        try:
                            Y = fshift(X, sv, axis=ax)
                            err = np.max(np.abs(Y - ref)) if np.shape(Y) == ref.shape else np.inf
                            res.check(err <= tol(dt), "fshift:per-trace" + ("" if fname == "float64 array" else ":integer-typed-shifts" if "int" in fname else ":float32-shifts"),
                                      f"n={n} axis={ax} {np.dtype(dt).name} per-trace integer shifts given as {fname}: err {err:.3g}", counter="pertrace_checked")
                            nt += 1
                        except Exception as e:
                            res.exception("fshift:per-trace:exception", e, f"n={n} axis={ax} shifts as {fname}")
                    # scalar shifts in other numeric types than the Python int used above
                    s0 = int(rng.integers(-n + 1, n))
                    for sname, sval in (("numpy int64", np.int64(s0)), ("float", float(s0)), ("numpy float32", np.float32(s0))):
                        try:
                            Y = fshift(X, sval, axis=ax)
                            err = np.max(np.abs(Y - np.roll(X, s0, axis=ax))) if np.shape(Y) == X.shape else np.inf
                            res.check(err <= tol(dt) and Y.dtype == X.dtype, "fshift:integer-roll:scalar-type", f"n={n} axis={ax} {np.dtype(dt).name} shift {s0} given as {sname}: "
                                      f"err {err:.3g}, dtype {Y.dtype}", counter="roll_checked")
                        except Exception as e:
                            res.exception("fshift:exception", e, f"n={n} axis={ax} shift {s0} as {sname}")
            # fractional shift on the basis: compare with the analytic Dirichlet-kernel delay (odd n: exact interpolation)
            if n % 2 == 1 and n <= 300:
                s = float(rng.uniform(-n + 1, n - 1))
                k = np.arange(0, (n - 1) // 2 + 1)
                Y = fshift(E, s, axis=-1)
                t = np.arange(n)[None, :] - idx[:, None] - s
                ref = (1 + 2 * np.sum(np.cos(2 * np.pi * k[1:, None, None] * t[None] / n), axis=0)) / n
                err = np.max(np.abs(Y - ref))
                res.check(err <= 1e-9, "fshift:fractional-basis", f"n={n} s={s:.3f}: basis vs Dirichlet kernel err {err:.3g}",
                          counter="analytic_checked")
                nt += 1
        res.sig = f"basis-{case['lens'][0]}"
    elif cls == "relations":
        for _ in range(case["n"]):
            n = int(rng.choice([int(rng.integers(2, 2049)), int(rng.integers(2, 80)), 2 * int(rng.integers(1, 600)) + 1]))
            nd = int(rng.integers(1, 3))
            ax = int(rng.integers(-nd, nd))
            dt = np.float64 if rng.random() < 0.6 else np.float32
            shp = [int(rng.integers(1, 5))] * nd
            shp[ax] = n
            tvec = np.arange(n).reshape([n if i == ax % nd else 1 for i in range(nd)])
            xf = bandlimited(rng, n)
            x = (xf(tvec) * np.ones(shp)).astype(dt)
            if nd == 2:   # different content per trace
                other = shp[1 - (ax % nd)]
                gains = rng.uniform(0.5, 2, other).reshape([other if i != ax % nd else 1 for i in range(nd)])
                x = (x * gains).astype(dt)
            a, b = rng.uniform(-n, n, 2) * rng.choice([1, 0.1])
            try:
                # analytic delay (band-limited => exact)
                ya = fshift(x, float(a), axis=ax)
                ref = xf(tvec - a) * (gains if nd == 2 else 1.0)
                sc = np.max(np.abs(x)) + 1e-300
                err = np.max(np.abs(ya - ref)) / sc
                res.check(err <= (1e-10 if dt == np.float64 else 5e-4), "fshift:analytic-delay",
                          f"n={n} nd={nd} axis={ax} {np.dtype(dt).name} shift={a:.4f}: rel err vs analytic delay {err:.3g}",
                          counter="analytic_checked")
                # additivity (signal is Nyquist-free, so it must hold for even n too)
                yab = fshift(fshift(x, float(a), axis=ax), float(b), axis=ax)
                y2 = fshift(x, float(a + b), axis=ax)
                err = np.max(np.abs(yab - y2)) / sc
                res.check(err <= (1e-9 if dt == np.float64 else 1e-3), "fshift:additivity",
                          f"n={n} axis={ax} a={a:.3f} b={b:.3f}: |shift(shift(x,a),b)-shift(x,a+b)|={err:.3g}",
                          counter="additivity_checked")
                # additivity on white noise: any shifts for odd n, integer shifts for even n
                z = rng.standard_normal(shp).astype(dt)
                if n % 2 == 0:
                    a2, b2 = float(np.round(a)), float(np.round(b))
                else:
                    a2, b2 = float(a), float(b)
                e2 = np.max(np.abs(fshift(fshift(z, a2, axis=ax), b2, axis=ax) - fshift(z, a2 + b2, axis=ax))) / np.max(np.abs(z))
                res.check(e2 <= (1e-9 if dt == np.float64 else 1e-3), "fshift:additivity-noise",
                          f"n={n} axis={ax} a={a2} b={b2} white noise: additivity err {e2:.3g}", counter="additivity_checked")
                # inverse
                e3 = np.max(np.abs(fshift(fshift(z, a2, axis=ax), -a2, axis=ax) - z)) / np.max(np.abs(z))
                res.check(e3 <= (1e-9 if dt == np.float64 else 1e-3), "fshift:inverse", f"n={n} shift then unshift err {e3:.3g}")
                # spectrum in, spectrum out: a half spectrum with its sample count (both parities) is shifted like the signal
                import scipy.fft as _sf
                z64 = z.astype(np.float64)
                Z = _sf.rfft(z64, axis=ax)
                Y = fshift(Z.copy(), a2, axis=ax, ns=n)
                okc = np.iscomplexobj(Y) and Y.shape == Z.shape
                e6 = np.max(np.abs(_sf.irfft(Y, n, axis=ax) - fshift(z64, a2, axis=ax))) / np.max(np.abs(z64)) if okc else np.inf
                res.check(e6 <= 1e-9, "fshift:spectrum-input", f"n={n} axis={ax} shift={a2}: shifting the half spectrum (ns={n}) differs from shifting the signal by {e6:.3g}",
                          counter="spectrum_checked")
                # linearity
                z2 = rng.standard_normal(shp).astype(dt)
                al, be = rng.uniform(-2, 2, 2)
                lhs = fshift((al * z + be * z2).astype(dt), float(a), axis=ax)
                rhs = al * fshift(z, float(a), axis=ax) + be * fshift(z2, float(a), axis=ax)
                e4 = np.max(np.abs(lhs - rhs)) / (np.max(np.abs(z)) + np.max(np.abs(z2)))
                res.check(e4 <= (1e-9 if dt == np.float64 else 1e-3), "fshift:linearity", f"n={n} linearity err {e4:.3g}")
                # inputs holding missing / clipped samples (NaN, +-inf) and read-only inputs: the call returns shape and dtype and the caller's
                # array is not written to (the installed contracts compare the input before / after, NaN-aware)
                zbad = z.copy()
                flat = zbad.reshape(-1)
                flat[rng.integers(0, flat.size, max(1, flat.size // 50))] = rng.choice([np.nan, np.inf, -np.inf])
                keep = zbad.copy()
                try:
                    yb = fshift(zbad, float(a), axis=ax)
                    res.check(yb.shape == zbad.shape and yb.dtype == zbad.dtype and np.array_equal(zbad, keep, equal_nan=True), "fshift:input-mutated:non-finite",
                              f"n={n} axis={ax} {np.dtype(dt).name}: input with NaN / inf samples was modified (or shape / dtype changed)", counter="nonfinite_inputs")
                    zro = z.copy()
                    zro.setflags(write=False)
                    yr = fshift(zro, float(a), axis=ax)
                    res.check(np.array_equal(yr, fshift(z, float(a), axis=ax)), "fshift:read-only-input", f"n={n} axis={ax}: read-only input gives another result")
                except Exception as e:
                    res.exception("fshift:input-mutated:exception", e, f"n={n} axis={ax} non-finite / read-only input")
                # per-trace fractional shifts == trace-by-trace scalar shifts
                if nd == 2:
                    other = shp[1 - (ax % nd)]
                    sv = rng.uniform(-3, 3, other)
                    yv = fshift(x, sv, axis=ax)
                    refv = np.stack([fshift(np.take(x, i, axis=1 - (ax % nd)), float(sv[i])) for i in range(other)],
                                    axis=1 - (ax % nd))
                    e5 = np.max(np.abs(yv - refv)) / sc
                    res.check(e5 <= (1e-10 if dt == np.float64 else 1e-4), "fshift:per-trace",
                              f"n={n} axis={ax} per-trace fractional shifts differ from scalar calls by {e5:.3g}",
                              counter="pertrace_checked")
                    # the caller keeps ONE shift vector (negative and positive entries, inside (-m, m) of the shorter length m) and applies it to
                    # windows of different lengths one after the other: every call delays each trace by the vector's values
                    m = n - 1 - int(rng.integers(0, max(1, n // 3)))
                    if m >= 3:
                        a_ = ax % nd
                        sw = np.round(rng.uniform(-(m - 1), m - 1, other)) if rng.random() < 0.5 else rng.uniform(-(m - 1), m - 1, other)
                        sw[0] = -abs(sw[0]) - (1 if abs(sw[0]) < 1 else 0)
                        sw0 = sw.copy()
                        for k_, ln in enumerate((n, m, n)):
                            xs = np.take(x, np.arange(ln), axis=a_)
                            yk = fshift(xs, sw, axis=ax)
                            refk = np.stack([np.roll(np.take(xs, i, axis=1 - a_), int(sw0[i])) if float(sw0[i]).is_integer() else
                                             fshift(np.take(xs, i, axis=1 - a_), float(sw0[i])) for i in range(other)], axis=1 - a_)
                            ek = np.max(np.abs(yk - refk)) / sc
                            res.check(ek <= (1e-9 if dt == np.float64 else 1e-4), "fshift:per-trace:shift-vector-reused" + ("" if k_ == 0 else ":later-call"),
                                      f"n={n} axis={ax} {np.dtype(dt).name}: call {k_ + 1} of 3 with the caller's one shift vector {np.round(sw0[:4], 2).tolist()}.. on a window of {ln} samples: "
                                      f"err {ek:.3g} against trace-by-trace delays (vector now {np.round(sw[:4], 2).tolist()}..)", counter="shift_vector_reuse_checked")
                nt += 1
            except Exception as e:
                res.exception("fshift:exception", e, f"relations n={n} nd={nd} axis={ax}")
        res.sig = f"relations-{case['seed']}"
    elif cls == "corrmax":
        widths = [2, 2.5, 3, 4, 6, 8]
        lens = (62, 63, 64, 65, 99, 121, 127, 128) if case.get("tier", "quick") == "quick" else tuple(range(40, 141))
        for n in lens:      # every residue modulo 4: the zero-lag index of a centred correlation is floor(n/2), which rounding rules easily get wrong
            for a in widths:
                if 12 * a > n:       # the wavelet (support ~ +-5 widths) and its shifted copy must fit in the window
                    continue
                # any amplitude: volts-scale spikes (tens of microvolts) as well as unit-scale wavelets
                w = ricker(n, a) * float(10 ** rng.uniform(-6, 1))
                if case["k"] % 2:
                    w = -w
                for s in np.r_[np.linspace(-4.9, 4.9, 15), rng.uniform(-5, 5, 6)]:
                    try:
                        w2 = fshift(w, float(s))
                        r, sc = W.wave_shift_corrmax(w, w2)
                        e = abs(sc - s)
                        re = np.max(np.abs(r - w)) / np.max(np.abs(w))
                        res.check(e <= 0.05, "corrmax:shift-estimate",
                                  f"n={n} width={a} applied shift {s:.3f} estimated {sc:.3f}", counter="corrmax_checked")
                        res.check(re <= 0.02, "corrmax:realign", f"n={n} width={a} shift {s:.3f}: re-aligned copy off by {re:.3%} of peak")
                        res.check(r.shape == w.shape, "corrmax:shape", f"re-synced shape {r.shape}")
                        nt += 1
                    except Exception as e:
                        res.exception("corrmax:exception", e, f"n={n} width={a} s={s}")
                # a MONOPHASIC deflection (non-zero mean over the window: slow after-potentials, LFP-like events, unbalanced spikes), widths 4-7 samples
                if a in (4, 6) and n >= 99:
                    sig = float(rng.uniform(4, 7))
                    wm = np.exp(-0.5 * ((np.arange(n) - (n - 1) / 2) / sig) ** 2) * float(10 ** rng.uniform(-6, 1)) * (1 if case["k"] % 2 else -1)
                    for s in (float(rng.uniform(0.5, 4.9)), -float(rng.uniform(0.5, 4.9))):
                        try:
                            r, sc = W.wave_shift_corrmax(wm, fshift(wm, s))
                            res.check(abs(sc - s) <= 0.05 and np.max(np.abs(r - wm)) / np.max(np.abs(wm)) <= 0.02, "corrmax:monophasic",
                                      f"n={n} Gaussian deflection of width {sig:.2f}: applied shift {s:.3f} estimated {sc:.3f}", counter="corrmax_monophasic")
                        except Exception as e:
                            res.exception("corrmax:exception", e, f"n={n} monophasic width={sig} s={s}")
                # a LARGE delay (a quarter to 0.4 of the window): a narrow wavelet near one end, its copy near the other, both fully inside the window
                if a <= 3 and n >= 60:
                    for sgn in (1, -1):
                        s = sgn * float(rng.uniform(0.25, 0.4)) * n
                        c0 = 6 * a + 1 if sgn > 0 else n - 6 * a - 2
                        if not (6 * a <= c0 + s <= n - 1 - 6 * a):
                            continue
                        wl = ricker(n, a, c=c0) * float(10 ** rng.uniform(-6, 1))
                        try:
                            w2 = fshift(wl, s)
                            r, sc = W.wave_shift_corrmax(wl, w2)
                            res.check(abs(sc - s) <= 0.05 and np.max(np.abs(r - wl)) / np.max(np.abs(wl)) <= 0.02, "corrmax:large-delay",
                                      f"n={n} width={a} wavelet at {c0}: applied shift {s:.3f} estimated {sc:.3f}, re-aligned copy off by "
                                      f"{np.max(np.abs(r - wl)) / np.max(np.abs(wl)):.3%} of peak", counter="corrmax_large_delays")
                        except Exception as e:
                            res.exception("corrmax:exception", e, f"n={n} width={a} s={s}")
        res.sig = f"corrmax-{case['k']}"
    elif cls == "shift_waveform":
        # cluster of shifted copies of one multi-channel template: returned shifts undo the applied ones
        nsp, ntr, ns = int(rng.integers(5, 30)), int(rng.integers(3, 12)), int(rng.choice([121, 128, 127, 99, 82]))
        amps = np.exp(-0.5 * ((np.arange(ntr) - ntr // 2) / 1.5) ** 2)
        tmpl = -amps[:, None] * ricker(ns, float(rng.uniform(3, 6)))[None, :]
        if rng.random() < 0.5:
            # a propagating spike: every trace has its own width and latency, and two traces have almost the same amplitude (the one that is largest
            # on the sampling grid can change from copy to copy; the delay is still measured on the template's peak trace)
            wid = rng.uniform(2.5, 6, ntr)
            lat = np.cumsum(rng.uniform(0.5, 4, ntr)) - 6
            amps = amps * rng.uniform(0.5, 1.0, ntr)
            top = int(np.argmax(amps))
            other = (top + 1) % ntr
            amps[other] = amps[top] * float(rng.uniform(0.95, 0.99))
            wid[top], wid[other] = 2.5, 5.0
            tmpl = np.stack([-amps[j] * ricker(ns, float(wid[j]), c=(ns - 1) / 2 + float(lat[j]) - float(lat[top])) for j in range(ntr)])
            res.count("propagating_templates")
        applied = rng.uniform(-2, 2, nsp)
        if rng.random() < 0.5:
            applied = np.round(applied) + rng.uniform(0.35, 0.65, nsp) * rng.choice([-1, 1], nsp)      # fractional parts near one half
        applied -= np.median(applied)
        applied[np.argsort(np.abs(applied))[0]] = 0.0
        majority = rng.random() < 0.35
        if majority:
            # most spikes of the cluster are the template itself, a minority arrives shifted: the unshifted majority is left where it is
            applied = np.zeros(nsp)
            kshift = max(1, int(round(nsp * float(rng.uniform(0.05, 0.3)))))
            applied[rng.choice(nsp, kshift, replace=False)] = rng.uniform(0.4, 3.0, kshift) * rng.choice([-1, 1], kshift)
        wfs = np.stack([fshift(tmpl, float(s), axis=-1) for s in applied])
        if rng.random() < 0.5:
            # every copy carries its own background noise (0.3 % of the peak): the delay can only be measured where the spike is - on the template's peak trace
            wfs = wfs + rng.standard_normal(wfs.shape) * 0.003 * np.max(np.abs(tmpl))
            res.count("noisy_clusters")
        try:
            out, sh = W.shift_waveform(wfs.copy())
            if majority:
                still = applied == 0
                res.check(np.max(np.abs(sh[still])) <= 0.05, "shift_waveform:unshifted-majority-moved", f"cluster of {nsp} spikes, {int((~still).sum())} of them shifted by "
                          f"{np.round(applied[~still], 2).tolist()}: the {int(still.sum())} unshifted spikes were given shifts up to {np.max(np.abs(sh[still])):.3f} samples",
                          counter="majority_clusters")
                res.check(np.max(np.abs(sh[~still] + applied[~still])) <= 0.06, "shift_waveform:shifts", f"cluster of {nsp} spikes: the shifted minority got "
                          f"{np.round(sh[~still], 3).tolist()}, applied {np.round(applied[~still], 3).tolist()}")
            # docstring: the template (median) is shifted onto each spike and the *same* computed shift is applied
            med = np.nanmedian(wfs, axis=0)
            pk = np.argmax(np.max(np.abs(med), axis=1))
            res.check(out.shape == wfs.shape and sh.shape == (nsp,), "shift_waveform:shape", f"shapes {out.shape} {sh.shape}",
                      counter="shift_waveform_checked")
            # estimated shift of each spike relative to the template must equal applied - template offset
            # spike_i = template delayed by applied_i  =>  the shift that re-aligns it is -applied_i (up to the template's own offset)
            rel = (sh - np.median(sh)) + (applied - np.median(applied))
            res.check(np.max(np.abs(rel)) <= 0.1, "shift_waveform:shifts",
                      f"computed shifts {np.round(sh, 2)[:6]} vs applied {np.round(applied, 2)[:6]} (max dev {np.max(np.abs(rel)):.3f})")
            spread = np.max(np.abs(out - np.median(out, axis=0)[None])) / np.max(np.abs(tmpl))
            res.check(spread <= 0.03, "shift_waveform:aligned", f"re-aligned waveforms still differ by {spread:.3%} of the peak")
            # what it returns equals fshift of each waveform by the shift it reports (consistency of application)
            e = max(np.max(np.abs(out[i] - fshift(wfs[i], float(sh[i]), axis=-1))) for i in range(nsp)) / np.max(np.abs(wfs))
            res.check(e <= 1e-9, "shift_waveform:applied", f"returned waveforms are not the inputs shifted by the reported shifts ({e:.3g})")
            nt += 1
        except Exception as e:
            res.exception("shift_waveform:exception", e, f"nsp={nsp} ntr={ntr} ns={ns}")
        res.sig = f"shift_waveform-{case['seed']}"
    elif cls == "parabolic":
        from ibldsp.utils import parabolic_max
        for _ in range(case["n"]):
            n = int(rng.integers(3, 200))
            c = float(rng.uniform(1.0, n - 2.0))
            a = float(-10 ** rng.uniform(-3, 1))
            top = float(rng.uniform(-5, 5))
            t = np.arange(n)
            sc = float(10 ** rng.uniform(-10, 3))        # the vertex position does not depend on the units of the samples
            a, top = a * sc, top * sc
            y = a * (t - c) ** 2 + top
            try:
                ip, mx = parabolic_max(y)
                interior = 0 < int(np.argmax(y)) < n - 1
                if interior:
                    res.check(abs(ip - c) <= 1e-7 * n and abs(mx - top) <= 1e-7 * (1 + abs(top)), "parabolic_max:1d",
                              f"sampled parabola vertex {c:.5f}/{top:.4f} recovered as {ip:.5f}/{mx:.4f}", counter="parabolic_checked")
                k = int(rng.integers(1, 5))
                cs = rng.uniform(1.0, n - 2.0, k)
                Y = np.stack([a * (t - ci) ** 2 + top for ci in cs])
                ip2, mx2 = parabolic_max(Y)
                inter = (np.argmax(Y, axis=1) > 0) & (np.argmax(Y, axis=1) < n - 1)
                res.check(np.all(np.abs(ip2 - cs)[inter] <= 1e-7 * n) and np.all(np.abs(mx2 - top)[inter] <= 1e-7 * (1 + abs(top))),
                          "parabolic_max:2d", f"2-D rows: vertices {cs} recovered as {ip2}", counter="parabolic_checked")
                nt += 1
            except Exception as e:
                res.exception("parabolic_max:exception", e, f"n={n}")
        res.sig = "parabolic"
    elif cls == "model":
        # neurowaveforms.model.generate_waveform applies per-trace fshift: each trace equals the scaled spike delayed by its shift
        try:
            wav = NM.generate_waveform()
            res.check(wav.ndim == 2 and wav.shape[0] == 40, "model:shape", f"generate_waveform shape {wav.shape}")
            wxy_y = None
            fs, v = 30000, 3
            import inspect
            src_default = NM.generate_waveform(sxy=np.array([43.0, 1940.0, 0.0]))
            res.check(np.array_equal(wav, src_default), "model:deterministic", "generate_waveform not deterministic")
            wxy = np.c_[np.full(6, 43.0), np.linspace(1700, 2200, 6), np.zeros(6)]
            spike = ricker(121, 4.0).astype(np.float32)
            out = NM.generate_waveform(spike=spike, wxy=wxy, sxy=np.array([43.0, 1940.0, 0.0]))
            r = np.sqrt(np.sum(np.square(np.array([43.0, 1940.0, 0.0]) - wxy), axis=1))
            ss = (wxy[:, 1] - np.mean(wxy[:, 1])) / 1e6 * v * fs
            for i in range(6):
                ref = fshift(spike / (r[i] + 50) ** 3.0, float(ss[i]))
                res.check(np.max(np.abs(out[i] - ref)) <= 1e-6 * np.max(np.abs(ref)), "model:per-trace-shift",
                          f"trace {i} of generate_waveform is not the spike delayed by its own shift")
            nt += 1
        except Exception as e:
            res.exception("model:exception", e, "generate_waveform")
        res.sig = "model"
    elif cls == "phase":
        # the phase-slope estimator of the delay (wave_shift_phase, with its own or a re-used calibration): band-limited wavelets,
        # several recording rates (AP, LF, auxiliary, calibrated) - samples are samples whatever the rate (round 19)
        for i in range(case["n"]):
            n = int(rng.integers(90, 140))
            sg, wv, ph, npad = rng.uniform(6, 11), rng.uniform(1.5, 2.5), rng.uniform(0, 90), int(rng.integers(15, 40))
            t = np.arange(n) - (n - 1) / 2
            x = np.exp(-0.5 * (t / sg) ** 2) * np.cos(wv * t / sg)
            x = -np.fft.irfft(np.fft.rfft(x) * np.exp(1j * ph / 180 * np.pi), n)
            spike = np.append(x, np.zeros(npad))
            fs = (30000, 2500, 25000, 62500, 30000.27)[(case["k"] + i) % 5]
            sh = float(rng.uniform(-6, 6))
            if i % 3 == 2:
                # delays of many samples (round 20): the cross-spectrum phase runs through several turns inside the band the slope is fitted on
                sh = float(rng.choice([-1, 1]) * rng.uniform(9, 30))
                res.count("phase_estimates_large_delay")
            label = f"wave_shift_phase n={n}+{npad} fs={fs} applied={sh:.3f}"
            try:
                spike2 = fshift(spike, sh)
                sp0, sp20 = spike.copy(), spike2.copy()
                r, e = W.wave_shift_phase(spike, spike2, fs)
                res.check(abs(float(e) - sh) <= 0.03, "phase:estimate", f"{label}: estimated {float(e):.3f}", counter="phase_estimates")
                res.check(np.max(np.abs(r - spike)) <= 0.01 * np.max(np.abs(spike)), "phase:realign", f"{label}: the copy is not re-aligned ({np.max(np.abs(r - spike)) / np.max(np.abs(spike)):.3g} of the peak)")
                a_pos, b_pos, _, _ = W.get_spike_slopeparams(spike, fs)
                r2, e2 = W.wave_shift_phase(spike, spike2, fs, a_pos=a_pos, b_pos=b_pos)
                res.check(abs(float(e2) - sh) <= 0.03 and np.max(np.abs(r2 - spike)) <= 0.01 * np.max(np.abs(spike)), "phase:calibration-reused",
                          f"{label}: with the calibration passed in: estimated {float(e2):.3f}")
                res.check(np.array_equal(spike, sp0) and np.array_equal(spike2, sp20), "phase:inputs-touched", f"{label}: the inputs are modified")
                # calibration measured ONCE on a reference wavelet of the same rate (another width, carrier, phase and length: another band) and
                # handed in for this waveform (round 21): the phase slope per sample of delay is 2 pi / fs whatever the waveform
                nr = int(rng.integers(90, 140))
                sgr, wvr, phr = rng.uniform(6, 11), rng.uniform(1.5, 2.5), rng.uniform(0, 90)
                tr = np.arange(nr) - (nr - 1) / 2
                xr = np.exp(-0.5 * (tr / sgr) ** 2) * np.cos(wvr * tr / sgr)
                ref = np.append(-np.fft.irfft(np.fft.rfft(xr) * np.exp(1j * phr / 180 * np.pi), nr), np.zeros(int(rng.integers(15, 40))))
                a_ref, b_ref, _, _ = W.get_spike_slopeparams(ref, fs)
                r3, e3 = W.wave_shift_phase(spike, spike2, fs, a_pos=a_ref, b_pos=b_ref)
                res.measure("phase_reference_calibration_error_max", abs(float(e3) - sh))
                res.check(abs(float(e3) - sh) <= 0.03 and np.max(np.abs(r3 - spike)) <= 0.01 * np.max(np.abs(spike)), "phase:calibration-from-reference",
                          f"{label}: with the calibration of a reference wavelet (n={ref.size}, sigma={sgr:.2f}, carrier={wvr:.2f}): estimated {float(e3):.3f}",
                          counter="phase_reference_calibrations")
                nt += 1
            except Exception as ex:
                res.exception("phase:exception", ex, label)
        res.sig = f"phase-{case['k'] % 5}"
    for key, msg in _VIOL:
        res.violation(key, msg)
    _VIOL.clear()
    M.drain_counts(res)
    res.nontrivial = nt > 0
    res.nt = nt
    return res
