"""C16 Saturation flags follow the proportion rule and the mute gain covers them.

Monitor: icontract post-conditions installed on ibldsp.voltage.saturation (every call is judged against a
direct, loop-free-of-shared-code reference of the proportion rule) + a metamorphic monitor (same flags =>
same mute).  Boundary workload built with nextafter around each threshold and k = p*nc-1, p*nc, p*nc+1 channels.
"""
import numpy as np

from vlib import monitors as M
from vlib.result import Result, rng_for

PROPERTY = "C16"
LEVEL = "exploration"
RULE = ("arrays with nc in 1..400 whose samples are placed just below / at / just above 0.98*range and just below / just above "
        "the slew limit on k = floor(p*nc)-1..+1 channels, scalar and per-channel ranges, taper widths 1..15, isolated / adjacent / "
        "edge-touching runs, float64 and float32; recordings of every probe generation and band whose Reader.range_volts is the range handed over. Non-trivial: at least one flagged and one unflagged sample and a threshold placed "
        "within 1 ulp; distinct = distinct (nc, p, k-offset, placement, width, dtype) signature")
ASSUMPTIONS = ["the slew limit per sample is v_per_sec*fs in data units (the function's own parameterisation); the 'exactly at the slew "
               "limit' case is not asserted (property: exceed; code: >=)",
               "exact-zero of the mute on a flagged sample is asserted to 1e-9 (FFT-based convolution may leave 1e-16)"]
REQUIRED = {"contract:saturation_post": 300, "flags_compared": 300, "mute_zero_checked": 100, "same_flags_same_mute": 20,
            "boundary_at_threshold": 50, "reader_ranges_checked": 16, "pipeline_runs": 2, "slew_only_twins": 20, "arrays_shorter_than_taper": 10, "pipeline_subset_runs": 2, "long_arrays": 3, "long_array_slew_flags": 30, "pipeline_lf_flags_below_30k_limit": 4}
CASE_TIMEOUT = 120.0

_VIOL = []


def gen_cases(seed, tier):
    n = 160 if tier == "quick" else 12000
    cases = [{"cls": "boundary", "seed": seed * 10000 + i, "n": 12, "_w": 1} for i in range(n)]
    cases += [{"cls": "random", "seed": seed * 10000 + i, "n": 10, "_w": 1} for i in range(n // 2)]
    cases += [{"cls": "mute-shapes", "seed": seed * 10000 + i, "n": 10, "_w": 1} for i in range(n // 2)]
    cases += [{"cls": "reader-range", "seed": seed * 10000 + i, "n": 4, "_w": 2} for i in range(max(8, n // 20))]
    cases += [{"cls": "pipeline", "seed": seed * 10000 + i, "_w": 12} for i in range(3 if tier == "quick" else 24)]
    cases += [{"cls": "long", "seed": seed * 10000 + i, "_w": 3} for i in range(3 if tier == "quick" else 30)]
    return cases


def reference_flags(data, max_voltage, v_per_sec, fs, proportion):
    """direct statement of the rule: the fraction of channels beyond a limit, k / nc, is compared with the proportion"""
    data = np.asarray(data)
    nc, ns = data.shape
    thr = np.broadcast_to(np.atleast_1d(max_voltage) * 0.98, (nc,))
    kv = (np.abs(data) > thr[:, None]).sum(axis=0)
    ks = np.r_[(np.abs(np.diff(data, axis=-1)) / fs >= v_per_sec).sum(axis=0), 0]
    p = float(proportion)
    return np.array([(int(a) / nc > p) or (int(b) / nc > p) for a, b in zip(kv, ks)], bool)


def kcrit_of(p, nc):
    """largest number of channels that is NOT more than the proportion p of nc (k / nc > p is false)"""
    k = int(np.floor(p * nc)) + 2
    while k > 0 and k / nc > p:
        k -= 1
    return k


@M.counted("saturation_post")
def saturation_post(data, max_voltage, result, v_per_sec=1e-8, fs=30_000, proportion=0.2, mute_window_samples=7):
    flags, mute = result
    ns = data.shape[-1]
    w = int(mute_window_samples)
    if flags.shape != (ns,) or mute.shape != (ns,):
        _VIOL.append(("saturation:shape", f"flags {flags.shape} mute {mute.shape} for ns={ns}"))
        return True
    ref = reference_flags(data, max_voltage, v_per_sec, fs, proportion)
    M.COUNTS["flags_compared"] = M.COUNTS.get("flags_compared", 0) + 1
    if not np.array_equal(np.asarray(flags, bool), ref):
        bad = np.flatnonzero(np.asarray(flags, bool) != ref)
        _VIOL.append(("saturation:flags", f"flags differ from the proportion rule at samples {bad[:8].tolist()} "
                      f"(nc={data.shape[0]}, p={proportion}, got {np.asarray(flags)[bad[:4]].tolist()})"))
    if not (np.all(mute >= 0) and np.all(mute <= 1 + 1e-12)):
        _VIOL.append(("mute:range", f"mute outside [0,1]: min {mute.min()} max {mute.max()}"))
    if ref.any():
        M.COUNTS["mute_zero_checked"] = M.COUNTS.get("mute_zero_checked", 0) + 1
        mz = np.max(np.abs(mute[ref]))
        if mz > 1e-9:
            key = "mute:even-taper-width" if w % 2 == 0 else "mute:nonzero-on-flag"
            _VIOL.append((key, f"mute gain {mz:.4g} on a flagged sample (taper width {w})"))
    # one farther than the taper half width from any flag
    half = int(np.ceil(w / 2))
    idx = np.flatnonzero(ref)
    far = np.ones(ns, bool)
    for i in idx:
        far[max(0, i - half):i + half + 1] = False
    if far.any() and np.max(np.abs(mute[far] - 1)) > 1e-12:
        _VIOL.append(("mute:not-one-far-from-flags", f"mute {mute[far].min():.6g} farther than {half} samples from any flag (width {w})"))
    return True


def _install():
    import ibldsp.voltage as V
    if not getattr(V.saturation, "_verif", False):
        f = M.icontract.ensure(saturation_post, error=M.ContractBroken)(V.saturation)
        f._verif = True
        V.saturation = f
    return V


def place_flags(rng, ns, kind):
    f = np.zeros(ns, bool)
    if kind == "isolated":
        cand = np.arange(20, max(21, ns - 20), 25)
        for i in rng.choice(cand, size=min(3, cand.size), replace=False):
            f[i] = True
    elif kind == "adjacent":
        a = int(rng.integers(5, ns - 12))
        f[a:a + int(rng.integers(2, 7))] = True
    elif kind == "edges":
        f[:int(rng.integers(1, 4))] = True
        f[-int(rng.integers(1, 4)):] = True
    elif kind == "first":
        f[0] = True
    elif kind == "last":
        f[-1] = True
    elif kind == "pairs":
        a = int(rng.integers(5, ns - 12))
        f[a] = True
        f[a + int(rng.integers(2, 6))] = True
    elif kind == "none":
        pass
    return f


def build_voltage(rng, nc, ns, want, p, rngv, dt, off, place):
    """voltage rule only (slew limit is set out of reach by the caller): flagged samples get kcrit+1(+1) channels just above
    0.98*range, unflagged ones kcrit+off (off<=0) channels just above and a third of the others exactly *at* the threshold"""
    kcrit = kcrit_of(p, nc)                   # k / nc > p  <=>  k >= kcrit + 1
    thr = np.broadcast_to(np.atleast_1d(rngv) * 0.98, (nc,)).astype(np.float64)
    x = rng.uniform(-0.5, 0.5, (nc, ns)) * thr[:, None]
    ats = 0
    for t in range(ns):
        k = min(nc, kcrit + 1 + int(rng.integers(0, 2))) if want[t] else max(0, min(nc, kcrit + off))
        ch = rng.choice(nc, k, replace=False)
        sg = rng.choice([-1.0, 1.0], k)
        x[ch, t] = sg * (np.nextafter(thr[ch], np.inf) if place == "ulp" else thr[ch] * (1 + 1e-3))
        rest = np.setdiff1d(np.arange(nc), ch)
        if rest.size:
            r2 = rest[: max(1, rest.size // 3)]
            if place == "ulp":
                x[r2, t] = thr[r2] * rng.choice([-1.0, 1.0], r2.size)          # exactly at: does not exceed
                ats += 1
            else:
                x[r2, t] = thr[r2] * (1 - 1e-3) * rng.choice([-1.0, 1.0], r2.size)
    return x.astype(dt), ats


def build_slew(rng, nc, ns, want, p, lim, dt, off, place):
    """slew rule only (range out of reach): into-next-sample steps just above the limit on kcrit+1 channels for flagged samples,
    on kcrit+off channels otherwise; every other step just below the limit"""
    kcrit = kcrit_of(p, nc)
    eps = 1e-6 if place == "ulp" else 1e-2
    steps = np.zeros((nc, ns - 1))
    for t in range(ns - 1):
        k = min(nc, kcrit + 1 + int(rng.integers(0, 2))) if want[t] else max(0, min(nc, kcrit + off))
        ch = rng.choice(nc, k, replace=False)
        st = lim * (1 - eps) * rng.uniform(0.0, 1.0, nc)
        st[rng.random(nc) < 0.3] = lim * (1 - eps)
        st[ch] = lim * (1 + eps)
        steps[:, t] = st
    # alternate signs so that values stay small: x[t+1] = x[t] + (-1)^t * step
    sgn = np.where(np.arange(ns - 1) % 2 == 0, 1.0, -1.0)
    x = np.concatenate([np.zeros((nc, 1)), np.cumsum(steps * sgn[None, :], axis=1)], axis=1)
    return x.astype(dt), 0


def reader_range_case(case, V, res, rng):
    """'their full-scale voltage' as production code obtains it: Reader.range_volts of the recording (AP and LF bands, every probe generation,
    per-channel gains), handed to saturation together with the reader's own samples; judged against the generator's ranges (aimax / gain)"""
    import spikeglx
    from vlib import gen_meta as G
    from vlib.result import scratch
    d = scratch()
    nt = 0
    for j in range(case["n"]):
        kind = str(rng.choice(G.KINDS))
        stream = "lf" if rng.random() < 0.5 else "ap"
        n = int(rng.choice([16, 40, 64]))
        ns = int(rng.integers(80, 200))
        aimax, maxint = ((0.5, 8192), (0.62, 2048), (0.62, 8192), (0.6, 512))[int(rng.integers(0, 4))] if kind.startswith("NP2") else \
            ((0.6, 512), (0.6, 1024), (0.6, 256), (0.6, 512))[(j + case["seed"]) % 4]   # NP1-family headers may announce their own imMaxInt
        p = float(rng.choice([0.2, 0.25, 0.5]))
        kcrit = kcrit_of(p, n)
        raw = rng.integers(-int(0.3 * maxint), int(0.3 * maxint) + 1, (ns, n + 1)).astype(np.int16)
        want = np.zeros(ns, bool)
        times = rng.choice(np.arange(5, ns - 5, 9), int(rng.integers(2, 8)), replace=False)
        for t in times:
            level, k = [(0.995, kcrit + 1), (0.995, kcrit), (0.9, n), (0.6, n), (0.97, n)][int(rng.integers(0, 5))]
            ch = rng.choice(n, k, replace=False)
            raw[t, ch] = (int(np.ceil(level * maxint)) if level > 0.98 else int(np.floor(level * maxint))) * rng.choice([-1, 1], k)
            want[t] = level > 0.98 and k > kcrit
        rec = G.make(rng, kind=kind, stream=stream, sites=G.draw_sites(rng, kind, n, "dense"), gains=G.random_gains(rng), ns=ns, aimax=aimax, maxint=maxint, raw=raw)
        b = G.write(rec, d / f"r{j}")
        true_range = rec.s2v[:n] * maxint
        label = f"{kind}/{stream} n={n} {aimax}/{maxint} p={p}"
        try:
            sr = spikeglx.Reader(b, sort=False)
            rv = np.asarray(sr.range_volts[:n], float)
            res.check(np.allclose(rv, true_range, rtol=1e-6, atol=0), "saturation:reader-range", f"{label}: Reader.range_volts {rv[:3]} but full scale is aimax / gain = {true_range[:3]}",
                      counter="reader_ranges_checked")
            data = sr[:, :n].T
            flags, mute = V.saturation(data, max_voltage=sr.range_volts[:n], v_per_sec=1e9, fs=sr.fs, proportion=p)
            # the rule, applied to the voltages the samples stand for (raw counts x aimax / maxint / gain, computed here from the header values)
            volts = (raw[:, :n].astype(np.float64) * rec.s2v[:n][None, :]).T
            ref = reference_flags(volts, true_range, 1e9, sr.fs, p)
            res.check(np.array_equal(ref, want), "harness:reader-range-construction", f"{label}: construction and reference disagree")
            res.check(np.array_equal(np.asarray(flags, bool), ref), "saturation:flags:reader-range",
                      f"{label}: with the recording's own range_volts, flagged {np.flatnonzero(flags)[:8].tolist()} but more than {p:.0%} of channels exceed 98 % of THEIR "
                      f"full scale only at {np.flatnonzero(ref)[:8].tolist()}")
            res.check(np.all(np.abs(mute[ref]) <= 1e-9), "mute:nonzero-on-flag", f"{label}: mute not zero on flagged samples")
            sr.close()
            nt += 1
        except Exception as e:
            res.exception("saturation:reader-range:exception", e, label)
    return nt


def pipeline_case(case, V, res, rng):
    """the flags as the production pipeline stores them: decompress_destripe_cbin evaluates saturation batch by batch (overlapping, tapered batches)
    and writes one flag per sample; judged against the rule applied to the recorded voltages of the whole file (saturated runs at the very start,
    right after batch starts, mid-batch and at the very end); the installed contract judges every per-batch call as well"""
    import pyfftw
    import spikeglx
    from vlib import gen_meta as G
    from vlib.result import scratch
    assert getattr(pyfftw, "__verif_shim__", False)
    d = scratch()
    n = 64
    nbatch = 4096
    stride = nbatch - 2048
    ns = int(rng.integers(9000, 15000))
    kind = str(rng.choice(["3B2", "NP2.1"]))
    if case["seed"] % 2 == 1 or case["seed"] % 3 == 2:
        kind = "3B2"        # (the LF band exists on NP1-family probes only) every run holds an NP1-family recording whose header announces its own imMaxInt
    maxint = None if kind != "3B2" else (512, 1024, 256, None)[case["seed"] % 4]
    lf = case["seed"] % 3 == 2      # one recording in three is the LF band of the probe (2500 Hz): the slew limit is volts per SECOND, i.e. 25 uV per
    #                                 sample there against 300 uV per sample at 30 kHz (round 20)
    rec = G.make(rng, kind=kind, sites=G.draw_sites(rng, kind, n, "dense"), ns=ns, raw=np.zeros((1, 1), np.int16), maxint=maxint,
                 **({"stream": "lf", "fs": 2500.0} if lf else {}))
    s2v = rec.s2v[:n]
    x = rng.standard_normal((ns, n)) * 12e-6 + rng.standard_normal((ns, 1)) * 20e-6
    if lf:
        # a quiet band (sample-to-sample differences of a few uV) with level shifts of 60-220 uV on every channel / on one channel more than the
        # proportion: above the limit at 2500 Hz, far below the one of a 30 kHz recording, nowhere near the amplitude limit
        x = rng.standard_normal((ns, n)) * 1e-6 + rng.standard_normal((ns, 1)) * 1.5e-6
        for a in rng.choice(np.arange(300, ns - 300, 50), 6, replace=False):
            ch = np.arange(n) if rng.random() < 0.5 else rng.choice(n, kcrit_of(0.2, n) + 1, replace=False)
            x[int(a):, ch] += float(rng.choice([-1, 1]) * rng.uniform(60e-6, 220e-6))
            res.count("pipeline_lf_level_shifts")
    raw = np.clip(np.round(x / s2v[None, :]), -32768, 32767).astype(np.int16)
    runs = []
    kb = int(rng.integers(1, (ns - nbatch) // stride + 1))
    for a in (int(rng.integers(0, 600)), kb * stride + int(rng.integers(5, 700)), kb * stride + 1024 + int(rng.integers(100, 900)), ns - int(rng.integers(30, 600))):
        ln = int(rng.integers(5, 30))
        a = max(0, min(a, ns - ln))
        raw[a:a + ln, :] = (rec.maxint - 1) * int(rng.choice([-1, 1]))
        runs.append((a, a + ln))
    sync = G.sync_words(rng, (ns, 1))
    # runs on a SUBSET of the channels, one channel above / exactly at the proportion (13 and 12 of 64 at 20 %), while the sync word is quiet: the
    # proportion counts the voltage channels the range is given for
    kc = kcrit_of(0.2, n)
    for kk_ in (kc + 1, kc):
        a = int(rng.integers(700, ns - 700))
        ln = int(rng.integers(8, 25))
        if any(a < e + 40 and a + ln > s0 - 40 for s0, e in runs):
            continue
        ch = rng.choice(n, kk_, replace=False)
        raw[a:a + ln, ch] = (rec.maxint - 1) * int(rng.choice([-1, 1]))
        sync[a - 2:a + ln + 2] = 0
        runs.append((a, a + ln))
        res.count("pipeline_subset_runs")
    rec.raw = np.ascontiguousarray(np.c_[raw, sync])
    b = G.write(rec, d / "rec")
    label = f"{kind}{' LF band 2500 Hz' if lf else ''} imMaxInt={rec.maxint} ns={ns} nbatch={nbatch}: full-scale runs at {runs} (the last ones on {kc + 1} / {kc} of {n} channels)"
    try:
        out = d / "out" / "destriped.bin"
        out.parent.mkdir()
        V.decompress_destripe_cbin(b, output_file=out, nbatch=nbatch, nprocesses=1, reject_channels=False)
        stored = np.load(out.parent / "_iblqc_ephysSaturation.samples.npy")
        volts = raw.astype(np.float32).T * s2v.astype(np.float32)[:, None]
        ref = reference_flags(volts, s2v * rec.maxint, 1e-8, rec.fs, 0.2)
        res.count("pipeline_runs")
        if lf:
            d_ = np.abs(np.diff(volts, axis=-1))
            only_slow = ref[:-1] & (np.sum(d_ >= 1e-8 * 30000, axis=0) == 0) & (np.sum(np.abs(volts[:, :-1]) > 0.98 * (s2v * rec.maxint)[:, None], axis=0) == 0)
            res.count("pipeline_lf_flags_below_30k_limit", int(only_slow.sum()))
        ok = stored.shape == (ns,) and np.array_equal(np.asarray(stored, bool), ref)
        bad = np.flatnonzero(np.asarray(stored, bool) != ref) if stored.shape == (ns,) else []
        res.check(ok, "saturation:flags:pipeline", f"{label}: the stored per-sample flags differ from the proportion rule on the recorded voltages at {len(bad)} samples "
                  f"(first {list(bad[:6])}; rule flags {int(ref.sum())} samples, stored {int(np.sum(stored))})")
        # the flagged samples are written muted (zero on every channel) in the destriped file
        o = np.fromfile(out, dtype=np.int16).reshape(-1, rec.nc)
        res.check(o.shape[0] == ns and not np.any(o[ref, :n]), "mute:nonzero-on-flag:pipeline", f"{label}: flagged samples are not written as zeros in the destriped file")
    except Exception as e:
        res.exception("saturation:pipeline:exception", e, label)
    return 1


def run_case(case):
    V = _install()
    res = Result()
    rng = rng_for(case)
    nt = 0
    sigs = set()
    if case["cls"] == "long":
        # whole processing batches (tens of thousands of samples): slew-only events (a step on every channel, far below full scale) placed just before / on /
        # after every power-of-two sample count and at random places; the rule does not know where in the array a sample sits
        ns = int(rng.choice([20000, 40000, 66000]))
        nc = int(rng.choice([4, 8, 16]))
        fs = 30000.0
        x = rng.standard_normal((nc, ns)) * 1e-6
        pos = sorted(set([int(p_ + d_) for p_ in (1024, 4096, 8192, 16384, 32768, 49152, 65536) for d_ in (-2, -1, 0, 1) if 2 < p_ + d_ < ns - 2]
                         + [int(v) for v in rng.integers(5, ns - 5, 12)]))
        pos = [p_ for i_, p_ in enumerate(pos) if i_ == 0 or p_ - pos[i_ - 1] >= 1]
        level = np.zeros(ns)
        for k_, p_ in enumerate(pos):
            level[p_:] += (1 if k_ % 2 == 0 else -1) * 100e-6          # a 100 uV step between samples p-1 and p
        x = x + level[None, :]
        v_per_sec = 50e-6 / fs                                           # the slew limit in the unit the function compares with (diff / fs): 50 uV per sample
        try:
            flags, mute = V.saturation(x, 1.0, v_per_sec=v_per_sec, fs=fs, proportion=0.5)
            ref = reference_flags(x, 1.0, v_per_sec, fs, 0.5)
            res.count("long_arrays")
            res.count("long_array_slew_flags", int(ref.sum()))
            bad = np.flatnonzero(np.asarray(flags, bool) != ref)
            res.check(bad.size == 0, "saturation:flags:long-array", f"nc={nc} ns={ns}: flags differ from the rule at samples {bad[:8].tolist()} (steps between p-1 and p for p in {pos[:10]}..)",
                      counter="flags_compared")
            res.check(np.all(np.abs(np.asarray(mute)[ref]) <= 1e-9) and np.asarray(mute).shape == (ns,), "mute:nonzero-on-flag", f"nc={nc} ns={ns}: mute not zero on the samples the rule flags")
        except Exception as e:
            res.exception("saturation:exception", e, f"long array nc={nc} ns={ns}")
        for key, msg in _VIOL:
            res.violation(key, msg)
        _VIOL.clear()
        M.drain_counts(res, prefix="contract:")
        for k in ("flags_compared", "mute_zero_checked"):
            if "contract:" + k in res.observed:
                res.observed[k] = res.observed.get(k, 0) + res.observed.pop("contract:" + k)
        res.sig = f"long-{case['seed']}"
        res.nontrivial = True
        res.nt = 1
        return res
    if case["cls"] in ("reader-range", "pipeline"):
        nt = reader_range_case(case, V, res, rng) if case["cls"] == "reader-range" else pipeline_case(case, V, res, rng)
        for key, msg in _VIOL:
            res.violation(key, msg)
        _VIOL.clear()
        M.drain_counts(res, prefix="contract:")
        for k in ("flags_compared", "mute_zero_checked"):
            if "contract:" + k in res.observed:
                res.observed[k] = res.observed.pop("contract:" + k)
        res.sig = f"{case['cls']}-{case['seed']}"
        res.nontrivial = nt > 0
        res.nt = nt
        return res
    for _ in range(case["n"]):
        cls = case["cls"]
        dt = np.float64 if rng.random() < 0.7 else np.float32
        fs = float(rng.choice([30000.0, 2500.0, 30000.13]))
        v_per_sec = float(rng.choice([1e-8, 3e-8, 1e-7]))
        lim = v_per_sec * fs
        w = int(rng.integers(1, 16))
        if cls == "boundary":
            p = float(rng.choice([0.125, 0.25, 0.5, 0.2, 0.29, 0.57, 0.58, 0.7, 0.35, 0.1, 0.3, 0.15]))
            if p in (0.125, 0.25, 0.5):
                nc = int(rng.choice([8, 16, 24, 40, 64, 80, 160, 384, 400]))
            elif p == 0.2:
                nc = int(rng.choice([5, 10, 40, 385, 400]))
            else:       # decimal proportions for which p * nc is a whole number of channels (the boundary 'exactly the proportion' exists)
                nc = int(rng.choice([20, 50, 90, 100, 170, 180, 200, 300, 340, 360, 400]))
                if rng.random() < 0.5:      # proportion given as k / nc
                    nc = int(rng.integers(2, 401))
                    p = int(rng.integers(1, nc)) / nc
            ns = int(rng.integers(60, 200))
            per_ch = rng.random() < 0.5
            rule = str(rng.choice(["voltage", "slew"]))
            kind = str(rng.choice(["isolated", "adjacent", "edges", "first", "last", "pairs", "none"]))
            want = place_flags(rng, ns, kind)
            place = "ulp" if dt == np.float64 else "margin"
            off = int(rng.choice([0, -1]))
            if rule == "voltage":
                rngv = rng.uniform(0.05, 0.8, nc) if per_ch else float(rng.uniform(0.05, 0.8))
                x, ats = build_voltage(rng, nc, ns, want, p, rngv, dt, off, place)
                v_per_sec = 100.0 / fs          # slew limit of 100 V per sample: out of reach
            else:
                want[-1] = False                # the last sample has no next sample
                rngv = 1e6
                x, ats = build_slew(rng, nc, ns, want, p, lim, dt, off, place)
            if dt == np.float32 and rule == "voltage":
                rngv = np.float32(rngv) if not per_ch else rngv.astype(np.float32)
                x, ats = build_voltage(rng, nc, ns, want, p, rngv, dt, off, place)
            res.count("boundary_at_threshold", ats)
            sig = (rule, nc, p, off, kind, w, np.dtype(dt).name, per_ch)
        elif cls == "random":
            nc = int(rng.integers(1, 401))
            ns = int(rng.integers(20, 400))
            if rng.random() < 0.2:
                # arrays shorter than the taper (a few samples against the default 7, or a wide taper on a short snippet): still one mute value per sample
                ns = int(rng.integers(6, 14)) if rng.random() < 0.5 else int(rng.integers(20, 60))
                w = int(rng.integers(ns + 1, 3 * ns))
                res.count("arrays_shorter_than_taper")
            p = float(rng.choice([0.2, 0.05, 0.5, 0.9, float(rng.uniform(0, 1))]))
            rngv = float(rng.uniform(1e-3, 8e-3))
            x = (rng.standard_normal((nc, ns)) * rngv * rng.choice([0.3, 0.7, 1.0])).astype(dt)
            if rng.random() < 0.5:
                a = int(rng.integers(0, ns - 5))
                x[: int(rng.integers(1, nc + 1)), a:a + 5] = rngv * rng.choice([-1, 1])
            lim = float(np.median(np.abs(np.diff(x, axis=1)))) * float(rng.choice([0.5, 3, 100])) + 1e-12
            v_per_sec = lim / fs
            # keep clear of the 'exactly at the limit' slew case: re-draw the limit if any diff is within 1e-9 relative
            d = np.abs(np.diff(x.astype(np.float64), axis=1)) / fs
            if np.any(np.abs(d - v_per_sec) <= 1e-9 * v_per_sec):
                v_per_sec *= 1.0000123
            sig = ("random", nc, round(p, 3), w, np.dtype(dt).name)
        else:  # mute-shapes: the mute depends on nothing but the flags
            nc = int(rng.choice([1, 2, 7, 32]))
            ns = int(rng.integers(40, 300))
            p = 0.5
            rngv = 1.0
            kind = str(rng.choice(["isolated", "adjacent", "edges", "first", "last", "pairs"]))
            want = place_flags(rng, ns, kind)
            x = rng.uniform(-0.9, 0.9, (nc, ns)).astype(dt)
            x[:, want] = 2.0 * rng.choice([-1.0, 1.0], (nc, int(want.sum())))
            v_per_sec = 1e9
            sig = ("mute", kind, w, nc)
        try:
            flags, mute = V.saturation(x, rngv, v_per_sec=v_per_sec, fs=fs, proportion=p, mute_window_samples=w)
        except Exception as e:
            res.exception("saturation:exception", e, f"nc={x.shape[0]} ns={x.shape[1]} w={w}")
            continue
        if cls == "boundary":
            res.check(np.array_equal(np.asarray(flags, bool), want), "saturation:flags-vs-construction",
                      f"{rule} rule nc={nc} p={p} off={off} kind={kind} {np.dtype(dt).name}: flagged "
                      f"{np.flatnonzero(flags)[:8].tolist()} constructed {np.flatnonzero(want)[:8].tolist()}")
        if cls == "mute-shapes":
            # second, different array with the same flags (other channel count, other amplitudes, slew-driven)
            nc2 = nc + 3
            y = rng.uniform(-9, 9, (nc2, ns)) * rng.uniform(0, 1, (1, ns))
            y[:, want] = rng.uniform(10, 19, (nc2, int(want.sum())))
            try:
                f2, m2 = V.saturation(y, 10.0, v_per_sec=1e9, fs=fs, proportion=0.9, mute_window_samples=w)
                res.check(np.array_equal(f2, flags) and np.array_equal(np.asarray(flags, bool), want), "saturation:flags",
                          "twin arrays constructed with equal flags give different flags")
                res.check(np.allclose(m2, mute, rtol=0, atol=1e-12), "mute:depends-on-data",
                          f"two arrays with identical flags give different mute gains (max diff {np.max(np.abs(m2 - mute)):.3g})",
                          counter="same_flags_same_mute")
            except Exception as e:
                res.exception("saturation:exception", e, "twin")
            # third array: the SAME flags produced by the slew criterion alone (small amplitudes, fast alternation inside each flagged run): the mute
            # depends on nothing but the flags, whichever criterion raised them. (A slew flag sits on the EARLIER sample of a jump, the last sample is
            # never slew-flagged: runs touching the last sample cannot be reproduced this way and are skipped.)
            if want.any() and not want[-1]:
                z = np.zeros((nc2, ns))
                level = 0.0
                for t in range(ns):
                    z[:, t] = level
                    if want[t]:                      # jump between t and t + 1
                        level = 4.0 if level <= 0 else -4.0
                lim_s = 1.0 / fs                     # |jump| / fs >= v_per_sec  <=>  |jump| >= 1 for v_per_sec = 1 / fs ... jumps are 4 or 8
                try:
                    f3, m3 = V.saturation(z, 10.0, v_per_sec=lim_s, fs=fs, proportion=0.9, mute_window_samples=w)
                    if np.array_equal(np.asarray(f3, bool), want):
                        res.check(np.allclose(m3, mute, rtol=0, atol=1e-12), "mute:depends-on-criterion",
                                  f"the same flags raised by the slew criterion alone give another mute gain than when raised by the amplitude criterion (max diff "
                                  f"{np.max(np.abs(m3 - mute)):.3g}, taper width {w})", counter="slew_only_twins")
                    else:
                        res.count("slew_twin_flags_differ")
                except Exception as e:
                    res.exception("saturation:exception", e, "slew-only twin")
        if np.any(flags) and not np.all(flags):
            nt += 1
            sigs.add(sig)
    for key, msg in _VIOL:
        res.violation(key, msg)
    _VIOL.clear()
    M.drain_counts(res, prefix="contract:")
    for k in ("flags_compared", "mute_zero_checked"):
        if "contract:" + k in res.observed:
            res.observed[k] = res.observed.pop("contract:" + k)
    res.sig = f"{case['cls']}-{case['seed']}"
    res.nontrivial = len(sigs) > 0
    res.nt = len(sigs)
    return res
