"""C10 Sync words decode to TTL lines and fronts recover every event.

Monitors: exhaustive return-value monitor on spikeglx.split_sync (all 65536 words x 16 bits, in several
array layouts); TTL trains written into generated imec / nidq files and read back through Reader.read_sync
and utils.fronts/rises/falls, judged against the event train the generator drew.
"""
import numpy as np

from vlib import gen_meta as G
from vlib.result import Result, rng_for, scratch

PROPERTY = "C10"
LEVEL = "exploration"
RULE = ("split_sync: all 65536 int16 words (exhaustive) in natural, shuffled, column-vector and strided layouts; files: random 0/1 "
        "event trains on random subsets of the 16 lines (imec) and digital + analog words (nidq) read back through read_sync / "
        "read(sync=True) over whole-file and partial slices, then fronts/rises/falls on every line in 1-D and 2-D (both axes), with "
        "step amplitudes and analog thresholding. Non-trivial: a train with >= 3 events on >= 2 lines; distinct = distinct "
        "(layout | file kind, line subset, slice, dtype) signature")
ASSUMPTIONS = ["one digital sync word per sample (as in every fixture); 0/1 trains are given as signed or floating arrays"]
REQUIRED = {"growing_file_first_looks_mid_frame": 4, "growing_file_reopens": 10, "growing_file_events_after_first_look": 50, "words_checked": 65536, "read_sync_checked": 10, "fronts_checked": 100, "fronts_2d_checked": 100, "analog_on_threshold": 20, "strided_sync_checked": 20, "nidq_partial_checked": 8, "analog_lines_checked": 4, "sync_routes_checked": 30, "lf_band_sync_files": 3, "headers_rewritten_in_place": 2, "sync_files_with_stale_header": 5, "analog_long_windows": 20}
CASE_TIMEOUT = 120.0
EXHAUSTIVE = "split_sync over all 65536 words x 16 bits"


def gen_cases(seed, tier):
    cases = [{"cls": "words", "layout": lay, "seed": seed, "_w": 1} for lay in ("natural", "shuffled", "column", "strided", "chunks")]
    n = 60 if tier == "quick" else 6000
    cases += [{"cls": "imec-file", "seed": seed * 1000 + i, "_w": 2} for i in range(n)]
    cases += [{"cls": "nidq-file", "seed": seed * 1000 + i, "_w": 2} for i in range(n)]
    cases += [{"cls": "fronts", "seed": seed * 1000 + i, "n": 30, "_w": 1} for i in range(n)]
    return cases


def bits_of(words):
    w = np.asarray(words).astype(np.int64) & 0xFFFF
    return ((w[:, None] >> np.arange(16)[None, :]) & 1).astype(np.int8)


def train(rng, ns, nev, min_gap=2):
    """0/1 train with nev state changes at distinct random positions (>=1), returns (train, change indices, polarity)"""
    nev = min(nev, (ns - 2) // min_gap)
    pos = np.sort(rng.choice(np.arange(1, ns, min_gap), nev, replace=False)) if nev else np.array([], int)
    x = np.zeros(ns, np.int8)
    s0 = int(rng.integers(0, 2))
    state = s0
    x[:] = s0
    for p in pos:
        state = 1 - state
        x[p:] = state
    pol = np.diff(x.astype(int))[pos - 1] if nev else np.array([], int)
    return x, pos, pol


def check_fronts_line(res, U, x, pos, pol, label):
    """all front detectors on one 0/1 line given as array x (any numeric dtype)"""
    try:
        i, s = U.fronts(x)
        res.check(np.array_equal(i, pos) and np.array_equal(np.sign(s), pol), "fronts:1d",
                  f"{label}: fronts returned {i[:8].tolist()} / {np.asarray(s)[:8].tolist()} expected {pos[:8].tolist()} / {pol[:8].tolist()}",
                  counter="fronts_checked")
        r = U.rises(x)
        f = U.falls(x)
        res.check(np.array_equal(r, pos[pol > 0]), "rises:1d", f"{label}: rises {r[:8].tolist()} expected {pos[pol > 0][:8].tolist()}")
        res.check(np.array_equal(f, pos[pol < 0]), "falls:1d", f"{label}: falls {f[:8].tolist()} expected {pos[pol < 0][:8].tolist()}")
    except Exception as e:
        res.exception("fronts:exception", e, label)


def check_routes(res, spikeglx, sr, E, rng, ns, label, min_low=None):
    """every documented way of asking for the sync lines of a window gives the written lines of that window: read(sync=True), read_samples and
    the module-level spikeglx.read(file, first, last) (digital lines first, thresholded analog lines after them)"""
    a0 = int(rng.integers(0, ns // 4))
    b0 = int(rng.integers(3 * ns // 4, ns + 1))
    for (f, l) in ((0, ns), (a0, b0)):
        exp = E[f:l]
        if min_low is not None and not all(np.mean(min_low[f:l, j] == 0) >= 0.15 for j in range(min_low.shape[1])):
            continue
        routes = {"read(sync=True)": lambda: sr.read(nsel=slice(f, l), sync=True)[:2],
                  "read_samples": lambda: sr.read_samples(first_sample=f, last_sample=l)[:2],
                  "spikeglx.read": lambda: spikeglx.read(sr.file_bin, first_sample=f, last_sample=l)[:2]}
        ref = sr.read(nsel=slice(f, l), sync=False)
        with spikeglx.Reader(sr.file_bin) as sr0:       # the module-level function opens the file with the default options
            ref0 = sr0.read(nsel=slice(f, l), sync=False)
        for name, fn in routes.items():
            try:
                d, sy = fn()
            except Exception as e:
                res.exception(f"sync-route:{name}:exception", e, f"{label} window {f}:{l}")
                continue
            res.check(sy.shape == exp.shape and np.array_equal(sy, exp), f"sync-route:{name}",
                      lambda: f"{label} window {f}:{l}: sync returned by {name} has shape {sy.shape}, written lines {exp.shape}; "
                              f"{int((sy != exp).sum()) if sy.shape == exp.shape else '?'} samples differ", counter="sync_routes_checked")
            ref_ = ref0 if name == "spikeglx.read" else ref
            res.check(d.shape == ref_.shape and np.array_equal(d, ref_), f"sync-route:{name}:data",
                      lambda: f"{label} window {f}:{l}: data returned by {name} differ from read(sync=False) (shape {d.shape} vs {ref.shape})")


def run_case(case):
    import spikeglx
    import ibldsp.utils as U
    res = Result()
    rng = rng_for(case)
    cls = case["cls"]
    nt = 0
    if cls == "words":
        words = np.arange(-32768, 32768, dtype=np.int64).astype(np.int16)
        lay = case["layout"]
        if lay == "shuffled":
            words = rng.permutation(words)
        parts = [words]
        if lay == "chunks":
            cuts = np.sort(rng.choice(np.arange(1, 65536), 40, replace=False))
            parts = np.split(words, cuts)
        for w in parts:
            arg = w
            if lay == "column":
                arg = w[:, None]
            elif lay == "strided":
                big = np.zeros((w.size, 3), np.int16)
                big[:, 1] = w
                arg = big[:, 1]
            arg0 = arg.copy()
            try:
                out = spikeglx.split_sync(arg)
                exp = bits_of(w)
                ok = out.shape == (w.size, 16) and out.dtype == np.int8
                res.check(ok, "split_sync:shape-dtype", f"layout {lay}: shape {out.shape} dtype {out.dtype}")
                if ok:
                    bad = np.argwhere(out != exp)
                    res.check(bad.size == 0, "split_sync:bits",
                              lambda: f"layout {lay}: word {int(w[bad[0][0]])} line {int(bad[0][1])} decoded {int(out[tuple(bad[0])])}")
                    res.count("words_checked", w.size)
                res.check(np.array_equal(arg, arg0), "split_sync:input-mutated", "input sync array modified")
            except Exception as e:
                res.exception("split_sync:exception", e, f"layout {lay}")
        nt = 65536 if lay == "natural" else 1
        res.sig = f"words-{lay}"
    elif cls == "imec-file":
        kind = str(rng.choice(G.KINDS))
        ns = int(rng.integers(300, 3000))
        n = int(rng.choice([384, 384, 32, 100]))
        stream = "lf" if (kind in ("3A", "3B1", "3B2", "NPultra") and rng.random() < 0.35) else "ap"      # the LF band carries the same sync word in its last column
        if stream == "lf":
            res.count("lf_band_sync_files")
        # a quarter of the headers were last written while acquisition was still running (fewer samples announced than the file holds); the reader is then
        # opened with or without the request to keep quiet about it - one sync row per sample of the FILE either way
        claim = max(1, ns - int(rng.integers(1, ns // 2))) if rng.random() < 0.25 else None
        midframe = case["seed"] % 16 in (8, 12)        # ordinals whose growing-file step looks at the file in the middle of a frame: always flat, consistent header
        if midframe:
            claim = None
        rkw = {"ignore_warnings": bool(rng.integers(0, 2))} if claim is not None else {}
        if claim is not None:
            res.count("sync_files_with_stale_header")
        rec = G.make(rng, kind=kind, stream=stream, n=n, sites=None if n == 384 else G.draw_sites(rng, kind, n, "dense"), ns=ns, content="random", claim_ns=claim)
        kind = f"{kind}/{stream}"
        nl = int(rng.integers(1, 17))
        lines = np.sort(rng.choice(16, nl, replace=False))
        T = np.zeros((ns, 16), np.int8)
        ev = {}
        for ln in lines:
            x, pos, pol = train(rng, ns, int(rng.integers(0, 40)))
            T[:, ln] = x
            ev[int(ln)] = (pos, pol)
        word = (T.astype(np.int64) << np.arange(16)[None, :]).sum(axis=1)
        word = np.where(word >= 32768, word - 65536, word).astype(np.int16)
        rec.raw[:, -1] = word
        b = G.write(rec, scratch())
        use_c = rng.random() < 0.3 and not midframe
        try:
            sr = spikeglx.Reader(b, sort=bool(rng.integers(0, 2)), **rkw)
            if use_c:
                sr.compress_file(keep_original=False)
                sr = spikeglx.Reader(b.with_suffix(".cbin"), **rkw)
            if claim is not None:
                kind += f" (header announces {claim} of {ns} samples, {rkw})"
            for sl in (slice(0, ns), slice(None), slice(int(ns * 0.3), int(ns * 0.8)), slice(5, 6), slice(ns - 1, ns)):
                sy = sr.read_sync(sl)
                exp = T[sl]
                res.check(sy.shape == exp.shape and sy.dtype == np.int8 and np.array_equal(sy, exp), "read_sync:imec",
                          f"{kind} lines {lines.tolist()} slice {sl}: read_sync differs from the written TTL trains "
                          f"(shape {sy.shape} vs {exp.shape})", counter="read_sync_checked")
            dat, sy = sr.read(nsel=slice(10, 200), sync=True)
            res.check(np.array_equal(sy, T[10:200]) and dat.shape == (190, rec.nc), "read:sync=True", "read(sync=True) sync part differs")
            # strided and reversed selections: one sync row per selected sample, in the order of the selection
            # (the fronts of a reversed read are the mirrored events with opposite polarity)
            for sl in (slice(None, None, -1), slice(ns - 1, None, -int(rng.integers(2, 9))), slice(int(ns * 0.9), int(ns * 0.1), -1),
                       slice(int(ns * 0.7), int(ns * 0.2), -int(rng.integers(2, 6))), slice(3, ns, int(rng.integers(2, 7))),
                       slice(5, 40, -1), slice(ns + 5, ns, -2)):        # the last two select nothing
                kcont = "cbin" if use_c else "bin"
                exp = T[sl]
                sy = sr.read_sync(sl)
                res.check(sy.shape == exp.shape and np.array_equal(sy, exp), f"read_sync:strided:{kcont}:{'reversed' if sl.step < 0 else 'forward'}",
                          f"{kind} {kcont} read_sync({sl}): shape {sy.shape} expected {exp.shape}, rows equal: {sy.shape == exp.shape and np.array_equal(sy, exp)}",
                          counter="strided_sync_checked")
                dat, sy2 = sr.read(nsel=sl, sync=True)
                res.check(sy2.shape == exp.shape and np.array_equal(sy2, exp) and dat.shape[0] == exp.shape[0],
                          f"read:sync=True:strided:{kcont}:{'reversed' if sl.step < 0 else 'forward'}",
                          f"{kind} {kcont} read({sl}, sync=True): sync part {sy2.shape} / data {dat.shape}, expected {exp.shape[0]} rows equal to the written lines")
            check_routes(res, spikeglx, sr, T, rng, ns, f"{kind} {'cbin' if use_c else 'bin'}")
            full = sr.read_sync(slice(0, ns))
            for ln in range(16):
                pos, pol = ev.get(ln, (np.array([], int), np.array([], int)))
                check_fronts_line(res, U, full[:, ln], pos, pol, f"{kind} line {ln}")
            # 2-D, both axes
            i2, s2 = U.fronts(full, axis=0)
            exp_pairs = sorted((int(p), ln, int(q)) for ln, (pp, qq) in ev.items() for p, q in zip(pp, qq))
            got_pairs = sorted((int(a), int(b_), int(np.sign(c))) for a, b_, c in zip(i2[0], i2[1], s2))
            res.check(got_pairs == exp_pairs, "fronts:2d-axis0", f"{kind}: 2-D fronts along axis 0 differ ({len(got_pairs)} vs {len(exp_pairs)})",
                      counter="fronts_checked")
            i3, s3 = U.fronts(np.ascontiguousarray(full.T), axis=1)
            got3 = sorted((int(b_), int(a), int(np.sign(c))) for a, b_, c in zip(i3[0], i3[1], s3))
            res.check(got3 == exp_pairs, "fronts:2d-axis1", f"{kind}: 2-D fronts along axis 1 differ")
            r2 = U.rises(full, axis=0)
            res.check(sorted(zip(r2[0].tolist(), r2[1].tolist())) == sorted((p, ln) for p, ln, q in exp_pairs if q > 0), "rises:2d",
                      "2-D rises differ")
            # every detector x every way of naming the sample axis (int8 as read, and a wider dtype)
            fullT = np.ascontiguousarray(full.T)
            for arr, axis, sdim in ((full, 0, 0), (full, -2, 0), (fullT, 1, 1), (fullT, -1, 1), (full.astype(np.int16), 0, 0), (fullT.astype(np.float64), -1, 1)):
                for fn, want in (("rises", 1), ("falls", -1), ("fronts", 0)):
                    out = getattr(U, fn)(arr, axis=axis)
                    if fn == "fronts":
                        ind, sg = out
                        got = sorted((int(ind[sdim][k]), int(ind[1 - sdim][k]), int(np.sign(sg[k]))) for k in range(len(sg)))
                        expd = exp_pairs
                    else:
                        got = sorted(zip(out[sdim].tolist(), out[1 - sdim].tolist()))
                        expd = sorted((p, ln) for p, ln, q in exp_pairs if q == want)
                    res.check(got == expd, f"{fn}:2d-axis{'-first' if sdim == 0 else '-last'}",
                              f"{kind}: {fn}(x{arr.shape} {arr.dtype}, axis={axis}) returned {len(got)} events, {len(expd)} written; first got {got[:3]} expected {expd[:3]}",
                              counter="fronts_2d_checked")
            sr.close()
            if sum(len(v[0]) >= 3 for v in ev.values()) >= 2:
                nt = 1
            if not use_c and claim is None and case["seed"] % 2 == 0:
                # a recording followed while it is being written (round 21): the first 30-70 % of the file is on disk, the reader object looks at it,
                # the writer appends the rest, the SAME object is closed and opened again: one sync row per sample of the file as it is NOW, and every
                # event of the whole train is recovered - those written after the first look included
                ns1 = int(ns * float(rng.uniform(0.3, 0.7)))
                dg = scratch() / "growing"
                dg.mkdir(exist_ok=True)
                bg = dg / b.name
                by = rec.raw.tobytes()
                online = case["seed"] % 4 == 0
                # (round 22) the first look happens while the writer is in the middle of a frame: none, a few, just over half or almost all of the next frame's
                # bytes are on disk - whole frames are what counts
                frame_b = rec.nc * 2
                trail = [0, 6, frame_b // 2 + 2, frame_b - 2][(case["seed"] // 4) % 4] if online else 0
                bg.write_bytes(by[: ns1 * frame_b + trail])
                res.count("growing_file_first_looks_mid_frame", int(trail > frame_b // 2))
                mtext = rec.meta_text
                if online:      # header of an acquisition in progress: no size, no duration yet
                    mtext = "".join(ln + "\n" for ln in mtext.splitlines() if not ln.startswith(("fileTimeSecs", "fileSizeBytes", "fileSHA1")))
                bg.with_suffix(".meta").write_text(mtext)
                RG = spikeglx.OnlineReader if online else spikeglx.Reader
                lab = f"{kind} {RG.__name__} on a growing file ({ns1} samples + {trail} B -> {ns} samples)"
                sg = RG(bg, sort=bool(rng.integers(0, 2)))
                s1 = sg.read_sync(slice(0, ns1))
                res.check(s1.shape == (ns1, 16) and np.array_equal(s1, T[:ns1]), "read_sync:growing-file:first-look", f"{lab}: first look: {s1.shape}")
                with open(bg, "ab") as fo:
                    fo.write(by[ns1 * frame_b + trail:])
                sg.close()
                sg.open()
                for sl in (slice(None), slice(0, ns), slice(ns1 - 3, ns)):
                    s2_ = sg.read_sync(sl)
                    res.check(s2_.shape == T[sl].shape and np.array_equal(s2_, T[sl]), "read_sync:growing-file:reopened",
                              f"{lab}: after close() / open(), read_sync({sl}) returns {s2_.shape}, the file holds {ns} samples", counter="growing_file_reopens")
                fullg = sg.read_sync(slice(None))
                if fullg.shape == (ns, 16):
                    for ln in range(16):
                        pos, pol = ev.get(ln, (np.array([], int), np.array([], int)))
                        check_fronts_line(res, U, fullg[:, ln], pos, pol, f"{lab} line {ln}")
                res.count("growing_file_events_after_first_look", int(sum(int(np.sum(np.asarray(v[0]) >= ns1)) for v in ev.values())))
                sg.close()
        except Exception as e:
            res.exception("read_sync:exception", e, f"{kind} ns={ns}")
        res.sig = f"imec-{kind}-{nl}-{use_c}"
    elif cls == "nidq-file":
        ns = int(rng.integers(500, 4000))
        mn, ma, xa = int(rng.integers(0, 3)), int(rng.integers(0, 3)), int(rng.integers(1, 4))
        aimax = float(rng.choice([5, 10]))
        rec = G.make_nidq(rng, mn=mn, ma=ma, xa=xa, dw=1, acq="random", mn_gain=float(rng.choice([1, 200])), aimax=aimax, ns=ns,
                          fs=float(rng.choice([30003.0003, 25000.0])))
        nl = int(rng.integers(1, 9))
        lines = np.sort(rng.choice(8, nl, replace=False))
        T = np.zeros((ns, 16), np.int8)
        ev = {}
        for ln in lines:
            x, pos, pol = train(rng, ns, int(rng.integers(0, 40)))
            T[:, ln] = x
            ev[int(ln)] = (pos, pol)
        word = (T.astype(np.int64) << np.arange(16)[None, :]).sum(axis=1).astype(np.int16)
        rec.raw[:, -1] = word
        A = np.zeros((ns, xa), np.int8)
        i2v = aimax / 32768
        for j in range(xa):
            # analog TTL: low level anywhere in [-1, 1] V (DC offset), high = low + 2..3 V, noise 30 mV; >= 25 % low samples
            while True:
                x, pos, pol = train(rng, ns, int(rng.integers(1, 30)), min_gap=5)
                if np.mean(x == 0) >= 0.25:
                    break
            low = float(rng.uniform(-1, 1))
            high = low + float(rng.uniform(2.0, 3.0))
            v = np.where(x == 1, high, low) + rng.uniform(-0.03, 0.03, ns)
            rec.raw[:, mn + ma + j] = np.clip(np.round(v / i2v), -32768, 32767).astype(np.int16)
            A[:, j] = x
            ev[16 + j] = (pos, pol)
        b = G.write(rec, scratch())
        try:
            sr = spikeglx.Reader(b)
            for sl in (slice(0, ns), slice(None)):
                sy = sr.read_sync(sl)
                exp = np.c_[T, A]
                res.check(sy.shape == exp.shape and sy.dtype == np.int8, "read_sync:nidq-shape",
                          f"nidq read_sync shape {sy.shape} dtype {sy.dtype}, expected {exp.shape} int8")
                if sy.shape == exp.shape:
                    res.check(np.array_equal(sy[:, :16], T), "read_sync:nidq-digital", "digital lines are not the first 16 columns / differ",
                              counter="read_sync_checked")
                    res.check(np.array_equal(sy[:, 16:], A), "read_sync:nidq-analog",
                              f"thresholded analog lines differ (xa={xa}, {int((sy[:, 16:] != A).sum())} samples)", counter="analog_lines_checked")
            # every read stands on its own: the floor of an analog line is taken from the window read, not from an earlier window of the same reader
            # (a second recording whose analog baseline steps up by ~1.6 V half-way, read window by window in both orders, with one reader)
            recd = G.make_nidq(rng, mn=mn, ma=ma, xa=1, dw=1, acq=None, mn_gain=1.0, aimax=aimax, ns=ns, fs=25000.0)
            half = ns // 2
            xd, posd, pold = train(rng, ns, int(rng.integers(6, 30)), min_gap=5)
            base = np.where(np.arange(ns) < half, float(rng.uniform(-0.5, 0.2)), float(rng.uniform(1.5, 1.9)))
            vd = base + np.where(xd == 1, 2.5, 0.0) + rng.uniform(-0.02, 0.02, ns)
            recd.raw[:, mn + ma] = np.clip(np.round(vd / i2v), -32768, 32767).astype(np.int16)
            bd = G.write(recd, scratch() / "drift")
            ok_lo = np.mean(xd[:half] == 0) >= 0.15 and np.mean(xd[half:] == 0) >= 0.15
            if ok_lo:
                for order_ in ((slice(0, half), slice(half, ns)), (slice(half, ns), slice(0, half))):
                    srd = spikeglx.Reader(bd)
                    for sl in order_:
                        syd = srd.read_sync(sl)
                        res.check(syd.shape == (sl.stop - sl.start, 17) and np.array_equal(syd[:, 16], xd[sl]), "read_sync:nidq-window-history",
                                  f"nidq read_sync({sl}) after {'no' if sl is order_[0] else 'an'} earlier read of the other half (baseline step half-way): analog line differs at "
                                  f"{int((syd[:, 16] != xd[sl]).sum()) if syd.shape[0] == sl.stop - sl.start else '?'} samples", counter="analog_lines_checked")
                    srd.close()
            # a window of several SECONDS whose opening second is spent high (a gate that is already up when the window starts, round 20): the floor of a
            # line is a property of the whole window read. Slow auxiliary rate so that seconds stay cheap; >= 25 % low samples in every window judged
            fsg = float(rng.choice([1000.0, 2000.0, 1250.5]))
            nsg = int(3.4 * fsg)
            recg = G.make_nidq(rng, mn=mn, ma=ma, xa=1, dw=1, acq=None, mn_gain=1.0, aimax=aimax, ns=nsg, fs=fsg)
            up = int(rng.uniform(1.05, 1.4) * fsg)
            xg = np.ones(nsg, np.int8)
            tail, _, _ = train(rng, nsg - up, int(rng.integers(6, 30)), min_gap=5)
            xg[up:] = tail
            xg[up:up + int(0.9 * fsg)] = 0                      # the gate closes for at least 0.9 s, then pulses
            lowg = float(rng.uniform(-1, 1))
            vg = lowg + np.where(xg == 1, float(rng.uniform(2.0, 3.0)), 0.0) + rng.uniform(-0.02, 0.02, nsg)
            recg.raw[:, mn + ma] = np.clip(np.round(vg / i2v), -32768, 32767).astype(np.int16)
            bg = G.write(recg, scratch() / "gate")
            with spikeglx.Reader(bg) as srg:
                for sl in (slice(0, nsg), slice(int(0.1 * fsg), nsg - 3)):
                    syg = srg.read_sync(sl)
                    n_ = sl.stop - sl.start
                    res.check(syg.shape == (n_, 17) and np.array_equal(syg[:, 16], xg[sl]), "read_sync:nidq-analog:high-opening-second",
                              f"nidq analog line at {fsg} Hz, high during the first {up / fsg:.2f} s of a {n_ / fsg:.1f} s window ({np.mean(xg[sl] == 0):.0%} low samples): "
                              f"{int((syg[:, 16] != xg[sl]).sum()) if syg.shape == (n_, 17) else '?'} samples differ from the written train "
                              f"({int(syg[:, 16].sum()) if syg.shape == (n_, 17) else '?'} read high, {int(xg[sl].sum())} written high)", counter="analog_long_windows")
                    ig, sg_ = U.fronts(syg[:, 16]) if syg.shape == (n_, 17) else (np.array([]), np.array([]))
                    expi = np.flatnonzero(np.diff(xg[sl].astype(int)) != 0) + 1
                    res.check(np.array_equal(ig, expi), "read_sync:nidq-analog:high-opening-second:fronts", f"fronts of that line: {len(ig)} events recovered, {len(expi)} written")
            # a weak analog line (swing 0.5..0.95 V above its floor) read with a threshold chosen for it: high samples lie far from the threshold
            # (at least 0.2 V on either side) and read 1; with the default threshold (1.2 V) the same line reads 0 throughout
            recw = G.make_nidq(rng, mn=mn, ma=ma, xa=1, dw=1, acq=None, mn_gain=1.0, aimax=aimax, ns=ns, fs=25000.0)
            while True:
                xw, posw, polw = train(rng, ns, int(rng.integers(4, 30)), min_gap=5)
                if np.mean(xw == 0) >= 0.25:
                    break
            swing = float(rng.uniform(0.5, 0.95))
            vw = float(rng.uniform(-1, 1)) + np.where(xw == 1, swing, 0.0) + rng.uniform(-0.02, 0.02, ns)
            recw.raw[:, mn + ma] = np.clip(np.round(vw / i2v), -32768, 32767).astype(np.int16)
            bw = G.write(recw, scratch() / "weak")
            with spikeglx.Reader(bw) as srw:
                thr = float(rng.uniform(0.2, swing - 0.25))
                syw = srw.read_sync(slice(0, ns), threshold=thr)
                res.check(syw.shape == (ns, 17) and np.array_equal(syw[:, 16], xw), "read_sync:nidq-threshold:weak-line",
                          f"nidq analog line swinging {swing:.2f} V above its floor read with threshold={thr:.2f} V: {int((syw[:, 16] != xw).sum()) if syw.shape == (ns, 17) else '?'} "
                          f"samples differ from the written train ({int(xw.sum())} high samples, {int(syw[:, 16].sum()) if syw.shape == (ns, 17) else '?'} read high)", counter="analog_lines_checked")
                sy0 = srw.read_sync(slice(0, ns))
                res.check(sy0.shape == (ns, 17) and not np.any(sy0[:, 16]), "read_sync:nidq-threshold:weak-line", f"the same line read with the default threshold: {int(sy0[:, 16].sum())} samples high")
                iw, sw_ = U.fronts(syw[:, 16]) if syw.shape == (ns, 17) else (np.array([]), np.array([]))
                res.check(np.array_equal(iw, posw) and np.array_equal(np.sign(sw_), polw), "read_sync:nidq-threshold:weak-line:fronts", f"fronts of the weak line: {len(iw)} events, {len(posw)} written")
            # the floor removal switched off (floor_percentile 0 / False / None) and an ABSOLUTE threshold: a line resting at 1.5..2.5 V with pulses 2..3 V
            # higher, threshold half-way between the two levels (>= 1 V from both)
            reca = G.make_nidq(rng, mn=mn, ma=ma, xa=1, dw=1, acq=None, mn_gain=1.0, aimax=10.0, ns=ns, fs=25000.0)
            xa_, posa, pola = train(rng, ns, int(rng.integers(4, 30)), min_gap=5)
            rest, amp_ = float(rng.uniform(1.5, 2.5)), float(rng.uniform(2.0, 3.0))
            va = rest + np.where(xa_ == 1, amp_, 0.0) + rng.uniform(-0.02, 0.02, ns)
            reca.raw[:, mn + ma] = np.clip(np.round(va / (10.0 / 32768)), -32768, 32767).astype(np.int16)
            ba = G.write(reca, scratch() / "absolute")
            with spikeglx.Reader(ba) as sra:
                for fp in (0, False, None):
                    sya = sra.read_sync(slice(0, ns), threshold=rest + amp_ / 2, floor_percentile=fp)
                    res.check(sya.shape == (ns, 17) and np.array_equal(sya[:, 16], xa_), "read_sync:nidq-absolute-threshold",
                              f"nidq analog line resting at {rest:.2f} V with {amp_:.2f} V pulses, read_sync(threshold={rest + amp_ / 2:.2f}, floor_percentile={fp!r}): "
                              f"{int((sya[:, 16] != xa_).sum()) if sya.shape == (ns, 17) else '?'} samples differ from the written train", counter="analog_lines_checked")
            # the recording is acquired AGAIN under the same name (a re-run): same header length, another analog range; every read describes the files as they are now
            mfile = b.with_suffix(".meta")
            txt = mfile.read_text()
            if "niAiRangeMax=5\n" in txt:
                mfile.write_text(txt.replace("niAiRangeMax=5\n", "niAiRangeMax=1\n"))       # the same counts now stand for a fifth of the voltage: swings of 0.4..0.6 V
                with spikeglx.Reader(b) as sr2:
                    sy2 = sr2.read_sync(slice(0, ns))
                    res.check(sy2.shape == (ns, 16 + xa) and np.array_equal(sy2[:, :16], T) and not np.any(sy2[:, 16:]), "read_sync:nidq-header-rewritten",
                              f"nidq header rewritten in place (same size, niAiRangeMax 5 -> 1): analog lines read {int(np.sum(sy2[:, 16:])) if sy2.ndim == 2 else '?'} high samples, the "
                              f"0.4-0.6 V swings now lie below the 1.2 V threshold", counter="headers_rewritten_in_place")
                mfile.write_text(txt)
            # an empty selection gives zero rows with the full line count (digital + analog), not an error
            for sl in (slice(7, 7), slice(ns, ns + 5), slice(5, 2)):
                sy = sr.read_sync(sl)
                res.check(sy.shape == (0, 16 + xa), "read_sync:nidq-empty-selection", f"nidq read_sync({sl}): shape {sy.shape}, expected (0, {16 + xa})", counter="nidq_partial_checked")
            # the threshold argument: the analog TTLs swing by 2..3 V above their floor, so any threshold between the noise and the swing gives the
            # same lines, and a threshold above the swing gives silent lines (digital lines never depend on it)
            for thr in (0.4, 1.9, 3.6):
                sy = sr.read_sync(slice(0, ns), threshold=thr)
                expA = A if thr < 2 else np.zeros_like(A)
                res.check(sy.shape == (ns, 16 + xa) and np.array_equal(sy[:, :16], T) and np.array_equal(sy[:, 16:], expA), "read_sync:nidq-threshold",
                          f"nidq read_sync(threshold={thr}): analog lines differ at {int((sy[:, 16:] != expA).sum()) if sy.shape == (ns, 16 + xa) else '?'} samples "
                          f"(swing 2..3 V above the floor)", counter="analog_lines_checked")
            # partial, strided and reversed selections: digital rows exactly; an analog line is judged when at least 15 % of the selected
            # samples are at its low level (the reader takes the 10th percentile of the selection as the floor)
            a0 = int(rng.integers(0, ns // 3))
            b0 = int(rng.integers(2 * ns // 3, ns))
            for sl in (slice(a0, b0), slice(a0, b0, int(rng.integers(2, 5))), slice(b0, a0, -1), slice(None, None, -int(rng.integers(1, 4)))):
                sy = sr.read_sync(sl)
                exp = np.c_[T, A][sl]
                ok_shape = sy.shape == exp.shape
                res.check(ok_shape and np.array_equal(sy[:, :16], exp[:, :16]), "read_sync:nidq-partial-digital",
                          f"nidq read_sync({sl}): shape {sy.shape} expected {exp.shape} / digital rows differ", counter="nidq_partial_checked")
                if ok_shape:
                    for j in range(xa):
                        if np.mean(exp[:, 16 + j] == 0) >= 0.15:
                            res.check(np.array_equal(sy[:, 16 + j], exp[:, 16 + j]), "read_sync:nidq-partial-analog",
                                      f"nidq read_sync({sl}): thresholded analog line {j} differs at {int((sy[:, 16 + j] != exp[:, 16 + j]).sum())} samples")
            check_routes(res, spikeglx, sr, np.c_[T, A], rng, ns, f"nidq xa={xa}", min_low=A)
            full = sr.read_sync(slice(0, ns))
            for ln in range(full.shape[1]):
                pos, pol = ev.get(ln, (np.array([], int), np.array([], int)))
                check_fronts_line(res, U, full[:, ln], pos, pol, f"nidq line {ln}")
            # analog=True front detection directly on the calibrated analog trace
            an = sr.read_sync_analog(slice(0, ns))
            for j in range(xa):
                pos, pol = ev[16 + j]
                tr = an[:, j].astype(np.float64)
                thr = float(np.percentile(tr, 10)) + 1.2
                r = U.rises(tr, step=thr, analog=True)
                f = U.falls(tr, step=thr, analog=True)
                res.check(np.array_equal(r, pos[pol > 0]), "rises:analog", f"analog rises {r[:6].tolist()} expected {pos[pol > 0][:6].tolist()}",
                          counter="fronts_checked")
                res.check(np.array_equal(f, pos[pol < 0]), "falls:analog", f"analog falls {f[:6].tolist()} expected {pos[pol < 0][:6].tolist()}")
            sr.close()
            nt = 1
        except Exception as e:
            res.exception("read_sync:exception", e, f"nidq ns={ns} xa={xa}")
        res.sig = f"nidq-{mn}-{ma}-{xa}-{nl}"
    elif cls == "fronts":
        # analog thresholding on quantised traces that ramp through, touch or rest on the threshold: a sample equal to the threshold is
        # not above it (rises) and not below it (falls); judged against a plain loop (round 19)
        for _ in range(max(4, case["n"] // 4)):
            ns = int(rng.integers(20, 300))
            q = float(rng.choice([1.0, 0.25, 0.5]))
            thr = float(rng.integers(-3, 6)) * q
            lv = thr + q * rng.integers(-3, 4, int(rng.integers(3, 25)))        # levels on the quantisation grid, the threshold among them
            xq = np.repeat(lv, rng.integers(1, 6, lv.size))[:ns].astype(np.float64)
            if rng.random() < 0.5:          # ramps: one grid step per sample
                xq = thr + q * np.clip(np.cumsum(rng.integers(-1, 2, ns)), -4, 4)
            bh, bl = xq > thr, xq < thr
            want_r = np.flatnonzero(bh[1:] & ~bh[:-1]) + 1
            want_f = np.flatnonzero(bl[1:] & ~bl[:-1]) + 1
            try:
                r, f = U.rises(xq, step=thr, analog=True), U.falls(xq, step=thr, analog=True)
                res.check(np.array_equal(r, want_r), "rises:analog:on-threshold", f"trace on a {q} grid with samples equal to the threshold {thr}: rises {np.asarray(r)[:8].tolist()} expected {want_r[:8].tolist()}",
                          counter="analog_on_threshold")
                res.check(np.array_equal(f, want_f), "falls:analog:on-threshold", f"trace on a {q} grid with samples equal to the threshold {thr}: falls {np.asarray(f)[:8].tolist()} expected {want_f[:8].tolist()}")
                X2 = np.c_[xq, xq[::-1]]
                r2 = U.rises(X2, axis=0, step=thr, analog=True)
                bh2 = X2 > thr
                w2 = np.where(bh2[1:] & ~bh2[:-1])
                res.check(sorted(zip(r2[0].tolist(), r2[1].tolist())) == sorted(zip((w2[0] + 1).tolist(), w2[1].tolist())), "rises:analog:on-threshold", "2-D analog rises with samples on the threshold differ")
            except Exception as e:
                res.exception("fronts:exception", e, "analog on-threshold")
        for _ in range(case["n"]):
            ns = int(rng.integers(2, 500))
            x, pos, pol = train(rng, ns, int(rng.integers(0, 30)), min_gap=int(rng.integers(1, 4)))
            dt = rng.choice([np.int8, np.int16, np.int64, np.float32, np.float64])
            amp = float(rng.choice([1, 1, 5, 3.3]))
            if np.issubdtype(dt, np.integer):
                amp = int(amp) if amp != 3.3 else 3
            xs = (x.astype(np.float64) * amp).astype(dt)
            try:
                if amp == 1:
                    check_fronts_line(res, U, xs, pos, pol, f"1-D {np.dtype(dt).name} ns={ns}")
                # step variants: a step of `amp` is detected with step<=amp and ignored with step>amp
                i, s = U.fronts(xs, step=amp)
                res.check(np.array_equal(i, pos) and np.array_equal(np.sign(s), pol) and np.all(np.abs(s) == amp), "fronts:step",
                          f"{np.dtype(dt).name} amp {amp}: fronts(step=amp) {i[:6].tolist()} expected {pos[:6].tolist()}", counter="fronts_checked")
                i, s = U.fronts(xs, step=amp * 1.5 if amp > 1 else 2)
                res.check(i.size == 0, "fronts:step-above", "fronts detected below the requested step")
                r = U.rises(xs, step=amp)
                f = U.falls(xs, step=-amp)
                res.check(np.array_equal(r, pos[pol > 0]) and np.array_equal(f, pos[pol < 0]), "rises-falls:step",
                          f"rises/falls with step={amp} differ from the generated events")
                # small wiggles below the step must not be detected
                if np.issubdtype(dt, np.floating) and amp > 1:
                    noisy = xs + (rng.uniform(-0.2, 0.2, ns)).astype(dt)
                    i, s = U.fronts(noisy, step=amp * 0.8)
                    res.check(np.array_equal(i, pos), "fronts:noise", "sub-step noise changes the detected fronts")
                # 2-D stack of trains, axis 0 and axis 1
                k = int(rng.integers(2, 5))
                trains = [train(rng, ns, int(rng.integers(0, 20))) for _ in range(k)]
                X = np.stack([t[0] for t in trains]).astype(dt)
                exp = sorted((row, int(p), int(q)) for row, t in enumerate(trains) for p, q in zip(t[1], t[2]))
                ii, ss = U.fronts(X, axis=-1)
                got = sorted((int(a), int(b_), int(np.sign(c))) for a, b_, c in zip(ii[0], ii[1], ss)) if np.ndim(ii) == 2 else None
                res.check(got == exp, "fronts:2d-axis1", f"2-D fronts along the last axis differ (k={k}, ns={ns})", counter="fronts_checked")
                ii, ss = U.fronts(np.ascontiguousarray(X.T), axis=0)
                got = sorted((int(b_), int(a), int(np.sign(c))) for a, b_, c in zip(ii[0], ii[1], ss)) if np.ndim(ii) == 2 else None
                res.check(got == exp, "fronts:2d-axis0", f"2-D fronts along axis 0 differ (k={k}, ns={ns})")
                if len(pos) >= 3:
                    nt += 1
            except Exception as e:
                res.exception("fronts:exception", e, f"ns={ns} dtype={np.dtype(dt).name}")
        res.sig = f"fronts-{case['seed']}"
    res.nontrivial = nt > 0
    res.nt = nt
    return res
