"""C12 LFP extraction equals low-pass plus decimation, independent of windowing.

Monitors: byte observers on *.lf.bin (/.cbin decoded by harness code) and *.lf.meta produced by NP2Converter for
several processing-window sizes, compared (i) with each other, (ii) with a whole-trace zero-phase low-pass +
stride-12 reference computed by the harness, (iii) with every 12th AP sync word, (iv) with their own metadata.
"""
import shutil

import numpy as np
import scipy.signal

from vlib import gen_meta as G
from vlib import np2
from vlib.result import Result, rng_for, scratch

PROPERTY = "C12"
LEVEL = "exploration"
RULE = ("broadband AP contents (random walk + white noise + slow oscillations, never constant; amplitudes within +-max-int or filling the int16 range) x NP2.1 and NP2.4 layouts (1..4 shanks, random "
        "assignments) x gain settings x lengths not multiple of 12 nor of the window x >= 3 window sizes per recording out of {1200, 1800, 2400, "
        "3600, 60000, random multiples of 12}. Non-trivial: >= 2 windows needed for the smallest window size and length not a multiple of 12; "
        "distinct = distinct (kind, gain, ns, window set, layout)")
ASSUMPTIONS = ["reference low-pass = the converter's own published design (2nd order Butterworth, Wn=0.2 re. AP Nyquist) applied forward-backward to "
               "the WHOLE trace with scipy.signal.sosfiltfilt", "'away from the two file edges' = 50 LF samples (600 AP samples) at either end",
               "1 LSB tolerance: bound < 1 + 1e-3 to absorb the float32 calibration round trip"]
REQUIRED = {"lf_files_left_by_stopped_runs": 3, "lf_files_compared": 12, "reruns_same_object": 3, "window_pairs_compared": 6, "sync_columns_compared": 12, "lf_meta_checked": 12, "reference_compared": 12, "int16_wide_contents": 2, "long_cbin_cases": 1, "calibrated_rate_headers": 1, "saved_channel_subsets": 1, "four_digit_rows": 1, "limited_runs_compared": 10}
CASE_TIMEOUT = 200.0
MAX_PROCS = 12


def gen_cases(seed, tier):
    n = 24 if tier == "quick" else 720
    cases = [{"cls": "lfp", "seed": seed * 1000 + i, "_w": 5} for i in range(n)]
    # long recordings (several default windows) handed over compressed, with metadata that is off by one sample / written with few decimals
    cases += [{"cls": "long", "seed": seed * 1000 + 500 + i, "_w": 40} for i in range(1 if tier == "quick" else 12)]
    return cases


def broadband(rng, ns, maxint, wide=False):
    """int16 (ns, 385): random walk + white + a few slow oscillations per channel, amplitude a good fraction of the range"""
    t = np.arange(ns)[:, None]
    walk = np.cumsum(rng.standard_normal((ns, 384)), axis=0)
    walk -= np.linspace(0, 1, ns)[:, None] * walk[-1][None, :] * rng.uniform(0, 1, (1, 384))
    osc = sum(rng.uniform(0.2, 1) * np.sin(2 * np.pi * t * f / 30000.0 + rng.uniform(0, 6.28, (1, 384)))
              for f in rng.uniform(2, 900, 4))
    x = walk / (np.std(walk) + 1e-9) * 0.15 + osc * 0.12 + rng.standard_normal((ns, 384)) * 0.05
    amp = min(maxint, 30000) * float(rng.uniform(0.5, 0.9))
    if wide:
        # the file format is int16 whatever the converter's nominal max-int: slow components well beyond +-maxint counts, within int16
        amp = 30000 * float(rng.uniform(0.5, 0.95)) / float(np.max(np.abs(x)))
    raw = np.clip(np.round(x * amp), -32768, 32767).astype(np.int16)
    sync = G.sync_words(rng, (ns, 1))
    return np.ascontiguousarray(np.c_[raw, sync])


def long_case(case, res, rng, d):
    import neuropixel
    import spikeglx
    kind = "NP2.1"
    gain = np2.GAIN_PAIRS[int(rng.integers(0, 4))]
    ns = int(rng.integers(100_000, 150_000))
    first = case["seed"] % 1000 == 500                              # the first long case of every run fixes the hardest combination, the others draw
    ns += (1 - ns % 12) % 12 if (first or rng.random() < 0.6) else 0   # one sample past a multiple of 12: the last LF sample stands for a single AP sample
    delta = -1 if first else int(rng.choice([-1, -1, 1, 0]))
    sites = G.draw_sites(rng, "NP2.1", 384, "dense")
    # cheap broadband content: integer random walk + noise, per channel
    raw = np.cumsum(rng.integers(-40, 41, (ns, 384), dtype=np.int32), axis=0, dtype=np.int32)
    raw -= (np.arange(ns, dtype=np.int64)[:, None] * (raw[-1][None, :].astype(np.int64)) // ns).astype(np.int32)
    raw = np.clip(raw + rng.integers(-60, 61, (ns, 384), dtype=np.int32), -8000, 8000).astype(np.int16)
    raw = np.ascontiguousarray(np.c_[raw, G.sync_words(rng, (ns, 1))])
    root = d / "long"
    # the header's sampling rate is the probe's CALIBRATED rate (a fraction of a Hz off nominal), cycled over the long cases of a run
    fs_hdr = [30000.75, 30000.0, 30000.390639481, 29999.757983][case["seed"] % 4]
    b, rec = np2.build(rng, root, kind=kind, ns=ns, gain=gain, sites=sites, raw=raw, claim_ns=ns + delta if delta else None, fs=fs_hdr)
    res.count("calibrated_rate_headers", int(fs_hdr != 30000.0))
    # (the first long case of a run keeps the duration at full precision: announced and actual durations then differ by ONE sample period exactly)
    tsec = np2.round_duration(b.with_suffix(".meta"), ns + delta, rec.fs, rng) if (rng.random() < 0.7 and not first) else None
    b = np2.compress_original(b, rec, chunk_duration=1.0)
    label = f"{kind} gain={gain[0]}/{gain[1]} ns={ns} (ns % 12 = {ns % 12}) original=cbin imSampRate={fs_hdr}, metadata announces {ns + delta} samples" + (f", fileTimeSecs={tsec}" if tsec else "")
    res.count("long_cbin_cases")
    try:
        conv = neuropixel.NP2Converter(b, post_check=False, compress=False, delete_original=False)
        st = conv.process()
        conv.sr.close()
        res.check(st == 1, "lfp:status", f"{label}: process() returned {st}")
    except Exception as e:
        res.exception("lfp:exception", e, label)
        return
    f = root / "probe00" / (np2.NAME.replace(".ap", ".lf") + ".bin")
    if not f.exists():
        res.violation("lfp:missing-file", f"{label}: {f.name} missing")
        return
    nlf = -(-ns // 12)
    got = np2.read_int16(f, 385)
    res.count("lf_files_compared")
    if got.ndim != 2 or got.shape != (nlf, 385):
        res.violation("lfp:rows", f"{label}: LF file holds {got.shape}, expected ({nlf}, 385) = ceil(n/12) rows")
        return
    res.check(np.array_equal(got[:, -1], raw[::12, 384]), "lfp:sync", f"{label}: LF sync column is not every 12th AP sync word", counter="sync_columns_compared")
    sos = scipy.signal.butter(N=2, Wn=0.2, btype="lowpass", output="sos")
    cols = rng.choice(384, 24, replace=False)
    ref = scipy.signal.sosfiltfilt(sos, raw[:, cols].astype(np.float64), axis=0)[::12]
    dev = np.max(np.abs(got[50:-50][:, cols].astype(np.float64) - ref[50:-50]))
    res.check(dev < 1 + 1e-3, "lfp:reference", f"{label}: LF differs from low-pass+decimation of the whole trace by {dev:.3f} LSB", counter="reference_compared")
    sr = spikeglx.Reader(f, sort=False)
    res.check(sr.type == "lf" and sr.shape == (nlf, 385) and sr.fs == 2500, "lfp:reader-shape", f"{label}: Reader(lf) type={sr.type} shape={sr.shape} fs={sr.fs}", counter="lf_meta_checked")
    sr.close()


def run_case(case):
    import neuropixel
    import spikeglx
    res = Result()
    rng = rng_for(case)
    d = scratch()
    if case["cls"] == "long":
        long_case(case, res, rng, d)
        res.sig = f"long-{case['seed']}"
        res.nontrivial = True
        return res
    ci = case.get("_orig_i", case["_i"])
    kind = "NP2.1" if ci % 2 == 0 else "NP2.4"
    forced = ci % 8 in (0, 1)        # fixed combination twice per layout and run: flat original, compress=True, one converter object re-used for the forced re-run
    gain = np2.GAIN_PAIRS[int(rng.integers(0, 4))]
    ns = int(rng.integers(2500, 9000))
    if ns % 12 == 0:
        ns += int(rng.integers(1, 12))
    if kind == "NP2.4":
        mode = str(rng.choice(["dense", "random", "blocks"]))
        sites = np2.shank_assignment(rng, mode, int(rng.integers(1, 5)) if mode != "dense" else 4)
    else:
        mode = "np21"
        sites = G.draw_sites(rng, "NP2.1", 384, str(rng.choice(["dense", "random"])))
        if ci % 6 == 2 or rng.random() < 0.15:
            # the AP file was saved with a SUBSET of the acquired channels (snsApLfSy = k,0,1 with k < 384): k AP columns followed by the sync word
            nsub = int(rng.choice([96, 192, 300]))
            sites = G.draw_sites(rng, "NP2.1", nsub, str(rng.choice(["dense", "random"])))
            mode = f"np21-{nsub}-saved"
            res.count("saved_channel_subsets")
    xmeta = None
    if kind == "NP2.1" and ci % 6 == 4:
        # the long single-shank prototype (probe type 1030, 2208 rows per the map header) recorded from a bank straddling row 1000: four-digit row numbers
        r0 = int(rng.integers(880, 960))
        sites = np.c_[np.zeros(384, int), np.arange(384) % 2, r0 + np.arange(384) // 2]
        xmeta = {"imDatPrb_type": 1030}
        mode = f"np21-prototype-rows-{r0}-{r0 + 191}"
        res.count("four_digit_rows")
    wide = rng.random() < 0.35
    raw = broadband(rng, ns, gain[1], wide=wide)
    if len(sites) < 384:
        raw = np.ascontiguousarray(raw[:, np.r_[np.arange(len(sites)), 384]])
    nap = raw.shape[1] - 1
    wins = [1200, 1800, 2400, 3600, 60000, 12 * int(rng.integers(49, 300))]
    wsel = [1200] + [int(v) for v in rng.choice(wins[1:], 2, replace=False)]
    compress = rng.random() < 0.25 or forced
    cbin_orig = rng.random() < 0.25 and not forced
    label0 = f"{kind} gain={gain[0]}/{gain[1]} ns={ns} layout={mode} compress={compress} original={'cbin' if cbin_orig else 'bin'}" + (f" amplitude up to {int(np.max(np.abs(raw[:, :nap])))} counts" if wide else "")
    if wide:
        res.count("int16_wide_contents")
    # reference: whole-trace zero-phase low-pass, then every 12th sample, in integer units
    sos = scipy.signal.butter(N=2, Wn=0.2, btype="lowpass", output="sos")
    ref = scipy.signal.sosfiltfilt(sos, raw[:, :nap].astype(np.float64), axis=0)[::12]
    nlf = -(-ns // 12)
    fs_hdr = float(rng.choice([30000.0, 30000.390639481, 29999.757983, 30000.75]))
    label0 += f" imSampRate={fs_hdr}"
    outs = {}
    for w in wsel:
        root = d / f"w{w}"
        b, rec = np2.build(rng, root, kind=kind, ns=ns, gain=gain, sites=sites, raw=raw, fs=fs_hdr, extra_meta=xmeta)
        label = f"{label0} window={w}"
        if cbin_orig:
            import mtscomp
            mtscomp.compress(b, out=b.with_suffix(".cbin"), outmeta=b.with_suffix(".ch"), sample_rate=rec.fs, n_channels=rec.nc, dtype=np.int16,
                             chunk_duration=0.05, check_after_compress=False)
            b.unlink()
            b = b.with_suffix(".cbin")
        try:
            conv = neuropixel.NP2Converter(b, post_check=False, compress=compress, delete_original=False)
            conv.init_params(nwindow=w)
            st = conv.process()
            res.check(st == 1, "lfp:status", f"{label}: process() returned {st}")
            same_object = bool(rng.integers(0, 2)) or forced
            if w != wsel[-1] or not same_object:
                conv.sr.close()
            if w == wsel[-1]:
                # forced re-run over the output that is already there: the LF stream must again be exactly ceil(n/12) samples of the same content;
                # half of the time with the SAME converter object, parameters initialised again (what the first run wrote must not leak into the second)
                b2 = b if b.exists() else b.with_suffix(".cbin")
                if not same_object:
                    conv = neuropixel.NP2Converter(b2, post_check=False, compress=compress, delete_original=False)
                else:
                    res.count("reruns_same_object")
                conv.init_params(nwindow=w)
                st = conv.process(overwrite=True)
                conv.sr.close()
                label += " (forced re-run over existing output" + (", same converter object)" if same_object else ")")
                res.check(st == 1, "lfp:status", f"{label}: process(overwrite=True) returned {st}")
                res.count("reruns")
        except Exception as e:
            res.exception("lfp:exception", e, label)
            continue
        cols = np2.shank_columns(rec) if kind == "NP2.4" else {0: np.arange(nap + 1)}
        per = {}
        for s, c in cols.items():
            folder = root / (f"probe00{chr(97 + s)}" if kind == "NP2.4" else "probe00")
            f = folder / (np2.NAME.replace(".ap", ".lf") + (".cbin" if compress else ".bin"))
            if not f.exists():
                res.violation("lfp:missing-file", f"{label}: {f.name} missing in {folder.name}: {[p.name for p in folder.glob('*')]}")
                continue
            got = np2.read_int16(f, len(c))
            res.count("lf_files_compared")
            if got.ndim != 2 or got.shape != (nlf, len(c)):
                res.violation("lfp:rows", f"{label}: shank {s}: LF file holds {got.shape}, expected ({nlf}, {len(c)}) = ceil(n/12) rows")
                continue
            per[s] = got
            # sync = every 12th AP sync word
            res.check(np.array_equal(got[:, -1], raw[::12, -1]), "lfp:sync", f"{label}: shank {s}: LF sync column is not every 12th AP sync word",
                      counter="sync_columns_compared")
            # reference comparison away from the edges
            e = 50
            dev = np.max(np.abs(got[e:-e, :-1].astype(np.float64) - ref[e:-e][:, c[:-1]]))
            res.check(dev < 1 + 1e-3, "lfp:reference", f"{label}: shank {s}: LF differs from low-pass+decimation of the whole trace by {dev:.3f} LSB",
                      counter="reference_compared")
            res.measure("lf_vs_reference_lsb", dev)
            # metadata vs bytes
            try:
                m = spikeglx.read_meta_data(f.with_suffix(".meta"))
                ap, lf, sy = [int(v) for v in m["snsApLfSy"]]
                res.check(m["imSampRate"] == 2500, "lfp:meta-rate", f"{label}: LF meta imSampRate={m['imSampRate']}")
                res.check(ap == 0 and lf + sy == len(c) and int(m["nSavedChans"]) == len(c), "lfp:meta-channels",
                          f"{label}: shank {s}: LF meta snsApLfSy={m['snsApLfSy']} nSavedChans={m['nSavedChans']} but the file has {len(c)} columns")
                # the other places where the header states how many channels the file holds: the acquired counts (no AP channel in an LF stream)
                # and, for split shanks, the saved-channel subset
                aap, alf, asy = [int(v) for v in m["acqApLfSy"]]
                nsub = 0
                for part in str(m["snsSaveChanSubset"]).split(","):
                    a = part.split(":")
                    nsub += int(float(a[-1])) - int(float(a[0])) + 1
                res.check(aap == 0 and alf + asy == len(c) and (nsub == len(c) or str(m["snsSaveChanSubset"]) == "all"), "lfp:meta-channels:acquired-or-subset",
                          f"{label}: shank {s}: LF meta acqApLfSy={m['acqApLfSy']} snsSaveChanSubset={m['snsSaveChanSubset']!r} for a file of {len(c)} columns")
                res.check(int(m["fileSizeBytes"]) == f.stat().st_size or compress, "lfp:meta-size", f"{label}: fileSizeBytes {m['fileSizeBytes']} vs {f.stat().st_size}")
                sr = spikeglx.Reader(f, sort=False)
                res.check(sr.type == "lf" and sr.shape == (nlf, len(c)) and sr.fs == 2500, "lfp:reader-shape",
                          f"{label}: Reader(lf) type={sr.type} shape={sr.shape} fs={sr.fs}, content is ({nlf},{len(c)})", counter="lf_meta_checked")
                back = sr[:, :-1] / sr.sample2volts[:-1]
                res.check(np.max(np.abs(back - got[:, :-1])) < 0.01, "lfp:reader-values", f"{label}: Reader(lf) values do not match the file's integers")
                sr.close()
            except Exception as e:
                res.exception("lfp:meta:exception", e, f"{label} shank {s}")
        outs[w] = per
        shutil.rmtree(root, ignore_errors=True)
    # a run limited to the first N samples of the recording (init_params(nsamples=N)): the LF stream describes those N samples -
    # ceil(N/12) rows, every 12th sync word up to N, the low-passed trace away from the ends (round 19)
    if ns > 4000:
        N = int(rng.integers(ns // 3, ns - 700))
        w = wsel[0]
        root = d / "limited"
        label = f"{label0} window={w} nsamples={N}"
        try:
            b, rec = np2.build(rng, root, kind=kind, ns=ns, gain=gain, sites=sites, raw=raw, fs=fs_hdr, extra_meta=xmeta)
            conv = neuropixel.NP2Converter(b, post_check=False, compress=False, delete_original=False)
            conv.init_params(nsamples=N, nwindow=w)
            st = conv.process()
            conv.sr.close()
            res.check(st == 1, "lfp:status", f"{label}: process() returned {st}")
            cols = np2.shank_columns(rec) if kind == "NP2.4" else {0: np.arange(nap + 1)}
            nlfN = -(-N // 12)
            for s, c in cols.items():
                folder = root / (f"probe00{chr(97 + s)}" if kind == "NP2.4" else "probe00")
                f = folder / (np2.NAME.replace(".ap", ".lf") + ".bin")
                got = np2.read_int16(f, len(c))
                res.count("limited_runs_compared")
                if got.ndim != 2 or got.shape != (nlfN, len(c)):
                    res.violation("lfp:rows:limited-run", f"{label}: shank {s}: LF file holds {got.shape}, expected ({nlfN}, {len(c)}) = ceil(nsamples/12) rows")
                    continue
                res.check(np.array_equal(got[:, -1], raw[:N:12, -1]), "lfp:sync:limited-run", f"{label}: shank {s}: LF sync column is not every 12th AP sync word of the first {N} samples")
                e = 50
                dev = np.max(np.abs(got[e:-e, :-1].astype(np.float64) - ref[e:nlfN - e][:, c[:-1]]))
                res.check(dev < 1 + 1e-3, "lfp:reference:limited-run", f"{label}: shank {s}: LF differs from low-pass+decimation of the trace by {dev:.3f} LSB")
        except Exception as e:
            res.exception("lfp:exception:limited-run", e, label)
        shutil.rmtree(root, ignore_errors=True)
    if kind == "NP2.4" and ci % 4 == 1:
        # round 22: a verified run (post_check) that is stopped when the verification starts - a read error on the original, an interruption.  The LF
        # stream is complete at that point: every *.lf.bin left in the shank folders is a file with metadata that describe it (2500 Hz, its channels, its rows)
        root = d / "stopped"
        label = f"{label0} window={wsel[0]} verification stopped at its start"
        orig_check = neuropixel.NP2Converter.check_NP24

        def _stop(self):
            raise OSError("injected by the harness: read error when the verification starts")
        try:
            b, rec = np2.build(rng, root, kind=kind, ns=ns, gain=gain, sites=sites, raw=raw, fs=fs_hdr, extra_meta=xmeta)
            conv = neuropixel.NP2Converter(b, post_check=True, compress=False, delete_original=False)
            conv.init_params(nwindow=wsel[0])
            neuropixel.NP2Converter.check_NP24 = _stop
            try:
                conv.process()
                res.violation("lfp:stopped-run:not-stopped", f"{label}: process() returned although the verification raised")
            except OSError:
                res.count("runs_stopped_at_verification")
            finally:
                neuropixel.NP2Converter.check_NP24 = orig_check
            try:
                conv.sr.close()
            except Exception:
                pass
            nlf = -(-ns // 12)
            for s, c in np2.shank_columns(rec).items():
                f = root / f"probe00{chr(97 + s)}" / (np2.NAME.replace(".ap", ".lf") + ".bin")
                if not f.exists():
                    continue
                res.count("lf_files_left_by_stopped_runs")
                if not f.with_suffix(".meta").exists():
                    res.violation("lfp:stopped-run:lf-file-without-metadata", f"{label}: shank {s}: {f.name} ({f.stat().st_size} bytes) was left without a metadata file")
                    continue
                try:
                    srl = spikeglx.Reader(f)
                    okl = srl.fs == 2500 and srl.shape == (f.stat().st_size // (2 * len(c)), len(c)) and srl.shape[0] == nlf
                    res.check(okl, "lfp:stopped-run:lf-file-opens-with-other-shape", f"{label}: shank {s}: {f.name} opens as {srl.shape} at {srl.fs} Hz; it holds "
                              f"{f.stat().st_size // (2 * len(c))} rows of {len(c)} channels, expected {nlf} rows at 2500 Hz")
                    srl.close()
                except Exception as e:
                    res.exception("lfp:stopped-run:lf-file-does-not-open", e, f"{label}: shank {s}")
        except Exception as e:
            res.exception("lfp:exception:stopped-run", e, label)
        shutil.rmtree(root, ignore_errors=True)
    ws = sorted(outs)
    for i in range(len(ws)):
        for j in range(i + 1, len(ws)):
            for s in outs[ws[i]]:
                if s in outs[ws[j]]:
                    a, c = outs[ws[i]][s].astype(int), outs[ws[j]][s].astype(int)
                    dev = int(np.max(np.abs(a - c)))
                    where = np.argwhere(np.abs(a - c) == dev)[0]
                    res.measure("window_pair_lsb", dev)
                    res.check(dev <= 1, "lfp:window-dependence", f"{label0}: shank {s}: windows {ws[i]} and {ws[j]} give LF files differing by {dev} LSB "
                              f"(row {where[0]} of {a.shape[0]}, col {where[1]})", counter="window_pairs_compared")
    res.sig = f"{label0} windows={wsel}"
    res.nontrivial = ns > 1200 and ns % 12 != 0
    return res
