"""C17 Sliding windows cover, overlap, partition and splice exactly.

Monitor: every generator of ibldsp.utils.WindowGenerator is consumed through a boundary spy and its
complete output is judged by predicates that do not share code with the implementation.
"""
import numpy as np

from vlib.result import Result, rng_for

PROPERTY = "C17"
LEVEL = "exploration"
RULE = ("exhaustive box of (ns, nswin, overlap<nswin) triples sharded by nswin, plus seeded random large triples; "
        "a triple is non-trivial when it produces >= 2 windows; distinct = distinct triple "
        "(distinct_nontrivial counts them per shard and is summed over disjoint shards)")
ASSUMPTIONS = ["numpy arithmetic is exact on the integer ranges used"]
REQUIRED = {"triples": 1000, "interleaved_checked": 200, "splicing_sums_checked": 100, "valid_partitions_checked": 100, "nwin_checked": 1000, "repeat_queries_checked": 1000, "huge_triples": 100, "abandoned_passes": 300}
CASE_TIMEOUT = 120.0


def EXHAUSTIVE(tier):
    return ("ns<=400, nswin<=64, all overlaps" if tier == "thorough" else "ns<=120, nswin<=24, all overlaps")


def gen_cases(seed, tier):
    nsmax, wmax = (400, 64) if tier == "thorough" else (120, 24)
    cases = [{"cls": "huge", "seed": seed * 1000 + 900 + k, "n": 60, "_w": 1.0} for k in range(2 if tier == "quick" else 20)]
    for w in range(1, wmax + 1):
        cases.append({"cls": "box", "nswin": w, "nsmax": nsmax, "_w": w * nsmax / 2000.0})
    nrand = 40000 if tier == "thorough" else 600
    per = 200
    for k in range(nrand // per):
        cases.append({"cls": "random-large", "n": per, "seed": seed * 1000 + k, "_w": 1.0})
    return cases


class Runaway(Exception):
    pass


def bounded(gen, cap):
    """iterate a window generator, but never more than cap items: a generator that does not stop is reported, not waited for"""
    for k, item in enumerate(gen):
        if k >= cap:
            raise Runaway(f"more than {cap} windows produced")
        yield item


def check_triple(res, ns, nswin, overlap, WG, fs=30000.0):
    """all C17 predicates for one triple; returns number of windows"""
    T = (ns, nswin, overlap)
    try:
        wg = WG(ns, nswin, overlap)
        fl = list(bounded(wg.firstlast, ns + 3))
    except Exception as e:
        res.exception("firstlast:exception", e, f"WindowGenerator{T}.firstlast")
        return 0
    res.count("triples")
    n = len(fl)
    if n == 0:
        res.violation("firstlast:no-window:" + ("ns<=overlap" if ns <= overlap else "other"), f"{T}: no window produced (nwin announced {wg.nwin})")
        return 0
    first = np.array([a for a, _ in fl])
    last = np.array([b for _, b in fl])
    res.check(first[0] == 0, "firstlast:start", f"{T}: first window starts at {first[0]}")
    res.check(last[-1] == ns, "firstlast:end", f"{T}: last window ends at {last[-1]}")
    res.check(np.all(last[:-1] - first[:-1] == nswin) and 0 < last[-1] - first[-1] <= nswin,
              "firstlast:length", f"{T}: window lengths {(last - first).tolist()[:8]}")
    if n > 1:
        res.check(np.all(first[1:] == last[:-1] - overlap), "firstlast:overlap",
                  f"{T}: consecutive windows do not overlap by {overlap}: {fl[:4]}")
        res.check(np.all(last[:-1] < ns), "firstlast:stop", f"{T}: windows produced after the end was reached")
    cover = np.zeros(ns, int)
    for a, b in fl:
        cover[a:b] += 1
    res.check(cover.min() >= 1, "firstlast:gap", f"{T}: samples not covered")
    # announced count
    res.check(wg.nwin == n, "nwin:" + ("ns<=overlap" if ns <= overlap else "other"),
              f"{T}: nwin announced {wg.nwin}, produced {n}", counter="nwin_checked")
    # time scale = window centres
    try:
        ts = wg.tscale(fs)
        exp = (first + last - 1) / 2 / fs
        res.check(ts.shape == exp.shape and np.allclose(ts, exp, rtol=1e-12, atol=0), "tscale",
                  f"{T}: tscale {ts[:3]} expected {exp[:3]}")
    except Exception as e:
        res.exception("tscale:exception", e, f"{T}")
    # slices agree with firstlast
    try:
        sl = list(bounded(wg.slice, ns + 3))
        res.check([(s.start, s.stop) for s in sl] == fl and all(s.step is None for s in sl), "slice",
                  f"{T}: slice generator disagrees with firstlast")
        if ns <= 60:
            sig = np.arange(2 * ns).reshape(2, ns)
            arrs = list(wg.slice_array(sig))
            ok = len(arrs) == n and all(np.array_equal(a, sig[:, f:l]) for a, (f, l) in zip(arrs, fl))
            res.check(ok, "slice_array", f"{T}: slice_array disagrees with firstlast")
            # along any axis of a 2-D / 3-D array (the signal need not lie on the last one)
            for shp, ax in (((ns, 3), 0), ((ns, 3), -2), ((2, ns, 3), 1), ((2, 3, ns), 2), ((3, ns), -1)):
                sig = np.arange(int(np.prod(shp))).reshape(shp)
                arrs = list(wg.slice_array(sig, axis=ax))
                ok = len(arrs) == n and all(np.array_equal(a, np.take(sig, np.arange(f, l), axis=ax)) for a, (f, l) in zip(arrs, fl))
                res.check(ok, "slice_array:axis", f"{T}: slice_array(axis={ax}) on shape {shp} disagrees with firstlast", counter="slice_array_axes")
    except Exception as e:
        res.exception("slice:exception", e, f"{T}")
    # valid sub-windows: exact partition
    if overlap % 2 == 0:
        try:
            flv = list(bounded(wg.firstlast_valid, ns + 3))
            res.count("valid_partitions_checked")
            once = np.zeros(ns, int)
            ok = len(flv) == n
            for (f, l, fv, lv), (f0, l0) in zip(flv, fl):
                ok &= (f, l) == (f0, l0) and f <= fv <= lv <= l
                once[fv:lv] += 1
            res.check(ok, "valid:bounds", f"{T}: valid windows not inside their windows: {flv[:4]}")
            res.check(np.all(once == 1), "valid:partition",
                      f"{T}: samples counted {np.unique(once).tolist()} times by valid windows")
        except Exception as e:
            res.exception("valid:exception", e, f"{T}")
    # splicing amplitudes sum to one
    if 2 * overlap <= nswin:
        if overlap == 0:
            key = "splicing:overlap0"
        elif n > 1 and (last[-1] - first[-1]) < 2 * overlap:
            key = "splicing:short-last-window"
        else:
            key = "splicing:other"
        try:
            tot = np.zeros(ns)
            sp = list(bounded(wg.firstlast_splicing, ns + 3))
            ok = len(sp) == n
            for (f, l, amp), (f0, l0) in zip(sp, fl):
                ok &= (f, l) == (f0, l0) and amp.shape == (l - f,)
                tot[f:l] += amp
            res.count("splicing_sums_checked")
            res.check(ok, key + ":shape", f"{T}: splicing windows/amp shapes disagree with firstlast")
            res.check(np.max(np.abs(tot - 1)) <= 1e-12, key,
                      f"{T}: splicing amplitudes sum to [{tot.min():.4f}, {tot.max():.4f}] (n windows {n})")
        except Exception as e:
            res.exception(key + ":exception" if key != "splicing:overlap0" else key, e, f"{T} firstlast_splicing")
    # the same laws when the generators of ONE object are consumed side by side (zip) or helpers are called inside the loop:
    # which window is first / last is a fact about the window, not about a counter shared by the generators
    if overlap % 2 == 0 and 2 * overlap <= nswin and (ns * 7 + nswin * 3 + overlap) % 5 == 0 and n <= 3000:      # (tscale inside the loop: quadratic in the window count)
        try:
            once = np.zeros(ns, int)
            tot = np.zeros(ns)
            k = 0
            for (f, l, fv, lv), (f2, l2, amp) in zip(bounded(wg.firstlast_valid, ns + 3), bounded(wg.firstlast_splicing, ns + 3)):
                wg.tscale(fs)
                once[fv:lv] += 1
                tot[f2:l2] += amp
                k += (f, l) == (f2, l2)
            res.count("interleaved_checked")
            res.check(k == n and np.all(once == 1), "valid:partition:interleaved-generators",
                      f"{T}: zip(firstlast_valid, firstlast_splicing) on one object: samples counted {np.unique(once).tolist()} times by the valid windows")
            res.check(np.max(np.abs(tot - 1)) <= 1e-12, "splicing:interleaved-generators",
                      f"{T}: zip(firstlast_valid, firstlast_splicing) on one object: amplitudes sum to [{tot.min():.4f}, {tot.max():.4f}]")
            once = np.zeros(ns, int)
            for (f, l), (f1, l1, fv, lv) in zip(bounded(wg.firstlast, ns + 3), bounded(wg.firstlast_valid, ns + 3)):
                list(bounded(wg.slice, ns + 3))
                once[fv:lv] += 1
            res.check(np.all(once == 1), "valid:partition:interleaved-generators", f"{T}: zip(firstlast, firstlast_valid) with slice inside the loop: samples counted "
                      f"{np.unique(once).tolist()} times")
        except Exception as e:
            res.exception("interleaved:exception", e, f"{T}")
    # a pass that is ABANDONED (the caller breaks out of the loop once it has found its window, or the loop body raises) leaves nothing behind: the next
    # pass over the same object starts at the first window again
    if n >= 2 and (ns + 3 * nswin + overlap) % 3 == 0:
        try:
            stop_at = 1 + (ns + nswin) % (n - 1) if n > 2 else 1
            for k_, _w in enumerate(bounded(wg.firstlast, ns + 3)):
                if k_ == stop_at:
                    break
            again = list(bounded(wg.firstlast, ns + 3))
            res.check(again == fl, "firstlast:after-abandoned-pass", f"{T}: after a pass left at window {stop_at} of {n}, the next pass gives {again[:3]}.. ({len(again)} windows), not {fl[:3]}.. ({n})",
                      counter="abandoned_passes")
            it = iter(bounded(wg.firstlast_valid, ns + 3)) if overlap % 2 == 0 else None
            if it is not None:
                next(it)
                del it
                res.check(list(bounded(wg.firstlast, ns + 3)) == fl, "firstlast:after-abandoned-pass", f"{T}: after an abandoned pass over firstlast_valid the windows differ")
        except Runaway as e:
            res.violation("firstlast:does-not-terminate", f"{T}: after an abandoned pass: {e}")
        except Exception as e:
            res.exception("abandoned:exception", e, f"{T}")
    # the answers are facts about (ns, nswin, overlap) and the arguments of the call, not about what the object was asked before: asked again
    # after everything above - with another sampling rate, after the caller edited the arrays it was handed - every answer is the same
    try:
        fs2 = 30000.27 if fs == 30000.0 else fs * 3.7 + 0.13       # sampling rates are calibrated values, rarely a whole number of Hz
        ts2 = wg.tscale(fs2)
        exp2 = (first + last - 1) / 2 / fs2
        res.check(ts2.shape == exp2.shape and np.allclose(ts2, exp2, rtol=1e-12, atol=0), "tscale:second-call-other-rate",
                  f"{T}: tscale({fs2}) after tscale({fs}) on the same object gives {ts2[:3]}, window centres are {exp2[:3]}", counter="repeat_queries_checked")
        ts2[:] = -1.0
        ts3 = wg.tscale(fs)
        exp = (first + last - 1) / 2 / fs
        res.check(ts3.shape == exp.shape and np.allclose(ts3, exp, rtol=1e-12, atol=0), "tscale:after-caller-edit",
                  f"{T}: tscale({fs}) after the caller overwrote an earlier result gives {ts3[:3]}, window centres are {exp[:3]}")
        res.check(list(bounded(wg.firstlast, ns + 3)) == fl and wg.nwin == n, "firstlast:second-pass", f"{T}: a second pass over firstlast / nwin gives a different answer")
        if 2 * overlap <= nswin:
            sp1 = list(bounded(wg.firstlast_splicing, ns + 3))
            for _, _, amp in sp1:
                amp[:] = 0
            tot = np.zeros(ns)
            for f, l, amp in bounded(wg.firstlast_splicing, ns + 3):
                tot[f:l] += amp
            res.check(np.max(np.abs(tot - 1)) <= 1e-12, "splicing:after-caller-edit",
                      f"{T}: splicing amplitudes of a second pass, after the caller zeroed those of the first, sum to [{tot.min():.4f}, {tot.max():.4f}]")
    except Exception as e:
        res.exception("repeat:exception", e, f"{T}")
    return n


def run_case(case):
    from ibldsp.utils import WindowGenerator as WG
    res = Result()
    nontriv = 0
    if case["cls"] == "huge":
        # window and stride of millions of samples (hours of recording cut into a handful of windows): the lengths sit a few samples around whole numbers
        # of strides - the arithmetic is exact in integers, there is no room for rounding.  Judged on the window list itself (no per-sample arrays).
        rng = rng_for(case)
        for _ in range(case["n"]):
            w = int(rng.integers(1_000_000, 60_000_000))
            ov = int(rng.choice([0, 2, 1024, int(rng.integers(0, w // 2))]))
            stride = w - ov
            k = int(rng.integers(1, 9))
            ns = w + k * stride + int(rng.choice([-3, -2, -1, 0, 1, 2, 3, int(rng.integers(4, 50))]))
            T = (ns, w, ov)
            try:
                wg = WG(ns, w, ov)
                fl = list(wg.firstlast)
            except Exception as e:
                res.exception("firstlast:exception", e, f"WindowGenerator{T}.firstlast")
                continue
            res.count("huge_triples")
            first = np.array([a for a, _ in fl], dtype=np.int64)
            last = np.array([b_ for _, b_ in fl], dtype=np.int64)
            n = len(fl)
            ok = n > 0 and first[0] == 0 and last[-1] == ns and np.all(last[:-1] - first[:-1] == w) and 0 < last[-1] - first[-1] <= w and np.all(first[1:] == last[:-1] - ov) and np.all(last[:-1] < ns)
            res.check(ok, "firstlast:huge", f"{T}: windows {fl[:2]}..{fl[-2:]} do not run from 0 to ns with length {w} and overlap {ov}")
            res.check(wg.nwin == n, "nwin:huge", f"{T}: nwin announced {wg.nwin}, produced {n} (last window holds {int(last[-1] - first[-1]) if n else '?'} samples)", counter="nwin_checked")
            ts = wg.tscale(30000.0)
            res.check(ts.shape == (n,) and np.allclose(ts, (first + last - 1) / 2 / 30000.0, rtol=1e-12, atol=0), "tscale:huge", f"{T}: tscale has {ts.shape} entries for {n} windows / is not the window centres")
            if n >= 2:
                nontriv += 1
        res.sig = f"huge-{case['seed']}"
    elif case["cls"] == "box":
        w = case["nswin"]
        for ns in range(1, case["nsmax"] + 1):
            for ov in range(0, w):
                if check_triple(res, ns, w, ov, WG) >= 2:
                    nontriv += 1
        res.sig = f"box-nswin{w}-nsmax{case['nsmax']}"
    else:
        rng = rng_for(case)
        for _ in range(case["n"]):
            w = int(rng.integers(2, 5000))
            ov = int(rng.integers(0, w))
            if rng.random() < 0.5:
                ov = int(rng.integers(0, w // 2 + 1))
            kind = rng.integers(0, 4)
            stride = w - ov
            if kind == 0:
                ns = int(rng.integers(1, 200000))
            elif kind == 1:   # exactly aligned
                ns = w + stride * int(rng.integers(0, 40))
            elif kind == 2:   # just past alignment -> short last window
                ns = w + stride * int(rng.integers(0, 40)) + int(rng.integers(1, max(2, min(stride, 2 * ov + 2))))
            else:             # shorter than a window
                ns = int(rng.integers(1, w + 1))
            if check_triple(res, ns, w, ov, WG) >= 2:
                nontriv += 1
        res.sig = f"rand-{case['seed']}"
    res.count("nontrivial_triples", nontriv)
    res.nontrivial = nontriv > 0
    res.nt = nontriv
    return res
