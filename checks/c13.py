"""C13 Extracted waveforms equal the source data and the saved files agree row by row.

Monitors:
  M6/M7 controlled scheduler substituted for ibldsp.waveform_extraction.Parallel: the real delayed(write_wfs_chunk)
        tasks are captured, the row sets they write (waveform_index of their table slice) are judged exactly-once, and
        the tasks are executed in identity / reverse / random orders;
  real loky runs for several worker counts and chunk sizes, outputs compared byte for byte;
  M3 file observers on waveforms.traces.npy / table.pqt / channels.npz / templates.npy judged against a source-window
        model read through the same Reader; WaveformsLoader round trip.
"""
import shutil
from pathlib import Path

import numpy as np
import pandas as pd

from vlib import gen_meta as G
from vlib.result import Result, rng_for, scratch

PROPERTY = "C13"
LEVEL = "exploration"
RULE = ("random-content NP1 / NP2.4 recordings (bin and cbin) with spike trains containing times at offset, offset+1, ns-(len-offset)-1, "
        "ns-(len-offset), chunk boundaries +-1, duplicates across units, spike #0 valid, units with 0 / <max_wf / =max_wf / >max_wf valid spikes, "
        "peak channels 0 and 383; chunk sizes {500, 1000, 3000, 10000}; worker counts 1..8; preprocess_steps=[] (only then can a waveform equal "
        "the source). Non-trivial: a unit with more than max_wf valid spikes and a spike within one window of a chunk boundary; distinct = "
        "distinct (kind, container, chunk size, workers, max_wf, seed)")
ASSUMPTIONS = ["spike times are sorted; a spike is identified by (sample, peak channel): a unit may hold two spikes on one sample (double detection)",
               "compressed inputs are always given a scratch_dir (see DESIGN.md section 5 C13 harness note)",
               "neighbourhood = sites within 200 um of the peak site in the reader's (sorted) channel order"]
REQUIRED = {"extractions_from_permuted_mixed_gain_recordings": 1, "rows_compared_with_raw_times_gain": 200, "extractions": 6, "rows_compared": 300, "row_sets_exactly_once": 3, "orders_executed": 6, "loader_checks": 3, "units_counted": 20, "scratch_histories": 2, "caller_headers_with_other_geometry": 1, "headers_announcing_fewer_samples": 1, "decompress_faults_injected": 1, "large_units_checked": 1}
CASE_TIMEOUT = 300.0
MAX_PROCS = 8
OFF, LEN = 42, 128


def gen_cases(seed, tier):
    n = 10 if tier == "quick" else 240
    cases = [{"cls": "extract", "seed": seed * 1000 + i, "chunk": [500, 1000, 3000, 10000][i % 4], "_w": 6} for i in range(n)]
    cases += [{"cls": "loky", "seed": seed * 1000 + 300 + i, "counts": ([1, 3, 8] if tier == "quick" else [1, 2, 3, 4, 5, 6, 7, 8]), "_w": 14} for i in range(2 if tier == "quick" else 10)]
    cases += [{"cls": "params", "seed": seed * 1000 + 600 + i, "_w": 4} for i in range(2 if tier == "quick" else 12)]
    cases += [{"cls": "array", "seed": seed * 1000 + 800 + i, "n": 6, "_w": 1} for i in range(4 if tier == "quick" else 60)]
    cases += [{"cls": "large-unit", "seed": seed * 1000 + 950 + i, "_w": 10} for i in range(1 if tier == "quick" else 4)]
    cases += [{"cls": "scratch-history", "seed": seed * 1000 + 900 + i, "_w": 8} for i in range(2 if tier == "quick" else 24)]
    return cases


class Scheduler:
    order = None
    captured = None

    def __init__(self, n_jobs=None, **kw):
        pass

    def __call__(self, tasks):
        tasks = list(tasks)
        Scheduler.captured = tasks
        order = list(range(len(tasks))) if Scheduler.order is None else [i for i in Scheduler.order if i < len(tasks)]
        for i in order:
            f, a, k = tasks[i]
            f(*a, **k)
        return [None] * len(tasks)




def make_input(rng, d, chunk, max_wf, kind=None, ns=None, trim=None, stale_header=None):
    kind = kind or str(rng.choice(["3B2", "NP2.4"]))
    ns = ns or int(rng.integers(12000, 30000))
    if rng.random() < 0.5:
        # the recording ends a little past a chunk boundary: the trailing sliver is shorter than one waveform, a little longer than the post-peak part
        ns = (ns // chunk) * chunk + int(rng.integers(LEN - OFF + 1, LEN + 1))
    # a fifth of the headers were last written before acquisition ended (fewer samples announced than the file holds): the recording is what the file holds
    claim = ns - int(rng.integers(300, 2500)) if ((rng.random() < 0.2) if stale_header is None else stale_header) else None
    # (round 22) NP1 recordings whose sites were saved in an order that is not the probe order, each channel with its own AP gain: the volts-per-bit
    # of exposed channel k is the one of the FILE column that holds it
    sites = G.draw_sites(rng, kind, 384, "random") if (kind == "3B2" and rng.random() < 0.8) else None
    rec = G.make(rng, kind=kind, sites=sites, ns=ns, gains=G.random_gains(rng), content="random", nsync=int(rng.choice([1, 1, 1, 0])), claim_ns=claim)      # also recordings saved without the sync channel
    rec.claim = claim
    b = G.write(rec, Path(d) / "rec")
    if rng.random() < 0.4 and claim is None:
        from vlib import np2 as _np2
        _np2.round_duration(b.with_suffix(".meta"), ns, rec.fs, rng)      # duration written with a few decimals
    lo, hi = OFF, ns - (LEN - OFF)          # valid: lo < s < hi
    nu = int(rng.integers(4, 12))
    times, clus, chans = [], [], []
    special = [lo, lo + 1, lo - 1, 0, 5, hi - 1, hi, hi + 1, ns - 1]
    for c in range(chunk, ns, chunk):
        special += [c - 1, c, c + 1, c - (LEN - OFF), c - (LEN - OFF) + 1, c + OFF, c + OFF - 1]
    special = [int(s) for s in special if 0 <= s < ns]
    for u in range(nu):
        mode = ["none", "few", "exact", "many", "many", "few"][u % 6]
        if mode == "none":
            t = np.array([int(rng.integers(0, lo + 1)), int(rng.integers(hi, ns))])      # only invalid spikes
        else:
            k = {"few": int(rng.integers(1, max_wf)) if max_wf > 1 else 1, "exact": max_wf, "many": max_wf + int(rng.integers(1, 3 * max_wf + 2))}[mode]
            t = rng.choice(np.arange(lo + 1, hi), k, replace=False)
            t = np.r_[t, rng.integers(0, lo + 1, int(rng.integers(0, 3))), rng.integers(hi, ns, int(rng.integers(0, 3)))]      # + some invalid
        # (a unit of mode "none" - the one with the LOWEST id is one - keeps no extractable spike: only the special times that are not valid)
        pool = special if mode != "none" else ([s_ for s_ in special if not (lo < s_ < hi)] or [0])
        t = np.unique(np.r_[t, rng.choice(pool, int(rng.integers(2, 8)))].astype(np.int64))
        if mode == "few":       # spikes exactly ON the margins are not 'farther than the margins': they must not be counted nor extracted
            t = np.unique(np.r_[t, lo, hi, hi - 1, hi - int(rng.integers(2, 40)), lo + 1])      # ... the very first and the very last valid samples are
        pk = rng.integers(0, rec.n, t.size)
        pk[rng.random(t.size) < 0.15] = rng.choice([0, rec.n - 1])
        if u % 3 == 1 and t.size >= 2:
            # double detections: two spikes of ONE unit on the same sample, on different peak channels - two spikes, two rows
            dup = rng.choice(t.size, int(rng.integers(1, 3)), replace=False)
            t = np.r_[t, t[dup]]
            pk = np.r_[pk, (pk[dup] + 1 + rng.integers(0, 5, dup.size)) % rec.n]
            o2 = np.argsort(t, kind="stable")
            t, pk = t[o2], pk[o2]
        times.append(t)
        clus.append(np.full(t.size, 3 + 2 * u))
        chans.append(pk)
    times, clus, chans = np.concatenate(times), np.concatenate(clus), np.concatenate(chans)
    # spike #0 of the sorted train is a VALID spike (the very first spike of the session can be a good one)
    o = np.argsort(times, kind="stable")
    times, clus, chans = times[o], clus[o], chans[o]
    # (trim=False keeps the spikes lying exactly ON the first margin, which necessarily precede every valid spike)
    if (rng.random() < 0.7) if trim is None else trim:
        first_valid = int(np.flatnonzero((times > lo) & (times < hi))[0])
        times, clus, chans = times[first_valid:], clus[first_valid:], chans[first_valid:]
    return b, rec, times, clus, chans


def neighbours(h, radius=200.0):
    xy = h["x"] + 1j * h["y"]
    D = np.abs(xy[:, None] - xy[None, :])
    nb = [np.flatnonzero(D[c] <= radius) for c in range(xy.size)]
    width = max(len(v) for v in nb)
    return nb, width


def judge_output(res, out, sr, rec, times, clus, chans, max_wf, label, off=OFF, length=LEN, h=None, sort=True):
    """saved files vs the source-window model (neighbourhoods from the header the caller handed in, else from the recording's own geometry)"""
    ns, nc = rec.ns, rec.n          # (the length of the FILE, from the generator - not what a reader makes of the header)
    tr = np.load(out / "waveforms.traces.npy", mmap_mode="r")
    table = pd.read_parquet(out / "waveforms.table.pqt").reset_index(drop=True)
    chmap = np.load(out / "waveforms.channels.npz")["channels"]
    tmpl = np.load(out / "waveforms.templates.npy")
    h = h if h is not None else sr.geometry
    nb, width = neighbours(h)
    nw = len(table)
    res.check(tr.shape[0] == nw == chmap.shape[0], "files:row-count", f"{label}: traces {tr.shape[0]}, table {nw}, channels {chmap.shape[0]} rows")
    res.check(tr.shape[1:] == (width, length), "files:trace-shape", f"{label}: traces shape {tr.shape}, expected (*, {width}, {length})")
    res.check(np.array_equal(table["waveform_index"].to_numpy(), np.arange(nw)), "table:waveform_index", f"{label}: saved table's waveform_index is not 0..n-1 in row order")
    valid = (times > off) & (times < ns - (length - off))
    # ---- per unit counts and distinctness
    units = np.unique(clus)
    for u in units:
        nv = int(np.sum(valid & (clus == u)))
        rows = table[table["cluster"] == u]
        want = min(max_wf, nv)
        res.count("units_counted")
        if len(rows) != want:
            first_is_u = bool(valid[0] and clus[0] == u)
            key = "table:unit-count:spike-index-0-dropped" if (first_is_u and len(rows) == want - 1) else "table:unit-count"
            res.violation(key, f"{label}: unit {u} has {nv} valid spikes, max_wf={max_wf}: {len(rows)} waveforms saved, expected {want}")
        res.count("oracle_evaluations")
        res.check(not rows.duplicated(subset=["sample", "peak_channel"]).any(), "table:duplicate-spike", f"{label}: unit {u}: the same spike extracted twice")
        ok_members = np.isin(rows["sample"].to_numpy(), times[valid & (clus == u)])
        res.check(ok_members.all(), "table:spike-not-valid", f"{label}: unit {u}: a saved row is not one of the unit's valid spikes")
    # rows are grouped by cluster in ascending order, time-ordered within
    res.check(table["cluster"].is_monotonic_increasing, "table:cluster-order", f"{label}: rows not grouped by ascending cluster")
    # ---- row by row against the source
    idx = np.arange(nw) if nw <= 400 else np.unique(np.r_[0, nw - 1, np.random.default_rng(nw).choice(nw, 400, replace=False)])
    nbad = nbad_own = 0
    own_order = None
    if getattr(rec, "order", None) is not None and getattr(rec, "s2v", None) is not None and getattr(rec, "raw", None) is not None and rec.raw.shape[0] == ns:
        own_order = np.asarray(rec.order, int) if sort else np.arange(nc)      # (the order the CALLER asked the reader for)
        if sort and not np.array_equal(own_order, np.arange(nc)) and len(np.unique(rec.s2v[:nc])) > 1:
            res.count("extractions_from_permuted_mixed_gain_recordings")
    for i in idx:
        s, pk = int(table["sample"][i]), int(table["peak_channel"][i])
        want_ch = np.full(width, nc)
        want_ch[: len(nb[pk])] = nb[pk]
        res.count("rows_compared")
        if not np.array_equal(chmap[i], want_ch):
            res.violation("channels:row", f"{label}: row {i} (peak {pk}): channel map {chmap[i][:6]}.. expected {want_ch[:6]}.. (ascending sites within 200 um, padded with {nc})")
            continue
        src = sr[s - off:s - off + length, :nc]          # (length, nc) volts, float32
        exp = np.full((width, length), np.nan, np.float32)
        real = want_ch < nc
        exp[real] = src[:, want_ch[real]].T
        got = np.asarray(tr[i])
        # ... and against the source as the HARNESS reads it (round 22): raw samples of the generator x the volts-per-bit of the generator, in the channel
        # order the reader exposes - the reader is the route the extraction itself takes, a wrong calibration there moves both sides of the comparison above
        if got.shape == exp.shape and own_order is not None:
            own = rec.raw[s - off:s - off + length][:, own_order[want_ch[real]]].astype(np.float64).T * rec.s2v[own_order[want_ch[real]]][:, None]
            res.count("rows_compared_with_raw_times_gain")
            if np.any(np.abs(got[real].astype(np.float64) - own) > 2.0 ** -22 * np.abs(own)):
                nbad_own += 1
                if nbad_own <= 2:
                    res.violation("traces:row-differs-from-raw-times-gain", f"{label}: row {i} (sample {s}, peak {pk}): the saved traces are not the raw samples of the "
                                  f"window times each channel's volts-per-bit ({int(np.sum(np.abs(got[real].astype(np.float64) - own) > 2.0 ** -22 * np.abs(own)))} values)")
        if got.shape != exp.shape or not np.array_equal(got, exp, equal_nan=True):
            nbad += 1
            if nbad <= 3:
                where = "shape" if got.shape != exp.shape else f"{int(np.sum(~((got == exp) | (np.isnan(got) & np.isnan(exp)))))} values"
                res.violation("traces:row-differs-from-source", f"{label}: row {i} (sample {s}, peak {pk}, cluster {table['cluster'][i]}) differs from the source window [{s - off}, {s - off + length}): {where}")
    # ---- templates: row j = nanmedian over the rows of the j-th cluster having waveforms
    cl_with = [u for u in units if np.any(table["cluster"] == u)]
    res.check(tmpl.shape == (len(units), width, length), "templates:shape", f"{label}: templates shape {tmpl.shape}, expected ({len(units)}, {width}, {length})")
    import warnings
    with warnings.catch_warnings():
        warnings.simplefilter("ignore")
        for j, u in enumerate(cl_with):
            rows = np.flatnonzero(table["cluster"].to_numpy() == u)
            exp = np.nanmedian(np.asarray(tr[rows[0]:rows[-1] + 1]), axis=0)
            res.check(np.array_equal(tmpl[j], exp, equal_nan=True), "templates:row", f"{label}: template {j} is not the median of cluster {u}'s waveforms")
        res.check(np.all(np.isnan(tmpl[len(cl_with):])), "templates:extra-rows", f"{label}: template rows beyond the clusters with waveforms are not NaN")
    return table


def loader_checks(res, WE, out, table, label):
    ld = WE.WaveformsLoader(out)
    tr = np.load(out / "waveforms.traces.npy")
    chmap = np.load(out / "waveforms.channels.npz")["channels"]
    wfs, info, ch = ld.load_waveforms()
    res.count("loader_checks")
    # a loader is re-usable: the same request a second time, and after other requests, returns the same arrays
    wfs_b, info_b, ch_b = ld.load_waveforms()
    res.check(np.array_equal(wfs_b, wfs, equal_nan=True) and np.array_equal(ch_b, ch) and info_b.equals(info), "loader:repeat-call", f"{label}: a second load_waveforms() differs from the first")
    res.check(np.array_equal(wfs, tr, equal_nan=True) and np.array_equal(ch, chmap) and len(info) == len(table), "loader:all", f"{label}: load_waveforms() does not return what was saved")
    units = np.unique(table["cluster"])
    if units.size:
        pick = units[:: max(1, units.size // 3)][:3]
        wfs, info, ch = ld.load_waveforms(labels=pick)
        rows = np.flatnonzero(np.isin(table["cluster"].to_numpy(), pick))
        ok = np.array_equal(wfs, tr[rows], equal_nan=True) and np.array_equal(ch, chmap[rows]) and np.array_equal(info["sample"].to_numpy(), table["sample"].to_numpy()[rows])
        res.check(ok, "loader:by-label", f"{label}: load_waveforms(labels={pick.tolist()}) rows differ from the saved rows of those clusters")
        wfs, info, ch = ld.load_waveforms(labels=pick, indices=[0, 2])
        sel = np.flatnonzero(np.isin(table["cluster"].to_numpy(), pick) & np.isin(table["index_within_clusters"].to_numpy(), [0, 2]))
        ok = np.array_equal(wfs, tr[sel], equal_nan=True) and np.array_equal(info["waveform_index"].to_numpy(), sel)
        res.check(ok, "loader:by-index", f"{label}: load_waveforms(labels, indices=[0,2]) returns rows {info['waveform_index'].to_numpy()[:6]} expected {sel[:6]}")
        # index within cluster counts from 0 in time order
        for u in pick:
            iw = table["index_within_clusters"].to_numpy()[table["cluster"].to_numpy() == u]
            res.check(np.array_equal(iw, np.arange(iw.size)), "table:index_within_clusters", f"{label}: cluster {u}: index_within_clusters {iw[:6]}")


def file_bytes(out):
    return {f: (out / f).read_bytes() for f in ("waveforms.traces.npy", "waveforms.templates.npy")} | \
        {"table": pd.read_parquet(out / "waveforms.table.pqt").to_json(), "channels": np.load(out / "waveforms.channels.npz")["channels"].tobytes()}


def run_case(case):
    import ibldsp.waveform_extraction as WE
    import spikeglx
    res = Result()
    rng = rng_for(case)
    d = scratch()
    cls = case["cls"]
    orig = WE.Parallel
    try:
        if cls == "extract":
            chunk = case["chunk"]
            max_wf = int(rng.choice([1, 4, 16, 64]))
            ordinal = case["seed"] % 1000
            b, rec, times, clus, chans = make_input(rng, d, chunk, max_wf, trim=ordinal % 3 != 1,      # every third extraction keeps the spikes ON the first margin
                                                    stale_header=ordinal % 5 == 2)                      # every fifth reads a flat file whose header announces fewer samples
            use_c = bool(rng.integers(0, 2)) and rec.claim is None
            if use_c:
                sr0 = spikeglx.Reader(b)
                sr0.compress_file(keep_original=False)
                sr0.close()
                b = b.with_suffix(".cbin")
            # the recording is read the way the caller asks (reader_kwargs): sorted (default) or in on-disk channel order; an explicit header is the reader's own
            rk = [None, {"sort": False}, {"sort": True}, {"sort": False}][int(rng.integers(0, 4))]
            sort_flag = True if rk is None else rk["sort"]
            give_h = bool(rng.integers(0, 2)) or ordinal % 4 == 0
            if rec.claim is not None:
                res.count("headers_announcing_fewer_samples")
            label = (f"{rec.kind} nsync={rec.nsync} {'cbin' if use_c else 'bin'}{'' if rec.claim is None else f' (header announces {rec.claim} samples)'} ns={rec.ns} chunk={chunk} max_wf={max_wf} spikes={times.size} (spike#0 at {times[0]}) reader_kwargs={rk}"
                     + (" h=given" if give_h else ""))
            xkw = {} if rk is None else {"reader_kwargs": dict(rk)}
            h_other = None
            if give_h:
                srh = spikeglx.Reader(b, sort=sort_flag)
                xkw["h"] = {k: np.array(v) for k, v in srh.geometry.items()}
                srh.close()
                if rng.random() < 0.5 or ordinal % 4 == 0:
                    # the caller's header describes the sites better than the file's metadata does (another probe generation's pitch: 15 um rows):
                    # the neighbourhoods are those of the header handed in
                    xkw["h"]["y"] = xkw["h"]["y"] * 0.75
                    h_other = xkw["h"]
                    label += " (row pitch x0.75)"
                    res.count("caller_headers_with_other_geometry")
            if not sort_flag:
                res.count("unsorted_reader_extractions")
            xseed = 0 if case["seed"] % 1000 == 1 else case["seed"]      # one extraction per run uses seed 0 (a seed like any other)
            WE.Parallel = Scheduler
            outs = []
            nchunks = len(np.arange(0, rec.ns, chunk))
            orders = [None, list(range(nchunks))[::-1], rng.permutation(nchunks).tolist()]
            for oi, order in enumerate(orders):
                out = d / f"out{oi}"
                out.mkdir()
                Scheduler.order, Scheduler.captured = order, None
                before_meta = b.with_suffix(".meta").read_bytes()
                try:
                    WE.extract_wfs_cbin(b, out, times, clus, chans, max_wf=max_wf, chunksize_samples=chunk, n_jobs=int(rng.integers(1, 9)), preprocess_steps=[],
                                        seed=xseed, scratch_dir=(d / f"scr{oi}") if use_c else None, **xkw)
                except Exception as e:
                    res.exception("extract:exception", e, f"{label} order {order}")
                    continue
                res.count("orders_executed")
                res.check(b.exists() and b.with_suffix(".meta").read_bytes() == before_meta, "extract:input-touched", f"{label}: the input recording / its metadata were modified")
                # exactly-once over the captured tasks
                if oi == 0 and Scheduler.captured is not None:
                    rows = np.concatenate([np.asarray(t[1][6]["waveform_index"].to_numpy()) for t in Scheduler.captured]) if Scheduler.captured else np.array([])
                    nw = np.load(out / "waveforms.traces.npy", mmap_mode="r").shape[0]
                    cnt = np.bincount(rows.astype(int), minlength=nw)
                    res.check(cnt.size == nw and np.all(cnt == 1), "rowset:not-exactly-once", f"{label}: rows written {np.flatnonzero(cnt != 1)[:6].tolist()} times != 1 "
                              f"(of {nw} rows; {len(Scheduler.captured)} tasks)", counter="row_sets_exactly_once")
                    for t in Scheduler.captured:          # each task owns the spikes of its own chunk only
                        s0, s1 = t[1][7]
                        smp = t[1][6]["sample"].to_numpy()
                        res.check(np.all((smp >= s0) & (smp < s1)), "rowset:spike-outside-chunk", f"{label}: a task for chunk [{s0},{s1}) holds spikes at {smp[(smp < s0) | (smp >= s1)][:4]}")
                outs.append(out)
            if outs:
                sr = spikeglx.Reader(b, sort=sort_flag)
                res.count("extractions")
                table = judge_output(res, outs[0], sr, rec, times, clus, chans, max_wf, label, h=h_other, sort=sort_flag)
                try:
                    loader_checks(res, WE, outs[0], table, label)
                except Exception as e:
                    res.exception("loader:exception", e, label)
                sr.close()
                ref = file_bytes(outs[0])
                for oi, out in enumerate(outs[1:], 1):
                    cur = file_bytes(out)
                    diff = [k for k in ref if ref[k] != cur[k]]
                    res.check(not diff, "order:output-depends-on-schedule", f"{label}: executing the chunk tasks in order {orders[oi]} changes {diff}")
                # other chunk size, same seed -> same files
                out = d / "out_chunk"
                out.mkdir()
                Scheduler.order = None
                other = int(rng.choice([c for c in (500, 1000, 3000, 10000) if c != chunk]))
                try:
                    WE.extract_wfs_cbin(b, out, times, clus, chans, max_wf=max_wf, chunksize_samples=other, n_jobs=1, preprocess_steps=[], seed=xseed,
                                        scratch_dir=(d / "scrc") if use_c else None, **xkw)
                    cur = file_bytes(out)
                    diff = [k for k in ref if ref[k] != cur[k]]
                    res.check(not diff, "chunk-size-dependence", f"{label}: chunk size {other} instead of {chunk} changes {diff}")
                except Exception as e:
                    res.exception("extract:exception", e, f"{label} chunk={other}")
            res.sig = f"extract-{rec.kind}-{use_c}-{chunk}-{max_wf}-{case['seed']}"
            res.nontrivial = bool(np.any(np.bincount(((clus - 3) // 2)[(times > OFF) & (times < rec.ns - (LEN - OFF))]) > max_wf))
        elif cls == "large-unit":
            # a unit with more waveforms than a 16-bit counter holds (a multi-unit cluster of a long session, a generous max_wf): its rows are numbered
            # 0..n-1 within the unit like those of any other, and every one of them can be asked for by that number (round 19)
            kind = ("3B2", "NP2.4")[case["seed"] % 2]
            ns = int(rng.integers(33300, 34600))
            rec = G.make(rng, kind=kind, sites=G.draw_sites(rng, kind, 6, "dense"), ns=ns, gains=G.random_gains(rng), content="random", nsync=1)
            rec.claim = None
            b = G.write(rec, Path(d) / "rec")
            lo, hi = OFF, ns - (LEN - OFF)
            t_big = np.arange(lo + 1, hi)
            t_small = np.sort(rng.choice(np.arange(lo + 1, hi), 40, replace=False))
            times = np.r_[t_big, t_small]
            clus = np.r_[np.full(t_big.size, 7), np.full(t_small.size, 3)]
            chans = rng.integers(0, rec.n, times.size)
            o = np.argsort(times, kind="stable")
            times, clus, chans = times[o], clus[o], chans[o]
            max_wf = 40000
            chunk = int(rng.choice([3000, 10000]))
            label = f"large unit: {kind} 6 sites ns={ns} chunk={chunk} max_wf={max_wf}, unit 7 has {t_big.size} valid spikes"
            out = d / "out"
            out.mkdir()
            try:
                WE.extract_wfs_cbin(b, out, times, clus, chans, max_wf=max_wf, chunksize_samples=chunk, n_jobs=int(rng.integers(1, 4)), preprocess_steps=[], seed=case["seed"])
                res.count("extractions")
                sr = spikeglx.Reader(b)
                table = judge_output(res, out, sr, rec, times, clus, chans, max_wf, label)
                sr.close()
                iw = table["index_within_clusters"].to_numpy()[table["cluster"].to_numpy() == 7]
                res.check(iw.size == t_big.size and np.array_equal(iw, np.arange(iw.size)), "table:index_within_clusters:large-unit",
                          f"{label}: index_within_clusters of unit 7 is not 0..{t_big.size - 1} (first departure at row {int(np.argmax(iw != np.arange(iw.size))) if iw.size else '?'}: "
                          f"{iw[int(np.argmax(iw != np.arange(iw.size)))] if iw.size else '?'})", counter="large_units_checked")
                ld = WE.WaveformsLoader(out)
                tr = np.load(out / "waveforms.traces.npy", mmap_mode="r")
                rows7 = np.flatnonzero(table["cluster"].to_numpy() == 7)
                for want_i in (0, 255, 32767, 32768, 33000, t_big.size - 1):
                    wfs, info, ch = ld.load_waveforms(labels=[7], indices=[want_i])
                    okl = wfs.shape[0] == 1 and np.array_equal(wfs[0], np.asarray(tr[rows7[want_i]]), equal_nan=True)
                    res.check(okl, "loader:by-index:large-unit", f"{label}: load_waveforms(labels=[7], indices=[{want_i}]) returns {wfs.shape[0]} waveforms" + ("" if wfs.shape[0] != 1 else " (not the saved row)"))
            except Exception as e:
                res.exception("extract:exception:large-unit", e, label)
            res.sig = f"large-unit-{case['seed']}"
            res.nontrivial = True
        elif cls == "loky":
            chunk = int(rng.choice([500, 1000, 3000]))
            max_wf = int(rng.choice([4, 16]))
            b, rec, times, clus, chans = make_input(rng, d, chunk, max_wf, ns=int(rng.integers(12000, 20000)))
            label = f"loky {rec.kind} ns={rec.ns} chunk={chunk} max_wf={max_wf}"
            ref = None
            for nw in case["counts"]:
                out = d / f"w{nw}"
                out.mkdir()
                try:
                    WE.extract_wfs_cbin(b, out, times, clus, chans, max_wf=max_wf, chunksize_samples=chunk, n_jobs=nw, preprocess_steps=[], seed=case["seed"])
                    res.count("orders_executed")
                    cur = file_bytes(out)
                    if ref is None:
                        ref = cur
                        sr = spikeglx.Reader(b)
                        res.count("extractions")
                        judge_output(res, out, sr, rec, times, clus, chans, max_wf, label + f" workers={nw}")
                        sr.close()
                    else:
                        diff = [k for k in ref if ref[k] != cur[k]]
                        res.check(not diff, "loky:worker-count-dependence", f"{label}: {nw} workers change {diff} w.r.t. {case['counts'][0]} worker(s)")
                except Exception as e:
                    res.exception("loky:exception", e, f"{label} workers={nw}")
            res.sig = f"loky-{case['seed']}"
            res.nontrivial = True
        elif cls == "scratch-history":
            # a compressed recording is extracted through a scratch folder that has a HISTORY: (a) an earlier extraction of the same recording died while
            # decompressing (failpoint on mtscomp's chunk decoder, after some chunks were written), (b) the folder was used before for another
            # recording with the same file name (other session, other length / gains) that ran to completion.  The extraction that follows is judged
            # like any other, and equals the one through a fresh scratch folder byte for byte.
            import mtscomp
            chunk = int(rng.choice([1000, 3000]))
            max_wf = int(rng.choice([4, 16]))
            b, rec, times, clus, chans = make_input(rng, d, chunk, max_wf, ns=int(rng.integers(14000, 24000)))
            sr0 = spikeglx.Reader(b)
            sr0.compress_file(keep_original=False, chunk_duration=0.05)
            sr0.close()
            b = b.with_suffix(".cbin")
            nchunks = int(np.ceil(rec.ns / round(0.05 * rec.fs)))
            mode = ("interrupted", "other-recording")[case["seed"] % 2]
            scr = d / "scratch"
            label = f"{rec.kind} cbin ns={rec.ns} ({nchunks} compressed chunks) chunk={chunk} max_wf={max_wf} scratch history={mode}"
            WE.Parallel = Scheduler
            Scheduler.order = None
            kwx = dict(max_wf=max_wf, chunksize_samples=chunk, n_jobs=1, preprocess_steps=[], seed=case["seed"])
            if mode == "interrupted":
                kf = int(rng.integers(max(1, nchunks // 3), nchunks))
                orig_dc = mtscomp.Reader._decompress_chunk

                def dc(self, chunk_idx, _k=kf):
                    if chunk_idx >= _k:
                        res.count("decompress_faults_injected")
                        raise OSError(f"injected failure while decompressing chunk {chunk_idx}")
                    return orig_dc(self, chunk_idx)
                mtscomp.Reader._decompress_chunk = dc
                out0 = d / "out_died"
                out0.mkdir()
                try:
                    WE.extract_wfs_cbin(b, out0, times, clus, chans, scratch_dir=scr, **kwx)
                    res.violation("scratch-history:fault-swallowed", f"{label}: the extraction returned although decompression failed at chunk {kf}")
                except OSError:
                    pass
                except Exception as e:
                    res.exception("scratch-history:exception", e, f"{label} (interrupted run)")
                finally:
                    mtscomp.Reader._decompress_chunk = orig_dc
                label += f" (first run died at compressed chunk {kf}; scratch then holds {sorted(p.name for p in scr.iterdir()) if scr.exists() else []})"
            else:
                d2 = d / "other"
                b2, rec2, t2, c2, ch2 = make_input(rng, d2, chunk, max_wf, kind=rec.kind, ns=int(rng.integers(9000, 13000)))
                sr0 = spikeglx.Reader(b2)
                sr0.compress_file(keep_original=False)
                sr0.close()
                out0 = d / "out_other"
                out0.mkdir()
                try:
                    WE.extract_wfs_cbin(b2.with_suffix(".cbin"), out0, t2, c2, ch2, scratch_dir=scr, **kwx)
                except Exception as e:
                    res.exception("scratch-history:exception", e, f"{label} (earlier recording)")
                label += f" (scratch then holds {sorted(p.name for p in scr.iterdir()) if scr.exists() else []})"
            outs = []
            for tag, sdir in (("history", scr), ("fresh", d / "scratch_fresh")):
                out = d / f"out_{tag}"
                out.mkdir()
                try:
                    WE.extract_wfs_cbin(b, out, times, clus, chans, scratch_dir=sdir, **kwx)
                    outs.append(out)
                    res.count("orders_executed")
                except Exception as e:
                    res.exception("scratch-history:exception", e, f"{label} ({tag} scratch)")
            if len(outs) == 2:
                sr = spikeglx.Reader(b)
                res.count("extractions")
                res.count("scratch_histories")
                r2 = Result()
                table = judge_output(r2, outs[0], sr, rec, times, clus, chans, max_wf, label)
                try:
                    loader_checks(r2, WE, outs[0], table, label)
                except Exception as e:
                    r2.exception("loader:exception", e, label)
                sr.close()
                for v in r2.violations:
                    res.violation("scratch-history:" + v["key"], v["msg"])
                for k, v in r2.observed.items():
                    res.count(k, v) if not k.startswith(("max:", "min:")) else None
                ref, cur = file_bytes(outs[1]), file_bytes(outs[0])
                diff = [k for k in ref if ref[k] != cur[k]]
                res.check(not diff, "scratch-history:output-depends-on-scratch-history", f"{label}: {diff} differ from the extraction through a fresh scratch folder")
            res.sig = f"scratch-history-{mode}-{case['seed']}"
            res.nontrivial = True
        elif cls == "params":
            # window given by the caller: from sample-offset to sample-offset+length
            off, length = int(rng.choice([20, 30, 42, 60])), int(rng.choice([64, 90, 128, 150]))
            if off == 42 and length == 128:
                off = 30
            chunk = int(rng.choice([1000, 3000]))
            max_wf = 8
            b, rec, times, clus, chans = make_input(rng, d, chunk, max_wf, ns=int(rng.integers(12000, 18000)))
            keep = (times > max(off, OFF) + 2) & (times < rec.ns - max(length - off, LEN - OFF) - 2)
            times, clus, chans = times[keep], clus[keep], chans[keep]
            label = f"{rec.kind} trough_offset={off} spike_length_samples={length} chunk={chunk}"
            WE.Parallel = Scheduler
            Scheduler.order = None
            out = d / "out"
            out.mkdir()
            try:
                WE.extract_wfs_cbin(b, out, times, clus, chans, max_wf=max_wf, chunksize_samples=chunk, n_jobs=1, preprocess_steps=[], seed=case["seed"],
                                    trough_offset=off, spike_length_samples=length)
                sr = spikeglx.Reader(b)
                res.count("extractions")
                r2 = Result()
                judge_output(r2, out, sr, rec, times, clus, chans, max_wf, label, off=off, length=length)
                sr.close()
                for v in r2.violations:
                    res.violation("window-parameters-ignored:" + v["key"], v["msg"])
                for k, v in r2.observed.items():
                    res.count(k, v) if not k.startswith(("max:", "min:")) else None
            except Exception as e:
                res.exception("window-parameters-ignored:exception", e, label)
            res.sig = f"params-{off}-{length}-{case['seed']}"
            res.nontrivial = True
        elif cls == "array":
            # extract_wfs_array + make_channel_index directly: radii, geometries, padding
            import ibldsp.utils as U
            from vlib import gen_signal as GS
            for _ in range(case["n"]):
                kind = str(rng.choice(["3B2", "NP2.1", "NP2.4"]))
                h = GS.header(kind)
                radius = float(rng.choice([20.0, 40.0, 75.0, 200.0, 330.0]))
                geom = np.c_[h["x"], h["y"]]
                ci = U.make_channel_index(geom, radius=radius)
                xy = h["x"] + 1j * h["y"]
                D = np.abs(xy[:, None] - xy[None, :])
                nc = 384
                ok = True
                for c in (0, 1, 190, 382, 383, int(rng.integers(0, 384))):
                    want = np.flatnonzero(D[c] <= radius)
                    row = ci[c]
                    ok &= np.array_equal(row[: want.size], want) and np.all(row[want.size:] == nc)
                res.check(ok and ci.shape[0] == nc and ci.shape[1] == max(int(np.sum(D[c] <= radius)) for c in range(nc)), "channel_index", f"{kind} radius {radius}: neighbour table wrong")
                ns = int(rng.integers(400, 2000))
                dtn = str(rng.choice(["float32", "float32", "float64", "int16", "int32"]))      # raw counts are a legitimate source array too
                arr = rng.standard_normal((nc, ns)).astype(np.float32) if dtn.startswith("float") else rng.integers(-3000, 3000, (nc, ns))
                arr = arr.astype(dtn)
                k = int(rng.integers(3, 30))
                off, length = int(rng.choice([42, 20, 60])), int(rng.choice([128, 64, 90]))
                smp = np.sort(rng.integers(off, ns - (length - off) - 1, k))
                pk = rng.integers(0, nc, k)
                pk[:2] = (0, nc - 1)                   # both probe ends: rows of the neighbour table that are padded
                df = pd.DataFrame({"sample": smp, "peak_channel": pk})
                try:
                    wfs, cind, to = WE.extract_wfs_array(arr.copy(), df, ci, trough_offset=off, spike_length_samples=length, add_nan_trace=True)
                    good = wfs.shape == (k, ci.shape[1], length)
                    for i in range(k):
                        exp = np.full((ci.shape[1], length), np.nan, np.float64)
                        real = ci[pk[i]] < nc
                        exp[real] = arr[ci[pk[i]][real], smp[i] - off: smp[i] - off + length]
                        good &= np.array_equal(np.asarray(wfs[i], np.float64), exp, equal_nan=True)
                    npad = int(np.sum(ci[pk] == nc))
                    res.check(good, "extract_wfs_array" + ("" if dtn == "float32" else ":source-dtype"), f"{kind} radius {radius} off={off} len={length} source dtype {dtn}: stack "
                              f"(dtype {wfs.dtype}, {npad} padded rows expected NaN) differs from the source windows", counter="rows_compared")
                    res.count("padded_rows_checked", npad)
                    res.count("rows_compared", k)
                except Exception as e:
                    res.exception("extract_wfs_array:exception", e, f"{kind} radius {radius}")
            res.sig = f"array-{case['seed']}"
            res.nontrivial = True
    finally:
        WE.Parallel = orig
    return res
