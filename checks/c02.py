"""C02 Compression is transparent, lossless and atomically published.

Monitors:
  M4 audit-hook file-event log around Reader.compress_file / decompress_file / decompress_to_scratch, with an
     *invariant at the hook*: at the instant a source file is about to be unlinked, its replacement carrying the
     final name must exist and be complete;
  M3 directory snapshots (name, size, SHA-1) before / after each call;
  M5 named failpoints on mtscomp.Writer._compress_chunk / mtscomp.Reader._decompress_chunk, keyed by the chunk
     index argument (mtscomp maps chunks over a thread pool), one run per chunk;
  twin-reader comparison (bin vs cbin) over selectors aimed at chunk seams.
"""
import shutil
from pathlib import Path

import numpy as np

from vlib import gen_meta as G
from vlib import monitors as M
from vlib import selectors as S
from vlib.result import Result, rng_for, scratch

PROPERTY = "C02"
LEVEL = "fault_enumeration"
RULE = ("generated recordings (2..385 channels with metadata, 1..3 channels as flat binaries; sample counts not multiples of the compression "
        "chunk; random int16 content) compressed with 3..40 chunks. Fault space: a failure injected at EVERY chunk index of every file, once "
        "in compress_file (keep_original in {T,F}) and once in decompress_to_scratch (scratch dir / in place); a chunk silently damaged while written (first / middle / last chunk). Histories: in-place compress "
        "then in-place decompress under the file-event log. Entry paths: {bin, cbin, meta} x companions present. Twin readers on selectors "
        "within +-2 of every seam. Non-trivial: >= 3 chunks, last chunk shorter, random content; distinct = distinct (nc, ns, chunk, "
        "operation, failing chunk)")
ASSUMPTIONS = ["os-level events issued through Python are all seen by the audit hook; power-loss reordering of unsynced writes is not modelled",
               "'complete' = the file decompresses (with its .ch) to / equals the source bytes",
               "a failure is an exception raised while one chunk is being (de)compressed"]
REQUIRED = {"compress_faults_injected": 20, "decompress_faults_injected": 20, "remove_events_judged": 4, "stale_bin_runs": 9, "twin_sync_selectors": 50, "twin_selectors": 200, "twin_end_selectors": 40,
            "roundtrips": 4, "entry_paths": 8, "twin_inconsistent_metadata": 3, "explicit_companions": 4, "silent_write_faults_injected": 20, "same_base_name_entries": 12, "noncanonical_entries": 18, "scratch_copies": 5, "odd_names": 3, "partial_uuid_entries": 8, "two_band_scratch_copies": 4}
CASE_TIMEOUT = 200.0


def gen_cases(seed, tier):
    n = 40 if tier == "quick" else 1500
    cases = [{"cls": "faults", "seed": seed * 1000 + i, "_w": 3} for i in range(n)]
    cases += [{"cls": "twin", "seed": seed * 1000 + i, "pairs": 60 if tier == "quick" else 150, "_w": 2} for i in range(n)]
    cases += [{"cls": "inplace", "seed": seed * 1000 + i, "_w": 1} for i in range(n)]
    cases += [{"cls": "entry", "seed": seed * 1000 + i, "_w": 1} for i in range(max(4, n // 2))]
    return cases


def make_file(rng, d, small=False, mismatch=False):
    """returns (bin path, raw, reader kwargs, chunk_duration, label)
    mismatch: the metadata announces another sample count than the file holds (interrupted / growing acquisition, chopped copy)"""
    flat = rng.random() < 0.2 and not mismatch
    ns = int(rng.integers(200, 900 if small else 3000))
    if flat:
        nc = int(rng.integers(1, 4))
        if rng.random() < 0.5:
            # sizes that the reader's "is this a 384 / 385 channel Neuropixel file?" heuristic for metadata-less files responds to
            ns = int(rng.choice([384, 385])) * int(rng.integers(1, 3 if small else 8))
        raw = rng.integers(-32768, 32768, (ns, nc), dtype=np.int64).astype(np.int16)
        Path(d).mkdir(parents=True, exist_ok=True)
        b = Path(d) / "flat.bin"
        raw.tofile(b)
        kw = dict(nc=nc, ns=ns, fs=30000, nsync=0)
        fs = 30000.0
        label = f"flat nc={nc} ns={ns}"
    else:
        kind = str(rng.choice(G.KINDS))
        n = int(rng.choice([1, 4, 31, 100, 384, 384]))
        claim = None
        if mismatch:
            claim = max(1, ns + int(rng.choice([-1, 1])) * int(rng.choice([1, 2, 17, 150, 5000])))
        rec = G.make(rng, kind=kind, sites=G.draw_sites(rng, kind, n, "dense"), ns=ns, gains=G.random_gains(rng), claim_ns=claim)
        b = G.write(rec, d)
        raw = rec.raw
        kw = dict(sort=bool(rng.integers(0, 2)))
        fs = rec.fs
        label = f"{kind} nc={rec.nc} ns={ns}"
        if mismatch:
            kw["ignore_warnings"] = bool(rng.integers(0, 2))
            label += f" (metadata announces {claim} samples, ignore_warnings={kw['ignore_warnings']})"
    nchunks = int(rng.integers(3, 12 if small else 41))
    per = max(2, ns // nchunks + 1)
    if ns % per == 0:
        per += 1
    cd = per / fs
    return b, raw, kw, cd, label + f" chunk={per}"


def cbin_decodes_to(cbin, ch, raw):
    import mtscomp
    try:
        r = mtscomp.Reader()
        r.open(cbin, ch)
        ok = tuple(r.shape) == raw.shape and np.array_equal(r[:], raw)
        r.close()
        return ok
    except Exception:
        return False


def run_case(case):
    import mtscomp
    import spikeglx
    res = Result()
    rng = rng_for(case)
    d = scratch()
    cls = case["cls"]
    nt = 0
    if cls == "faults":
        b, raw, kw, cd, label = make_file(rng, d / "src", small=True)
        src_bytes = raw.tobytes()
        # reference compression (for decompress faults) + number of chunks
        ref = d / "ref"
        shutil.copytree(b.parent, ref)
        sr = spikeglx.Reader(ref / b.name, **kw)
        sr.compress_file(keep_original=False, chunk_duration=cd)
        sr.close()
        ch = __import__("json").loads((ref / b.name).with_suffix(".ch").read_text())
        nchunks = len(ch["chunk_bounds"]) - 1
        orig_cc = mtscomp.Writer._compress_chunk
        orig_dc = mtscomp.Reader._decompress_chunk
        for k in range(nchunks):
            # ---------------- compression failing at chunk k
            keep = bool(rng.integers(0, 2))
            w = d / f"w{k}"
            shutil.copytree(b.parent, w)
            fb = w / b.name
            earlier = bool(rng.integers(0, 2))        # companions present: {bin} or {bin, cbin+ch of an earlier, complete compression}
            if earlier:
                shutil.copy((ref / b.name).with_suffix(".cbin"), fb.with_suffix(".cbin"))
                shutil.copy((ref / b.name).with_suffix(".ch"), fb.with_suffix(".ch"))
            before = M.snapshot(w)

            def cc(self, chunk_idx, _k=k):
                if chunk_idx == _k:
                    res.count("compress_faults_injected")
                    raise OSError(f"injected failure while compressing chunk {_k}")
                return orig_cc(self, chunk_idx)
            mtscomp.Writer._compress_chunk = cc
            raised = False
            try:
                sr = spikeglx.Reader(fb, **kw)
                try:
                    sr.compress_file(keep_original=keep, chunk_duration=cd)
                except OSError:
                    raised = True
                finally:
                    sr.close()
            finally:
                mtscomp.Writer._compress_chunk = orig_cc
            lab = f"{label}: compress_file(keep_original={keep}) failing at chunk {k}/{nchunks}" + (" with an earlier complete .cbin/.ch present" if earlier else "")
            res.check(raised, "compress-fault:swallowed", f"{lab}: the failure did not propagate")
            res.check(fb.exists() and fb.read_bytes() == src_bytes, "compress-fault:source-touched", f"{lab}: source .bin missing or modified")
            cb = fb.with_suffix(".cbin")
            if cb.exists():
                res.check(fb.with_suffix(".ch").exists() and cbin_decodes_to(cb, fb.with_suffix(".ch"), raw),
                          "compress-fault:earlier-cbin-broken" if earlier else "compress-fault:partial-final-name",
                          f"{lab}: a .cbin carries the final name after the failure but does not decode (with its .ch) to the recording; files: {sorted(p.name for p in w.iterdir())}")
                if earlier:
                    try:
                        src2 = spikeglx.Reader(cb, **kw)
                        res.check(src2.shape == raw.shape, "compress-fault:earlier-cbin-broken", f"{lab}: the earlier .cbin opens with shape {src2.shape}")
                        src2.close()
                    except Exception as e:
                        res.exception("compress-fault:earlier-cbin-broken", e, lab)
            elif earlier:
                res.violation("compress-fault:earlier-cbin-broken", f"{lab}: the complete .cbin of the earlier run disappeared")
            after = M.snapshot(w)
            added, removed, changed = M.snapshot_diff(before, after)
            res.check(not removed and not changed, "compress-fault:files-changed", f"{lab}: removed {removed} changed {changed}")
            res.check(all(a.endswith(("cbin_tmp", ".ch")) for a in added), "compress-fault:unexpected-files", f"{lab}: new files {added}")
            shutil.rmtree(w)
            # ---------------- chunk k damaged silently on its way to storage (nothing raised while writing): whatever compress_file does about it,
            #                  a .cbin carrying the final name must decode to the recording and the source must not be lost
            if k in (0, nchunks // 2, nchunks - 1):
                keep = bool(rng.integers(0, 2))
                w = d / f"s{k}"
                shutil.copytree(b.parent, w)
                fb = w / b.name

                def cc_silent(self, chunk_idx, _k=k):
                    idx, (chunk, comp) = orig_cc(self, chunk_idx)
                    if chunk_idx == _k:
                        bb = bytearray(comp)
                        bb[len(bb) // 2] ^= 0x5A
                        comp = bytes(bb)
                        res.count("silent_write_faults_injected")
                    return idx, (chunk, comp)
                mtscomp.Writer._compress_chunk = cc_silent
                raised = None
                try:
                    sr = spikeglx.Reader(fb, **kw)
                    try:
                        sr.compress_file(keep_original=keep, chunk_duration=cd)
                    except Exception as e:
                        raised = f"{type(e).__name__}"
                    finally:
                        sr.close()
                finally:
                    mtscomp.Writer._compress_chunk = orig_cc
                lab = f"{label}: compress_file(keep_original={keep}) with chunk {k}/{nchunks} silently damaged while written (raised: {raised})"
                cb = fb.with_suffix(".cbin")
                good_cbin = cb.exists() and fb.with_suffix(".ch").exists() and cbin_decodes_to(cb, fb.with_suffix(".ch"), raw)
                if cb.exists():
                    res.check(good_cbin, "compress-silent-fault:damaged-cbin-published", f"{lab}: a .cbin carries the final name but does not decode to the recording")
                res.check((fb.exists() and fb.read_bytes() == src_bytes) or good_cbin, "compress-silent-fault:recording-lost",
                          f"{lab}: neither the source .bin nor a complete .cbin is left; files: {sorted(p.name for p in w.iterdir())}")
                shutil.rmtree(w)
            # ---------------- decompression to scratch failing at chunk k
            w = d / f"x{k}"
            shutil.copytree(ref, w)
            fc = (w / b.name).with_suffix(".cbin")
            use_scratch = bool(rng.integers(0, 2)) and "nc" not in kw     # flat binaries have no metadata to copy
            sdir = (w / "scratch" if rng.random() < 0.5 else w / "scratch" / "not" / "there" / "yet") if use_scratch else None
            before = M.snapshot(w)

            def dc(self, chunk_idx, _k=k):
                if chunk_idx == _k:
                    res.count("decompress_faults_injected")
                    raise OSError(f"injected failure while decompressing chunk {_k}")
                return orig_dc(self, chunk_idx)
            mtscomp.Reader._decompress_chunk = dc
            raised = False
            try:
                sr = spikeglx.Reader(fc, **kw)
                try:
                    sr.decompress_to_scratch(scratch_dir=sdir)
                except OSError:
                    raised = True
                finally:
                    sr.close()
            finally:
                mtscomp.Reader._decompress_chunk = orig_dc
            lab = f"{label}: decompress_to_scratch({'scratch' if use_scratch else 'in place'}) failing at chunk {k}/{nchunks}"
            res.check(raised, "decompress-fault:swallowed", f"{lab}: the failure did not propagate")
            target = (sdir / fc.name).with_suffix(".bin") if use_scratch else fc.with_suffix(".bin")
            if target.exists():
                res.check(target.read_bytes() == src_bytes, "decompress-fault:partial-final-name",
                          f"{lab}: {target.name} exists after the failure with {target.stat().st_size} of {len(src_bytes)} bytes")
            after = M.snapshot(w)
            added, removed, changed = M.snapshot_diff(before, after)
            res.check(not removed and not changed, "decompress-fault:source-touched", f"{lab}: removed {removed} changed {changed}")
            res.check(all(a.endswith((".bin_temp", ".meta")) for a in added), "decompress-fault:unexpected-files", f"{lab}: new files {added}")
            # a clean retry now succeeds and publishes the complete file
            try:
                sr = spikeglx.Reader(fc, **kw)
                out = sr.decompress_to_scratch(scratch_dir=sdir)
                sr.close()
                res.check(Path(out).read_bytes() == src_bytes, "decompress-retry:incomplete", f"{lab}: retry produced a wrong file")
            except Exception as e:
                res.exception("decompress-retry:exception", e, lab)
            shutil.rmtree(w)
            nt += 2
        res.sig = f"faults-{label}"
    elif cls == "twin":
        b, raw, kw, cd, label = make_file(rng, d, mismatch=rng.random() < 0.3)
        if "ignore_warnings" in kw:
            res.count("twin_inconsistent_metadata")
        try:
            srb = spikeglx.Reader(b, **kw)
            before = M.snapshot(d)
            fc = srb.compress_file(keep_original=True, chunk_duration=cd)
            after = M.snapshot(d)
            added, removed, changed = M.snapshot_diff(before, after)
            res.check(set(added) == {fc.name, fc.with_suffix(".ch").name} and not removed and not changed, "compress:keep-original-files",
                      f"{label}: keep_original=True added {added} removed {removed} changed {changed}")
            src = spikeglx.Reader(fc, **kw)
            seams = np.asarray(src._raw.chunk_bounds[1:-1])
            res.check(srb.shape == src.shape and srb.ns == src.ns and srb.rl == src.rl, "twin:shape", f"{label}: bin shape {srb.shape} ns {srb.ns} duration {srb.rl}, "
                      f"cbin shape {src.shape} ns {src.ns} duration {src.rl}")
            ns, nc = srb.shape
            for p in range(case["pairs"]):
                nsel, nlab = S.sample_selector(rng, ns, fancy_ok=False, seams=seams)
                csel, clab = S.channel_selector(rng, nc)
                key = "twin:negative-step" if nlab == "slice-negstep" else "twin:values"
                lab = f"{label} sr[{S.describe(nsel)}, {S.describe(csel)}]"
                try:
                    a = srb[nsel, csel]
                    c = src[nsel, csel]
                    res.count("twin_selectors")
                    same = np.shape(a) == np.shape(c) and np.array_equal(np.asarray(a), np.asarray(c)) and np.asarray(a).dtype == np.asarray(c).dtype
                    res.check(same, key, lambda: f"{lab}: bin gives shape {np.shape(a)}, cbin gives {np.shape(c)}"
                              + ("" if np.shape(a) != np.shape(c) else " (values differ)"))
                    if isinstance(nsel, slice) and srb.meta is not None and srb.nsync > 0:
                        # the other reading surfaces of the reader: sync rows for the same sample selection
                        a2, c2 = srb.read_sync(nsel), src.read_sync(nsel)
                        res.check(a2.shape == c2.shape and np.array_equal(a2, c2), key + ":read_sync",
                                  f"{label} read_sync({S.describe(nsel)}): bin gives shape {a2.shape}, cbin gives {c2.shape}", counter="twin_sync_selectors")
                        a3, c3 = srb.read(nsel=nsel, csel=csel, sync=True), src.read(nsel=nsel, csel=csel, sync=True)
                        res.check(all(np.shape(x) == np.shape(y) and np.array_equal(x, y) for x, y in zip(a3, c3)), key + ":read-with-sync",
                                  f"{lab} read(sync=True): bin and cbin differ")
                except Exception as e:
                    res.exception(key + ":exception", e, lab)
            # the ends of the recording, explicitly: first and last sample through every integer spelling (round 19)
            for sel in (-1, ns - 1, 0, -ns, np.int64(-1), np.int32(ns - 1), (-1, slice(None)), (-1, 0), (np.int64(-1), slice(0, 3)), slice(-1, None), slice(-2, None)):
                lab = f"{label} sr[{sel!r}]"
                # judged on indistinguishability: a selector both readers refuse in the same way is not a difference between them
                got = []
                for r_ in (srb, src):
                    try:
                        got.append(("value", r_[sel]))
                    except Exception as e:
                        got.append(("raises", type(e).__name__))
                res.count("twin_selectors")
                (ka, a), (kc, c) = got
                if ka == "raises" or kc == "raises":
                    res.check(ka == kc and a == c, "twin:end-samples:exception", f"{lab}: bin {ka} {a if ka == 'raises' else np.shape(a)}, cbin {kc} {c if kc == 'raises' else np.shape(c)}",
                              counter="twin_end_selectors")
                else:
                    res.check(np.shape(a) == np.shape(c) and np.array_equal(np.asarray(a), np.asarray(c)), "twin:end-samples",
                              lambda: f"{lab}: bin gives shape {np.shape(a)}, cbin gives {np.shape(c)}" + ("" if np.shape(a) != np.shape(c) else " (values differ)"), counter="twin_end_selectors")
            for isel in (-1, np.int64(-1), np.int64(ns // 2), np.int32(0)):
                got = []
                for r_ in (srb, src):
                    try:
                        got.append(("value", r_.read(nsel=isel, sync=srb.meta is not None and srb.nsync > 0)))
                    except Exception as e:
                        got.append(("raises", type(e).__name__))
                (ka, a), (kc, c) = got
                lab = f"{label} read(nsel={isel!r})"
                if ka == "raises" or kc == "raises":
                    res.check(ka == kc and a == c, "twin:end-samples:exception", f"{lab}: bin {ka} {a if ka == 'raises' else ''}, cbin {kc} {c if kc == 'raises' else ''}")
                else:
                    a, c = (a, c) if isinstance(a, tuple) else ((a,), (c,))
                    res.check(all(np.shape(x) == np.shape(y) and np.array_equal(x, y) for x, y in zip(a, c)), "twin:end-samples", f"{lab}: bin and cbin differ "
                              f"(shapes {[np.shape(x) for x in a]} and {[np.shape(x) for x in c]})")
            # around every seam, explicitly
            for s in seams[:40]:
                for lo, hi in ((s - 2, s + 2), (s - 1, s), (s, s + 1), (max(0, s - 1), min(ns, s + 1))):
                    a, c = srb[int(lo):int(hi)], src[int(lo):int(hi)]
                    res.check(np.array_equal(a, c), "twin:seam", f"{label}: rows {lo}:{hi} around chunk seam {s} differ")
                    res.count("twin_selectors")
                a, c = srb[int(s)], src[int(s)]
                res.check(np.array_equal(a, c), "twin:seam", f"{label}: row {s} (first of a chunk) differs")
            src.close()
            # lossless round trip to another path
            out = d / "roundtrip" / "rt.bin"
            out.parent.mkdir()
            src = spikeglx.Reader(fc, **kw)
            got = src.decompress_file(keep_original=True, out=out)
            src.close()
            res.check(Path(got).read_bytes() == raw.tobytes(), "roundtrip:bytes", f"{label}: compress followed by decompress is not byte-identical",
                      counter="roundtrips")
            res.check(fc.exists() and fc.with_suffix(".ch").exists() and b.read_bytes() == raw.tobytes(), "roundtrip:sources", f"{label}: keep_original=True removed something")
            srb.close()
            nt = 1
        except Exception as e:
            res.exception("twin:exception", e, label)
        res.sig = f"twin-{label}"
    elif cls == "inplace":
        b, raw, kw, cd, label = make_file(rng, d)
        src_bytes = raw.tobytes()
        log = M.FileEventLog.get()
        judged = []

        def on_event(ev):
            # invariant at the hook: evaluated *before* the unlink takes place
            if ev[1] == "remove":
                p = Path(ev[2])
                if p.suffix == ".bin" and p == b:
                    cb = p.with_suffix(".cbin")
                    ok = cb.exists() and p.with_suffix(".ch").exists() and cbin_decodes_to(cb, p.with_suffix(".ch"), raw)
                    judged.append(("remove-bin", ok, [e[1:] for e in log.events[-6:]]))
                elif p.suffix == ".cbin":
                    nb = p.with_suffix(".bin")
                    ok = nb.exists() and nb.read_bytes() == src_bytes
                    judged.append(("remove-cbin", ok, [e[1:] for e in log.events[-6:]]))
        try:
            log.arm(d, [on_event])
            sr = spikeglx.Reader(b, **kw)
            fc = sr.compress_file(keep_original=False, chunk_duration=cd)
            ev1 = list(log.events)
            res.check(sr.file_bin == fc and not b.exists() and fc.exists(), "inplace-compress:state", f"{label}: after in-place compression bin exists={b.exists()}")
            res.check(cbin_decodes_to(fc, fc.with_suffix(".ch"), raw), "inplace-compress:lossy", f"{label}: the published .cbin does not decode to the source")
            names = [(e[1], Path(e[2]).suffix, Path(e[3]).suffix if len(e) > 3 and isinstance(e[3], str) and e[1] == "rename" else "") for e in ev1]
            i_ren = next((i for i, e in enumerate(names) if e[0] == "rename" and e[2] == ".cbin"), None)
            i_rm = next((i for i, e in enumerate(names) if e[0] == "remove" and e[1] == ".bin"), None)
            i_w = next((i for i, e in enumerate(names) if e[0] == "open-w" and e[1] == ".cbin"), None)
            res.check(i_ren is not None and i_rm is not None and i_ren < i_rm, "inplace-compress:order",
                      f"{label}: source unlinked before the .cbin was published: {names}")
            res.check(i_w is None, "inplace-compress:direct-write", f"{label}: the final .cbin name was opened for writing directly: {names}")
            sr.close()
            # values readable through the modified reader object
            sr2 = spikeglx.Reader(fc, **kw)
            res.check(sr2.shape == raw.shape, "inplace-compress:shape", f"{label}: shape {sr2.shape}")
            # now in-place decompression
            log.events.clear()
            out = sr2.decompress_file(keep_original=False)
            res.check(Path(out) == b and b.read_bytes() == src_bytes, "inplace-decompress:bytes", f"{label}: in-place decompression is not byte-identical")
            res.check(not fc.exists() and not fc.with_suffix(".ch").exists(), "inplace-decompress:state", f"{label}: compressed source still present")
            sr2.close()
            # ---- in-place decompression next to a stale / incomplete .bin carrying the final name (left by an interrupted run or an older copy)
            sr3 = spikeglx.Reader(b, **kw)
            sr3.compress_file(keep_original=False, chunk_duration=cd)
            sr3.close()
            nchunks = len(__import__("json").loads(fc.with_suffix(".ch").read_text())["chunk_bounds"]) - 1
            cbin_bytes, ch_bytes = fc.read_bytes(), fc.with_suffix(".ch").read_bytes()
            # ---- a chunk silently damaged on its way to the output file of an in-place decompression (nothing raised while writing): whatever the
            #      call does about it, the compressed source may only go if the .bin is the recording
            kd = int(rng.integers(0, nchunks))
            orig_dcs = mtscomp.Reader.decompress_chunks

            def dcs(self, chunk_ids, pool=None, _k=kd):
                out_ = orig_dcs(self, chunk_ids, pool=pool)
                if _k in out_:
                    a_ = np.array(out_[_k])
                    a_.reshape(-1)[a_.size // 2] ^= 0x155
                    out_[_k] = a_
                    res.count("silent_write_faults_injected")
                return out_
            b.unlink(missing_ok=True)
            mtscomp.Reader.decompress_chunks = dcs
            raised = None
            try:
                srd = spikeglx.Reader(fc, **kw)
                try:
                    srd.decompress_file(keep_original=False)
                except Exception as e:
                    raised = type(e).__name__
                finally:
                    srd.close()
            finally:
                mtscomp.Reader.decompress_chunks = orig_dcs
            labd = f"{label}: decompress_file(keep_original=False) with chunk {kd}/{nchunks} silently damaged while written (raised: {raised})"
            src_ok = fc.exists() and fc.read_bytes() == cbin_bytes and fc.with_suffix(".ch").exists()
            bin_ok = b.exists() and b.read_bytes() == src_bytes
            res.check(src_ok or bin_ok, "inplace-decompress:silent-fault:recording-lost", f"{labd}: the compressed source is gone and the .bin is not the recording")
            if b.exists() and not bin_ok:
                b.unlink()
            if not fc.exists():
                fc.write_bytes(cbin_bytes)
                fc.with_suffix(".ch").write_bytes(ch_bytes)
            for variant in ("prefix", "same-size", "interrupted"):
                log.events.clear()
                if variant == "prefix":
                    b.write_bytes(src_bytes[: int(rng.integers(0, len(src_bytes)))])
                elif variant == "same-size":
                    b.write_bytes(rng.integers(0, 256, len(src_bytes), dtype=np.uint8).tobytes())
                else:
                    b.unlink(missing_ok=True)
                    kf = int(rng.integers(0, nchunks))
                    orig_dc = mtscomp.Reader._decompress_chunk

                    def dc(self, chunk_idx, _k=kf):
                        if chunk_idx == _k:
                            res.count("decompress_faults_injected")
                            raise OSError(f"injected failure while decompressing chunk {_k}")
                        return orig_dc(self, chunk_idx)
                    mtscomp.Reader._decompress_chunk = dc
                    raised = False
                    try:
                        srf = spikeglx.Reader(fc, **kw)
                        try:
                            srf.decompress_file(keep_original=False)
                        except OSError:
                            raised = True
                        finally:
                            srf.close()
                    finally:
                        mtscomp.Reader._decompress_chunk = orig_dc
                    labf = f"{label}: decompress_file(keep_original=False) failing at chunk {kf}/{nchunks}"
                    res.check(raised, "inplace-decompress-fault:swallowed", f"{labf}: the failure did not propagate")
                    res.check(fc.exists() and fc.read_bytes() == cbin_bytes and fc.with_suffix(".ch").exists() and fc.with_suffix(".ch").read_bytes() == ch_bytes,
                              "inplace-decompress-fault:source-touched", f"{labf}: the compressed source is missing or modified after the failure")
                lab2 = f"{label}: decompress_file(keep_original=False) next to a {variant} .bin of {b.stat().st_size if b.exists() else 0}/{len(src_bytes)} bytes"
                srs = spikeglx.Reader(fc, **kw)
                try:
                    out = srs.decompress_file(keep_original=False)
                    done = True
                except Exception:
                    done = False     # refusing is fine - as long as the source survives
                srs.close()
                res.count("stale_bin_runs")
                if done:
                    res.check(b.exists() and b.read_bytes() == src_bytes, "inplace-decompress:stale-bin-taken-for-complete",
                              f"{lab2}: returned normally but the .bin is not the recording ({b.stat().st_size if b.exists() else 0} bytes); source present: {fc.exists()}")
                else:
                    res.check(fc.exists() and fc.read_bytes() == cbin_bytes and fc.with_suffix(".ch").exists(), "inplace-decompress:refused-but-source-touched",
                              f"{lab2}: refused, and the compressed source is missing or modified")
                    srs = spikeglx.Reader(fc, **kw)
                    try:
                        srs.decompress_file(keep_original=False, overwrite=True)
                        res.check(b.read_bytes() == src_bytes and not fc.exists(), "inplace-decompress:overwrite", f"{lab2}: overwrite=True did not produce the recording")
                    except Exception as e:
                        res.exception("inplace-decompress:overwrite:exception", e, lab2)
                    srs.close()
                # back to the compressed state for the next variant
                if not fc.exists():
                    fc.write_bytes(cbin_bytes)
                    fc.with_suffix(".ch").write_bytes(ch_bytes)
        except Exception as e:
            res.exception("inplace:exception", e, label)
        finally:
            log.disarm()
        for what, ok, tail in judged:
            res.check(ok, f"inplace:{what}-before-replacement-complete", f"{label}: {what} issued while its replacement was missing or incomplete; last events {tail}",
                      counter="remove_events_judged")
        res.check({w for w, _, _ in judged} >= {"remove-bin", "remove-cbin"}, "inplace:remove-not-observed", f"{label}: unlink events seen: {[w for w, _, _ in judged]}")
        nt = 1
        res.sig = f"inplace-{label}"
    elif cls == "entry":
        kind = str(rng.choice(G.KINDS))
        ns = int(rng.integers(100, 600))
        rec = G.make(rng, kind=kind, ns=ns, gains=G.random_gains(rng))
        order = np.r_[rec.order, rec.n]
        cal = (rec.raw[:, order].astype(np.float32) * rec.s2v[order].astype(np.float32)[None, :])
        for companions in ("bin", "cbin", "both"):
            w = d / companions
            b = G.write(rec, w)
            sr = spikeglx.Reader(b)
            sr.compress_file(keep_original=(companions == "both"), chunk_duration=0.003)
            sr.close()
            if companions == "bin":
                b.with_suffix(".cbin").unlink()
                b.with_suffix(".ch").unlink()
                G.write(rec, w)
            handed = {"bin": [b, b.with_suffix(".meta")], "cbin": [b.with_suffix(".cbin"), b.with_suffix(".meta")],
                      "both": [b, b.with_suffix(".cbin"), b.with_suffix(".meta")]}[companions]
            for path in handed:
                lab = f"{kind}: companions={companions}, Reader({path.suffix})"
                key = "entry:meta-path-with-only-cbin" if (companions == "cbin" and path.suffix == ".meta") else "entry"
                try:
                    sr = spikeglx.Reader(path)
                    res.count("entry_paths")
                    ok = sr.file_bin is not None and sr.is_open
                    res.check(ok, key + ":no-binary", f"{lab}: no binary file resolved (file_bin={sr.file_bin})")
                    if ok:
                        res.check(sr.shape == (ns, rec.nc), key + ":shape", f"{lab}: shape {sr.shape}")
                        got = sr[:, :]
                        res.check(np.allclose(got, cal, rtol=2.0 ** -22, atol=0), key + ":values", f"{lab}: resolves to different data")
                        res.check(sr.file_meta_data == b.with_suffix(".meta"), key + ":meta", f"{lab}: meta file {sr.file_meta_data}")
                    sr.close()
                except Exception as e:
                    res.exception(key + ":exception", e, lab)
        # ---- the same files reached through paths that are not canonical: a symlinked session folder, a path relative to the working directory, a
        #      path with a redundant '..' - every entry point still resolves to the recording
        import os as _os
        w = d / "noncanonical" / "session"
        b = G.write(rec, w)
        sr = spikeglx.Reader(b)
        sr.compress_file(keep_original=True, chunk_duration=0.003)
        sr.close()
        link = d / "noncanonical" / "link-to-session"
        _os.symlink(w, link, target_is_directory=True)
        forms = {"symlinked folder": lambda p_: link / p_.name, "relative path": lambda p_: Path(_os.path.relpath(p_, _os.getcwd())),
                 "path with ..": lambda p_: p_.parent / ".." / p_.parent.name / p_.name}
        for fname, fmap in forms.items():
            for suf in (".bin", ".cbin", ".meta"):
                path = fmap(b.with_suffix(suf))
                lab = f"{kind}: Reader({suf}) through a {fname}"
                try:
                    sr = spikeglx.Reader(path)
                    res.count("entry_paths")
                    res.count("noncanonical_entries")
                    okb = sr.file_bin is not None and Path(sr.file_bin).suffix in (".bin", ".cbin")
                    res.check(okb and sr.shape == (ns, rec.nc) and np.allclose(sr[:, :], cal, rtol=2.0 ** -22, atol=0), "entry:noncanonical-path",
                              f"{lab}: binary {getattr(sr.file_bin, 'name', None)}, shape {sr.shape} expected {(ns, rec.nc)} - does not resolve to the recording")
                    sr.close()
                except Exception as e:
                    res.exception("entry:noncanonical-path:exception", e, lab)
        # ---- companions named explicitly (meta_file= / ch_file=) because they live elsewhere under other names
        w = d / "explicit"
        b = G.write(rec, w)
        elsewhere = d / "explicit-companions"
        elsewhere.mkdir()
        meta_e = elsewhere / "some-other-name.meta"
        shutil.move(str(b.with_suffix(".meta")), str(meta_e))
        for form in ("bin", "cbin"):
            lab = f"{kind}: companions given explicitly, Reader({form}, meta_file=..." + (", ch_file=...)" if form == "cbin" else ")")
            try:
                kw2 = {"meta_file": meta_e}
                path = b
                if form == "cbin":
                    import mtscomp as _mt
                    _mt.compress(b, out=b.with_suffix(".cbin"), outmeta=elsewhere / "another.ch", sample_rate=rec.fs, n_channels=rec.nc, dtype=np.int16,
                                 chunk_duration=0.003, check_after_compress=False)
                    b.unlink()
                    path = b.with_suffix(".cbin")
                    kw2["ch_file"] = elsewhere / "another.ch"
                sr = spikeglx.Reader(path, **kw2)
                res.count("entry_paths")
                res.count("explicit_companions")
                res.check(sr.file_meta_data == meta_e and sr.file_bin == path, "entry:explicit-meta", f"{lab}: resolved meta {sr.file_meta_data} binary {sr.file_bin}")
                res.check(sr.shape == (ns, rec.nc) and np.allclose(sr[:, :], cal, rtol=2.0 ** -22, atol=0), "entry:explicit-values", f"{lab}: resolves to different data (shape {sr.shape})")
                a = sr[int(ns // 3):int(ns // 3) + 7, :]
                res.check(np.allclose(a, cal[int(ns // 3):int(ns // 3) + 7], rtol=2.0 ** -22, atol=0), "entry:explicit-values", f"{lab}: a slice differs")
                sr.close()
            except Exception as e:
                res.exception("entry:explicit-exception", e, lab)
        # ---- companions carrying different UUIDs in their names (as datasets registered on a server do)
        import uuid
        w = d / "uuid"
        u1, u2, u3 = (str(uuid.UUID(bytes=rng.bytes(16), version=4)) for _ in range(3))
        b = G.write(rec, w, name=f"run_g0_t0.imec0.ap.{u1}")
        meta_u = w / f"run_g0_t0.imec0.ap.{u2}.meta"
        b.with_suffix(".meta").rename(meta_u)
        for form in ("bin", "cbin"):
            lab = f"{kind}: UUID-named companions, Reader({form})"
            try:
                if form == "cbin":
                    sr = spikeglx.Reader(b)
                    sr.compress_file(keep_original=False, chunk_duration=0.003)
                    sr.close()
                    ch_u = w / f"run_g0_t0.imec0.ap.{u3}.ch"
                    b.with_suffix(".ch").rename(ch_u)
                path = b if form == "bin" else b.with_suffix(".cbin")
                sr = spikeglx.Reader(path)
                res.count("entry_paths")
                res.check(sr.file_meta_data == meta_u, "entry:uuid-meta", f"{lab}: metadata companion resolved to {sr.file_meta_data}")
                res.check(sr.shape == (ns, rec.nc) and np.allclose(sr[:, :], cal, rtol=2.0 ** -22, atol=0), "entry:uuid-values", f"{lab}: resolves to different data")
                sr.close()
            except Exception as e:
                res.exception("entry:uuid-exception", e, lab)
        # ---- only SOME of the files carry a UUID (a tagged data file next to its plain-named companions, or the other way round)
        for tagged in ("data", "companions"):
            w = d / f"uuid-partial-{tagged}"
            ux = str(uuid.UUID(bytes=rng.bytes(16), version=4))
            lab = f"{kind}: UUID on the {tagged} only"
            try:
                bb = G.write(rec, w)
                srx = spikeglx.Reader(bb)
                srx.compress_file(keep_original=True, chunk_duration=0.003)
                srx.close()
                stem = "run_g0_t0.imec0.ap"
                ren = {"data": [(".bin", f"{stem}.{ux}.bin"), (".cbin", f"{stem}.{ux}.cbin")], "companions": [(".meta", f"{stem}.{ux}.meta"), (".ch", f"{stem}.{ux}.ch")]}[tagged]
                for suf, new in ren:
                    (w / (stem + suf)).rename(w / new)
                for p_ in sorted(w.glob("*bin")):
                    srx = spikeglx.Reader(p_)
                    res.count("entry_paths")
                    res.count("partial_uuid_entries")
                    res.check(srx.shape == (ns, rec.nc) and np.allclose(srx[:, :], cal, rtol=2.0 ** -22, atol=0), "entry:uuid-partial", f"{lab}: Reader({p_.name[-46:]}) shape {srx.shape}, "
                              f"meta {getattr(srx.file_meta_data, 'name', None)} - does not resolve to the recording")
                    srx.close()
            except Exception as e:
                res.exception("entry:uuid-partial:exception", e, lab)
        # ---- two recordings with the same base name in one folder (dataset copies tagged with their own UUID, or one of them plain-named):
        #      each file resolves ITS OWN companions, through the .bin / .cbin / .meta entry points
        w = d / "twins-in-one-folder"
        ua, ub = (str(uuid.UUID(bytes=rng.bytes(16), version=4)) for _ in range(2))
        ns_b = ns + int(rng.integers(20, 300))
        rec_b = G.make(rng, kind=kind, sites=rec.sites, ns=ns_b, gains=rec.gains)
        order_b = np.r_[rec_b.order, rec_b.n]
        cal_b = (rec_b.raw[:, order_b].astype(np.float32) * rec_b.s2v[order_b].astype(np.float32)[None, :])
        name_a = f"run_g0_t0.imec0.ap.{ua}"
        name_b = "run_g0_t0.imec0.ap" if rng.random() < 0.5 else f"run_g0_t0.imec0.ap.{ub}"
        try:
            for nm, rc in ((name_a, rec), (name_b, rec_b)):
                bb = G.write(rc, w, name=nm)
                srx = spikeglx.Reader(bb)
                srx.compress_file(keep_original=True, chunk_duration=0.003)
                srx.close()
            for nm, rc, cl, nsx in ((name_a, rec, cal, ns), (name_b, rec_b, cal_b, ns_b)):
                for suf in (".bin", ".cbin", ".meta"):
                    path = w / (nm + suf)
                    lab = f"{kind}: two recordings named {name_a[:24]}.. and {name_b[:24]}.. in one folder, Reader({path.name[-46:]})"
                    sr = spikeglx.Reader(path)
                    res.count("entry_paths")
                    res.count("same_base_name_entries")
                    okm = sr.file_meta_data == w / (nm + ".meta")
                    res.check(okm and sr.shape == (nsx, rc.nc) and np.allclose(sr[:, :], cl, rtol=2.0 ** -22, atol=0), "entry:same-base-name:wrong-companion",
                              f"{lab}: meta {getattr(sr.file_meta_data, 'name', None)}, shape {sr.shape} expected {(nsx, rc.nc)} - resolves to the other recording")
                    sr.close()
        except Exception as e:
            res.exception("entry:same-base-name:exception", e, f"{kind}: {name_a} / {name_b}")
        # ---- recordings whose NAME happens to contain the words the library looks for in suffixes ("cbin", "bin", "meta", "ch"): the kind of a file is
        #      told by its suffix; open, compress (keeping the original), open all three entry points, decompress elsewhere
        for stem in ("copy_from_cbin_g0_t0.imec0.ap", "bin2cbin.meta_g0_t0.imec0.ap", "ch.cbin_test_g0_t0.imec0.ap"):
            w = d / "odd-names" / stem.split("_")[0]
            lab = f"{kind}: recording named {stem}.bin"
            try:
                bb = G.write(rec, w, name=stem)
                sr = spikeglx.Reader(bb)
                res.count("entry_paths")
                res.count("odd_names")
                res.check(not sr.is_mtscomp and sr.shape == (ns, rec.nc) and np.allclose(sr[:, :], cal, rtol=2.0 ** -22, atol=0), "entry:odd-name:bin", f"{lab}: does not open as the flat recording it is")
                fcx = sr.compress_file(keep_original=True, chunk_duration=0.003)
                sr.close()
                for suf in (".bin", ".cbin", ".meta"):
                    srx = spikeglx.Reader(bb.with_suffix(suf))
                    res.check(srx.shape == (ns, rec.nc) and np.allclose(srx[:, :], cal, rtol=2.0 ** -22, atol=0) and srx.is_mtscomp == (Path(srx.file_bin).suffix == ".cbin"),
                              "entry:odd-name:entry-points", f"{lab}: Reader({suf}) resolves to {getattr(srx.file_bin, 'name', None)} shape {srx.shape}")
                    srx.close()
                srx = spikeglx.Reader(fcx)
                got = srx.decompress_file(keep_original=True, out=w / "rt" / "rt.bin") if (w / "rt").mkdir() is None else None
                srx.close()
                res.check(Path(got).read_bytes() == rec.raw.tobytes(), "entry:odd-name:roundtrip", f"{lab}: compress followed by decompress is not byte-identical")
            except Exception as e:
                res.exception("entry:odd-name:exception", e, lab)
        # ---- the copy decompressed to a scratch folder is the same recording through the reader - also when the scratch folder has been used
        #      before: two sessions hold a recording of the SAME file name (other length, other gains); the first is decompressed to scratch, its
        #      large scratch .bin is removed (or everything is, or nothing was there), then the second goes through the same scratch folder
        rec_c = G.make(rng, kind=kind, ns=ns + int(rng.integers(20, 300)), gains=G.random_gains(rng))
        order_c = np.r_[rec_c.order, rec_c.n]
        cal_c = (rec_c.raw[:, order_c].astype(np.float32) * rec_c.s2v[order_c].astype(np.float32)[None, :])
        scr = d / "shared-scratch"
        for hist in ("first-use", "earlier-bin-removed", "emptied"):
            rcs = {"first-use": [(rec, cal, "sessA")], "earlier-bin-removed": [(rec_c, cal_c, "sessB"), (rec, cal, "sessA")],
                   "emptied": [(rec_c, cal_c, "sessB"), (rec, cal, "sessA")]}[hist]
            shutil.rmtree(scr, ignore_errors=True)
            for step, (rc, cl, sess) in enumerate(rcs):
                lab = f"{kind}: decompress_to_scratch into a scratch folder with history '{hist}', recording {step + 1} of {len(rcs)}"
                try:
                    wb = d / "scratch-sessions" / hist / sess
                    bb = G.write(rc, wb)
                    srx = spikeglx.Reader(bb)
                    srx.compress_file(keep_original=False, chunk_duration=0.003)
                    srx.close()
                    src = spikeglx.Reader(bb.with_suffix(".cbin"))
                    out = Path(src.decompress_to_scratch(scratch_dir=scr))
                    res.count("scratch_copies")
                    res.check(out.read_bytes() == rc.raw.tobytes(), "scratch-copy:bytes", f"{lab}: the scratch .bin is not the recording byte for byte")
                    for path in (out, out.with_suffix(".meta")):
                        srs = spikeglx.Reader(path)
                        same = srs.shape == src.shape and np.array_equal(srs[:, :], src[:, :]) and srs.fs == src.fs and np.array_equal(srs.sample2volts, src.sample2volts)
                        res.check(same and np.allclose(srs[:, :], cl, rtol=2.0 ** -22, atol=0), "scratch-copy:not-the-same-recording",
                                  f"{lab}: Reader({path.name}) of the scratch copy has shape {srs.shape}, the compressed recording {src.shape}; values equal: {same}")
                        srs.close()
                    src.close()
                    if step + 1 < len(rcs):
                        if hist == "earlier-bin-removed":
                            out.unlink()
                        else:
                            shutil.rmtree(scr)
                except Exception as e:
                    res.exception("scratch-copy:exception", e, lab)
        # ---- the two bands of one run (names differing in the band tag only) decompressed into ONE scratch folder, in either order: each scratch copy is its own recording
        if kind in ("3A", "3B1", "3B2", "NPultra"):
            rec_l = G.make(rng, kind=kind, stream="lf", ns=int(rng.integers(40, 200)), gains=G.random_gains(rng))
            scr2 = d / "scratch-two-bands"
            wb = d / "two-bands"
            outs2 = {}
            try:
                order2 = [("ap", rec), ("lf", rec_l)] if rng.random() < 0.5 else [("lf", rec_l), ("ap", rec)]
                for band, rc in order2:
                    bb = G.write(rc, wb)
                    srx = spikeglx.Reader(bb)
                    srx.compress_file(keep_original=False, chunk_duration=0.003)
                    srx.close()
                for band, rc in order2:
                    src = spikeglx.Reader(wb / f"run_g0_t0.imec0.{band}.cbin")
                    out = Path(src.decompress_to_scratch(scratch_dir=scr2))
                    res.count("scratch_copies")
                    res.count("two_band_scratch_copies")
                    srs = spikeglx.Reader(out)
                    ok = out.read_bytes() == rc.raw.tobytes() and srs.shape == src.shape and np.array_equal(srs[:, :], src[:, :]) and srs.type == band and srs.fs == src.fs
                    res.check(ok, "scratch-copy:two-bands", f"{kind}: {band} band decompressed into a scratch folder shared with the other band: {out.name} holds "
                              f"{out.stat().st_size} bytes (recording {rc.raw.nbytes}), reader type {srs.type} shape {srs.shape} vs {src.shape}")
                    srs.close()
                    src.close()
            except Exception as e:
                res.exception("scratch-copy:two-bands:exception", e, f"{kind}: ap and lf into one scratch folder")
        nt = 1
        res.sig = f"entry-{kind}"
    res.nontrivial = nt > 0
    res.nt = nt
    return res
