"""C19 Clock synchronisation recovers the affine map and only true event pairs.

Monitor: return-value monitor on ibldsp.utils.sync_timestamps: the generator draws the true affine clock map and the
true pairing (which events exist on both sides); the returned mapping, drift and index pairs are judged against them.
"""
import numpy as np

from vlib.result import Result, rng_for

PROPERTY = "C19"
LEVEL = "exploration"
RULE = ("event trains of 30..300 events with gaps U(0.5,10) s, drift U(-100,100) ppm, offset of either sign up to 180 s, 0..5 events missing "
        "on each side at random positions (first/last included), jitter U(0,0.1) ms, linear and interpolating modes. Non-trivial: >= 1 event "
        "missing on each side and |drift| > 1 ppm; distinct = distinct (n, missing a, missing b, mode, sign of offset, drift decile)")
ASSUMPTIONS = ["tolerances follow least-squares error propagation: drift error <= 1 ppm + 4*jitter/T*1e6; mapping error at held-out events <= 2 ms",
               "'nearly all' true correspondences = at least 95 %"]
REQUIRED = {"short_train_drifts_checked": 60, "trains": 100, "adjacent_opposite_misses": 100, "pairs_checked": 5000, "heldout_checked": 100, "drift_checked": 100}
CASE_TIMEOUT = 120.0


def gen_cases(seed, tier):
    n = 150 if tier == "quick" else 12000
    return [{"cls": "train", "seed": seed * 100000 + i, "n": 10, "_w": 1} for i in range(n)]


def run_case(case):
    import ibldsp.utils as U
    res = Result()
    rng = rng_for(case)
    sigs = set()
    for _ in range(case["n"]):
        n = int(rng.integers(30, 301))
        gaps = rng.uniform(0.5, 10, n)
        drift = float(rng.uniform(-100, 100)) * 1e-6
        if rng.random() < 0.1:
            drift = float(rng.choice([-100, 100, 0])) * 1e-6
        if rng.random() < 0.15:
            # long recording at the edge of the stated domain: the accumulated drift exceeds the coarse matching bin
            n = int(rng.integers(250, 301))
            gaps = rng.uniform(8, 10, n)
            drift = float(rng.choice([-1, 1])) * float(rng.uniform(80, 100)) * 1e-6
        short_gaps = None
        if rng.random() < 0.15:
            # long recording (span > 2500 s) with a few of the shortest admissible gaps (0.5 s) in it; events next to those gaps go missing on one side
            n = int(rng.integers(270, 301))
            gaps = rng.uniform(9, 10, n)
            short_gaps = np.sort(rng.choice(np.arange(5, n - 5), int(rng.integers(3, 7)), replace=False))
            gaps[short_gaps] = rng.uniform(0.5, 0.55, short_gaps.size)
            drift = float(rng.uniform(-30, 30)) * 1e-6
        force_linear = None
        if short_gaps is None and rng.random() < 0.12:
            # the longest admissible recording with the largest drift (the ends are only matched in the second assignment pass) and the shortest admissible
            # intervals sprinkled all over it, so that the pairs the second pass starts from are often less than a second apart
            n = int(rng.integers(292, 301))
            gaps = rng.uniform(9.5, 10, n)
            gaps[rng.random(n) < 0.05] = rng.uniform(0.5, 0.6)
            # ... and densely where the first pass (a window of +-0.1 s around one global delay) stops matching: about 1000 s either side of the middle
            for z0 in (int(n * 0.12), int(n * 0.76)):
                zi = np.arange(z0, z0 + int(n * 0.12))
                gaps[zi[rng.random(zi.size) < 0.5]] = rng.uniform(0.5, 0.6)
            drift = float(rng.choice([-1, 1])) * float(rng.uniform(95, 100)) * 1e-6
            force_linear = True
            res.count("long_high_drift_sprinkled_trains")
        adjacent = None
        if _ in (0, 5) and short_gaps is None and force_linear is None:
            # an event missing on side a right next to (0.5 s, the shortest admissible interval) an event missing on side b, every other
            # interval well above a second: the two leftovers are each other's nearest candidates but NOT a pair (round 19)
            n = int(rng.integers(45, 121))
            gaps = rng.uniform(1.2, 9.5, n)
            adjacent = int(rng.integers(8, n - 12))
            gaps[adjacent + 1] = 0.5
            drift = float(rng.uniform(-60, 60)) * 1e-6
            res.count("adjacent_opposite_misses")
        short_train = None
        if _ == 3 and short_gaps is None and force_linear is None and adjacent is None:
            # round 23: a short session (40-80 events, 0.5-1.5 s apart) with the largest admissible jitter: the reported drift is the least-squares slope over
            # ALL matched pairs - an estimate resting on a few of them (the two ends, say) is several times less accurate and is told apart by that
            n = int(rng.integers(40, 81))
            gaps = rng.uniform(0.5, 1.5, n)
            drift = float(rng.uniform(-100, 100)) * 1e-6
            short_train = True
            res.count("short_trains")
        t_true = np.cumsum(gaps) + float(rng.uniform(0, 100))
        offset = float(rng.uniform(-180, 180))
        jit = float(rng.uniform(0, 1e-4)) if (force_linear is None and short_train is None) else float(rng.uniform(0.7e-4, 1e-4))
        ma, mb = int(rng.integers(0, 6)), int(rng.integers(0, 6))
        drop_a = np.sort(rng.choice(n, ma, replace=False))
        drop_b = np.sort(rng.choice(np.setdiff1d(np.arange(n), drop_a), mb, replace=False))
        if short_gaps is not None:
            # gap k separates events k-1 and k: drop one of the two on series b (and, for other gaps, on series a)
            pick = rng.permutation(short_gaps)
            drop_b = np.unique([int(g - rng.integers(0, 2)) for g in pick[: max(1, pick.size // 2)]])
            drop_a = np.setdiff1d(np.unique([int(g - rng.integers(0, 2)) for g in pick[max(1, pick.size // 2):]]), np.r_[drop_b, drop_b - 1, drop_b + 1])
            ma, mb = drop_a.size, drop_b.size
            res.count("long_trains_with_short_gaps")
        if rng.random() < 0.2 and ma and short_gaps is None:
            drop_a[0] = 0
        if rng.random() < 0.2 and mb and (n - 1) not in drop_a and short_gaps is None:
            drop_b[-1] = n - 1
        if adjacent is not None:
            order_ = (adjacent + 1, adjacent) if _ == 0 else (adjacent, adjacent + 1)
            drop_a = np.unique(np.r_[np.setdiff1d(drop_a, [adjacent, adjacent + 1]), order_[0]])
            drop_b = np.unique(np.r_[np.setdiff1d(drop_b, [adjacent, adjacent + 1]), order_[1]])
            ma, mb = drop_a.size, drop_b.size
        drop_b = np.setdiff1d(drop_b, drop_a)
        ia_true = np.setdiff1d(np.arange(n), drop_a)
        ib_true = np.setdiff1d(np.arange(n), drop_b)
        tsa = t_true[ia_true] + rng.uniform(-jit, jit, ia_true.size)
        tb_exact = t_true * (1 + drift) + offset
        tsb = tb_exact[ib_true] + rng.uniform(-jit, jit, ib_true.size)
        linear = bool(rng.integers(0, 2))
        if force_linear is not None:
            linear = force_linear
        label = f"n={n} drift={drift * 1e6:.1f}ppm offset={offset:.2f}s missing a={drop_a.tolist()} b={drop_b.tolist()} jitter={jit * 1e3:.3f}ms linear={linear}"
        res.count("trains")
        tsa0, tsb0 = tsa.copy(), tsb.copy()
        try:
            fcn, drift_ppm, ia, ib = U.sync_timestamps(tsa, tsb, return_indices=True, linear=linear)
        except Exception as e:
            res.exception("sync:exception", e, label)
            continue
        # the two time series are the caller's: unchanged by the call
        res.check(np.array_equal(tsa, tsa0) and np.array_equal(tsb, tsb0), "sync:inputs-modified", f"{label}: the event series were modified by the call")
        # true pairs: positions in tsa / tsb of events present on both sides
        both = np.intersect1d(ia_true, ib_true)
        pa = np.searchsorted(ia_true, both)
        pb = np.searchsorted(ib_true, both)
        true_pairs = set(zip(pa.tolist(), pb.tolist()))
        got_pairs = set(zip(np.asarray(ia).tolist(), np.asarray(ib).tolist()))
        false_pairs = got_pairs - true_pairs
        res.count("pairs_checked", len(got_pairs))
        res.check(not false_pairs, "sync:false-pair", f"{label}: {len(false_pairs)} returned pairs are not true correspondences, e.g. {sorted(false_pairs)[:3]}")
        frac = len(got_pairs & true_pairs) / max(1, len(true_pairs))
        res.measure("min_fraction_true_pairs_returned", frac, kind="min")
        # "nearly all": at most two pairs, or 1 % of them, may be left out (measured on the unchanged code over 480 000 trains of every class: none is ever left out)
        nmiss = len(true_pairs - got_pairs)
        res.check(nmiss <= max(2, 0.01 * len(true_pairs)), "sync:missed-pairs", f"{label}: only {frac:.1%} of the {len(true_pairs)} true correspondences returned ({nmiss} left out)")
        # mapping at held-out events (present on b only) and at all events
        T = float(t_true[-1] - t_true[0])
        tol_map = 2e-3
        if drop_a.size:
            # interpolating mode: only events between two matched neighbours (extrapolating from two jittered points amplifies the
            # jitter by distance/gap, which is inherent to interpolation and not what the property speaks about)
            inside = drop_a[(drop_a > both.min()) & (drop_a < both.max())] if not linear else drop_a
            if inside.size:
                err = np.max(np.abs(fcn(t_true[inside]) - tb_exact[inside]))
                res.measure("max_heldout_error_ms", err * 1e3)
                res.check(err <= tol_map, "sync:heldout-error", f"{label}: mapping error at held-out events {err * 1e3:.3f} ms", counter="heldout_checked")
        err_all = np.max(np.abs(fcn(tsa[pa]) - tsb[pb])) if len(pa) else 0.0
        res.check(err_all <= tol_map, "sync:map-error", f"{label}: mapping error at matched events {err_all * 1e3:.3f} ms")
        tol_drift = 1.0 + 4 * jit / T * 1e6
        derr = abs(drift_ppm - drift * 1e6)
        res.measure("max_drift_error_ppm", derr)
        res.measure("max_drift_error_over_tolerance", derr / tol_drift)
        res.check(derr <= tol_drift, "sync:drift", f"{label}: drift {drift_ppm:.3f} ppm, true {drift * 1e6:.3f} ppm (tolerance {tol_drift:.2f})", counter="drift_checked")
        if short_train and len(pa) > 10:
            # what the least-squares slope over the matched pairs can be off by: each difference b - a carries two independent uniform(-jit, jit) errors
            sig_ls = jit * np.sqrt(2.0 / 3.0) / np.sqrt(np.sum((tsa[pa] - tsa[pa].mean()) ** 2)) * 1e6
            res.measure("max_short_train_drift_error_over_ls_sigma", derr / sig_ls)
            res.check(derr <= 0.05 + 6 * sig_ls, "sync:drift:short-train", f"{label}: drift {drift_ppm:.3f} ppm, true {drift * 1e6:.3f} ppm: off by {derr:.2f} ppm = {derr / sig_ls:.1f} "
                      f"standard errors of the least-squares slope over the {len(pa)} matched pairs ({sig_ls:.2f} ppm)", counter="short_train_drifts_checked")
        # two-output form agrees
        try:
            f2, d2 = U.sync_timestamps(tsa, tsb, linear=linear)
            res.check(abs(d2 - drift_ppm) < 1e-9, "sync:two-output-form", f"{label}: drift differs between the 2- and 4-output forms")
        except Exception as e:
            res.exception("sync:exception", e, label + " (2-output form)")
        if ma and mb and abs(drift) > 1e-6:
            sigs.add((n // 30, ma, mb, linear, offset > 0, int(drift * 1e6) // 20))
    res.sig = f"train-{case['seed']}"
    res.nontrivial = len(sigs) > 0
    res.nt = len(sigs)
    return res
