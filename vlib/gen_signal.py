"""G3: physical signal models kept on the oracle side (stripes with ADC skew, local spikes, coherent backgrounds)."""
import numpy as np


def header(kind):
    """geometry / ADC tables of a dense probe of the given kind, built from the generator's own models (not from the repository)"""
    from vlib import gen_meta as G
    rng = np.random.default_rng(0)
    sites = G.draw_sites(rng, kind, 384, "dense")
    x, y, col = G.site_xy(kind, sites[:, 0], sites[:, 1], sites[:, 2])
    adc, ss = G.mux_model(kind)
    h = {"x": x, "y": y, "col": col, "row": sites[:, 2].astype(float), "shank": sites[:, 0].astype(float), "adc": adc, "sample_shift": ss,
         "ind": np.arange(384)}
    if kind == "NP2.4":
        # sorted order, as the reader would deliver the channels: shank, row, descending column
        o = np.lexsort((-col, sites[:, 2], sites[:, 0]))
        h = {k: v[o] for k, v in h.items()}
    return h


def band_spectrum(rng, ns, fs, f0, f1):
    f = np.fft.rfftfreq(ns, 1 / fs)
    X = np.zeros(f.size, complex)
    m = (f > f0) & (f < f1)
    X[m] = rng.standard_normal(m.sum()) + 1j * rng.standard_normal(m.sum())
    return X


def stripe(rng, ns, fs, sample_shift, f0=500.0, f1=6000.0, amp=100e-6, sign=+1.0):
    """a disturbance hitting all channels at the same physical instant: channel c samples it later by its ADC delay,
    x_c[n] = s(n + shift_c)  (sign=+1).  Exactly band-limited, so the sub-sample delay is exact."""
    X = band_spectrum(rng, ns, fs, f0, f1)
    f = np.fft.rfftfreq(ns)           # cycles / sample
    S = X[None, :] * np.exp(sign * 2j * np.pi * f[None, :] * np.asarray(sample_shift)[:, None])
    s = np.fft.irfft(S, ns, axis=1)
    s *= amp / np.sqrt(np.mean(s ** 2))
    return s


def pitch(h):
    """typical distance between neighbouring sites of this layout"""
    xy = h["x"] + 1j * h["y"]
    d = np.abs(xy[:, None] - xy[None, :])
    d[d == 0] = np.inf
    d[h["shank"][:, None] != h["shank"][None, :]] = np.inf
    return float(np.median(np.min(d, axis=1)))


def local_spike(rng, ns, fs, h, c0, t0=None, amp=-80e-6, width_s=0.00015, sigma_pitch=0.9):
    """spike confined to the few nearest sites of channel c0 (same shank), Gaussian in space (in units of the site pitch) and time"""
    t0 = ns // 2 if t0 is None else t0
    t = (np.arange(ns) - t0) / fs
    w = amp * np.exp(-0.5 * (t / width_s) ** 2)
    p = pitch(h)
    d2 = (h["x"] - h["x"][c0]) ** 2 + (h["y"] - h["y"][c0]) ** 2
    a = np.exp(-d2 / (2 * (sigma_pitch * p) ** 2))
    a[h["shank"] != h["shank"][c0]] = 0
    keep = np.argsort(-a)[:7]
    foot = np.zeros_like(a)
    foot[keep] = a[keep]
    return foot[:, None] * w[None, :], foot


def rms(x):
    return float(np.sqrt(np.mean(np.asarray(x, float) ** 2)))


def db(a, b):
    return 20 * np.log10(max(a, 1e-300) / max(b, 1e-300))
