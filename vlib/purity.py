"""M9 call-history monitor (round 21): the numerical functions the properties are anchored in are functions of their arguments.

Installed by the shard worker around every case of every check: the public functions of the pure modules are wrapped; calls number 1, 2, 4, 8, ... of
each function in a case are recorded (a private copy of the arguments taken BEFORE the call, a copy of the result); when the case is over every
recorded call is made again, after all the other calls of the case, and must return the very same value.  A difference means that something
survived from one call to another - a memoised table keyed too coarsely, a cached array modified in place, a module-level default that was
changed - so that what a caller gets depends on who called before.  No property-specific knowledge is used; the oracle is the function itself.

Sound by construction on deterministic functions: same arguments (deep copies), same process, one numerical thread.  Calls whose arguments hold
anything but arrays / numbers / strings / containers of those (readers, paths, callables, generators) are not recorded, results that cannot be
compared (callables, generators, objects) are not judged.  Both are counted.
"""
import copy
import functools
import importlib
import types

import numpy as np

MODULES = ("ibldsp.fourier", "ibldsp.utils", "ibldsp.voltage", "ibldsp.waveforms", "ibldsp.smooth", "ibldsp.cadzow", "ibldsp.spiketrains", "neuropixel")
# file-bound, plotting or generator-returning entry points: their result is not a function of the arguments alone
SKIP = {"decompress_destripe_cbin", "detect_bad_channels_cbin", "extract_wfs_cbin", "plot_peaktiptrough", "plot_wiggle", "plot_voltage", "double_wiggle",
        "WindowGenerator", "NP2Converter", "NP2Reconstructor"}
# spikeglx: only the helpers that derive quantities from a parsed header / from arrays (everything else there is bound to files)
ALLOW = {"spikeglx": ("geometry_from_meta", "split_sync", "_get_neuropixel_version_from_meta", "_get_type_from_meta", "_get_fs_from_meta", "_get_nchannels_from_meta",
                      "_get_sync_trace_indices_from_meta", "_conversion_sample2v_from_meta", "_get_max_int_from_meta", "_map_channels_from_meta",
                      "_split_geometry_into_shanks", "_get_savedChans_subset")}
MAX_BYTES = 6 << 20        # arguments of one recorded call
PER_FUNCTION = 7
PER_CASE = 60


class _State:
    records = []
    per_fn = {}
    calls = {}
    replaying = False
    skipped_args = 0
    installed = False
    twin = None


def _plain(o, budget):
    """True if o is made of arrays / numbers / strings / None / containers of those; budget[0] is decremented by the bytes held"""
    if o is None or isinstance(o, (bool, int, float, complex, str, bytes, np.generic, slice)):
        return True
    if isinstance(o, np.ndarray):
        if o.dtype == object or isinstance(o, np.memmap):
            return False
        budget[0] -= o.nbytes
        return budget[0] >= 0
    if isinstance(o, (list, tuple)):
        return len(o) < 5000 and all(_plain(v, budget) for v in o)
    if isinstance(o, dict):
        return all(isinstance(k, str) for k in o) and all(_plain(v, budget) for v in o.values())
    try:
        import pandas as pd
        if isinstance(o, (pd.DataFrame, pd.Series)):
            budget[0] -= int(o.memory_usage(deep=True).sum()) if isinstance(o, pd.DataFrame) else int(o.memory_usage(deep=True))
            return budget[0] >= 0
    except Exception:
        pass
    return False


def same(a, b):
    """True / False, or None when the pair cannot be compared"""
    if isinstance(a, np.ndarray) or isinstance(b, np.ndarray):
        if not (isinstance(a, np.ndarray) and isinstance(b, np.ndarray)):
            return False
        if a.shape != b.shape or a.dtype != b.dtype:
            return False
        if a.dtype == object:
            return None
        if a.dtype.kind in "fc":
            return bool(np.all((a == b) | (np.isnan(a) & np.isnan(b))))
        return bool(np.array_equal(a, b))
    if isinstance(a, (list, tuple)):
        if type(a) is not type(b) or len(a) != len(b):
            return False
        out = True
        for x, y in zip(a, b):
            r = same(x, y)
            if r is False:
                return False
            if r is None:
                out = None
        return out
    if isinstance(a, dict):
        if not isinstance(b, dict) or set(a) != set(b):
            return False
        return same([a[k] for k in sorted(a, key=str)], [b[k] for k in sorted(a, key=str)])
    if a is None or isinstance(a, (bool, int, str, bytes, np.integer, np.bool_)):
        return bool(a == b) and type(a) is type(b)
    if isinstance(a, (float, complex, np.floating, np.complexfloating)):
        return type(a) is type(b) and bool(a == b or (a != a and b != b))
    try:
        import pandas as pd
        if isinstance(a, (pd.DataFrame, pd.Series)):
            return type(a) is type(b) and bool(a.equals(b))
    except Exception:
        pass
    return None


def _wrap(name, fn):
    @functools.wraps(fn)
    def monitored(*a, **k):
        st = _State
        if st.replaying:
            return fn(*a, **k)
        # calls number 1, 2, 4, 8, 16, ... of each function within the case are the recorded ones: early calls (everything else comes after them) as well
        # as calls in the middle of a longer series (which have predecessors AND successors with other arguments)
        nth = st.calls.get(name, 0) + 1
        st.calls[name] = nth
        if nth & (nth - 1) or len(st.records) >= PER_CASE or st.per_fn.get(name, 0) >= PER_FUNCTION:
            return fn(*a, **k)
        if not _plain((a, k), [MAX_BYTES]):
            st.skipped_args += 1
            return fn(*a, **k)
        snap = copy.deepcopy((a, k))
        out = fn(*a, **k)
        if not isinstance(out, types.GeneratorType) and not callable(out):
            try:
                if _plain(out, [4 * MAX_BYTES]):
                    st.per_fn[name] = st.per_fn.get(name, 0) + 1
                    st.records.append((name, fn, snap, copy.deepcopy(out)))
            except Exception:
                pass
        return out
    monitored.__verif_purity__ = True
    return monitored


def install():
    """wrap the public functions of the pure modules (idempotent); references bound earlier with `from m import f` inside those modules are re-bound"""
    if _State.installed:
        return
    _State.installed = True
    mods = []
    for mn in MODULES:
        try:
            mods.append(importlib.import_module(mn))
        except Exception:
            pass
    extra = []
    for mn in ("ibldsp.waveform_extraction", "neurowaveforms.model", "spikeglx"):
        try:
            extra.append(importlib.import_module(mn))
        except Exception:
            pass
    allow_mods = []
    for mn in ALLOW:
        try:
            allow_mods.append(importlib.import_module(mn))
        except Exception:
            pass
    for m in mods + allow_mods:
        for name, fn in list(vars(m).items()):
            if not isinstance(fn, types.FunctionType) or fn.__module__ != m.__name__:
                continue
            if m.__name__ in ALLOW:
                if name not in ALLOW[m.__name__]:
                    continue
            elif name.startswith("_") or name in SKIP:
                continue
            w = _wrap(f"{m.__name__}.{name}", fn)
            for other in mods + extra + allow_mods:
                if getattr(other, name, None) is fn:
                    setattr(other, name, w)


LIBTOP = ("ibldsp", "spikeglx", "neuropixel", "neurowaveforms")


def _twin():
    """a second, private instance of the library modules (fresh module globals: nothing any earlier call may have left behind), imported once per worker"""
    import sys
    if _State.twin is not None:
        return _State.twin
    saved = {k: v for k, v in sys.modules.items() if k.split(".")[0] in LIBTOP}
    for k in saved:
        del sys.modules[k]
    tw = {}
    try:
        for mn in MODULES + tuple(ALLOW):
            try:
                tw[mn] = importlib.import_module(mn)
            except Exception:
                pass
    finally:
        for k in [k for k in sys.modules if k.split(".")[0] in LIBTOP]:
            del sys.modules[k]
        sys.modules.update(saved)
    _State.twin = tw
    return tw


def begin_case():
    _State.records = []
    _State.per_fn = {}
    _State.calls = {}
    _State.skipped_args = 0
    _State.replaying = False


def end_case():
    """re-issue every recorded call; returns (violations, observed counters)"""
    st = _State
    viol, seen, judged, unjudged = [], len(st.records), 0, 0
    st.replaying = True
    try:
        for name, fn, (a, k), out in st.records:
            try:
                again = fn(*copy.deepcopy(a), **copy.deepcopy(k))
            except Exception as e:
                viol.append({"key": f"call-history:{name.split('.', 1)[-1]}:raises-when-repeated",
                             "msg": f"{name}: the same call made again at the end of the case raises {type(e).__name__}: {str(e)[:200]}", "detail": {}})
                judged += 1
                continue
            r = same(out, again)
            if r is None:
                unjudged += 1
                continue
            judged += 1
            if not r:
                viol.append({"key": f"call-history:{name.split('.', 1)[-1]}:result-depends-on-earlier-calls",
                             "msg": f"{name}{_brief(a, k)}: the same call made again after the other calls of the case returns another value "
                                    f"({_diff(out, again)}): something is kept from one call to the next", "detail": {}})
        # ... and once more on a second instance of the library that has seen none of this case's calls, latest call first: a value that is merely REMEMBERED
        # (a table memoised under too coarse a key answers every later call with the first caller's value - and keeps doing so when asked again) repeats
        # itself faithfully above, but not in a module whose history is another one
        twin_judged = 0
        if not viol:
            tw = _twin()
            for name, fn, (a, k), out in reversed(st.records):
                mn, fname = name.rsplit(".", 1)
                tfn = getattr(tw.get(mn), fname, None)
                if tfn is None:
                    continue
                try:
                    other = tfn(*copy.deepcopy(a), **copy.deepcopy(k))
                except Exception:
                    continue        # (what the live function returned is judged by the check itself)
                r = same(out, other)
                if r is None:
                    continue
                twin_judged += 1
                if not r:
                    viol.append({"key": f"call-history:{name.split('.', 1)[-1]}:differs-from-a-fresh-instance",
                                 "msg": f"{name}{_brief(a, k)}: a second instance of the library that has seen none of the earlier calls returns another value for the "
                                        f"same arguments ({_diff(out, other)}): the result depends on what was called before", "detail": {}})
    finally:
        st.replaying = False
        st.records = []
    return viol[:3], {"call_history_calls_compared_with_fresh_instance": twin_judged, "call_history_calls_recorded": seen, "call_history_calls_repeated_and_compared": judged,
                      "call_history_results_not_comparable": unjudged, "call_history_calls_not_recorded_foreign_arguments": st.skipped_args}


def _brief(a, k):
    def one(v):
        if isinstance(v, np.ndarray):
            return f"array{v.shape}{v.dtype}"
        s = repr(v)
        return s if len(s) < 40 else s[:37] + "..."
    return "(" + ", ".join([one(v) for v in a] + [f"{n}={one(v)}" for n, v in k.items()]) + ")"


def _diff(x, y):
    try:
        if isinstance(x, np.ndarray) and isinstance(y, np.ndarray) and x.shape == y.shape and x.dtype.kind in "fciub":
            return f"max |difference| {float(np.nanmax(np.abs(x.astype(np.complex128) - y.astype(np.complex128)))):.3g}"
    except Exception:
        pass
    return "values differ"
