"""Shared helpers for the NP2 converter checks (C03, C04, C12): recording builder and a harness-side model."""
from pathlib import Path

import numpy as np

from vlib import gen_meta as G

GAIN_PAIRS = [(0.5, 8192), (0.62, 2048), (0.6, 512), (0.62, 8192)]
NAME = "run_g0_t0.imec0.ap"      # no second 'ap' in the name: the converter derives the lf name with str.replace


def shank_assignment(rng, mode, nsh):
    """sites (shank, col, row) for the 384 channels of an NP2.4 probe"""
    labels = np.sort(rng.choice(4, nsh, replace=False))
    if mode == "dense":
        s = G.draw_sites(rng, "NP2.4", 384, "dense")
        if nsh < 4:
            # restrict the default layout's shank labels to the chosen set (keeps (col,row) distinct per shank via row offsets)
            m = {0: labels[0], 1: labels[min(1, nsh - 1)], 2: labels[min(2, nsh - 1)], 3: labels[nsh - 1]}
            rows = s[:, 2] + 48 * s[:, 0]
            s = np.c_[[m[int(v)] for v in s[:, 0]], s[:, 1], rows]
        return s
    if mode == "random":        # every channel draws its shank independently: many single-channel runs
        sh = rng.choice(labels, 384)
    elif mode == "blocks":      # random-length contiguous runs
        sh = np.zeros(384, int)
        i = 0
        while i < 384:
            ln = int(rng.integers(1, 60))
            sh[i:i + ln] = rng.choice(labels)
            i += ln
    elif mode == "singletons":  # one shank owns almost everything, the others a few isolated channels
        sh = np.full(384, labels[0])
        for lab in labels[1:]:
            sh[rng.choice(384, int(rng.integers(1, 4)), replace=False)] = lab
    else:
        raise ValueError(mode)
    for lab in labels:           # every chosen label owns at least one channel
        if not np.any(sh == lab):
            sh[int(rng.integers(0, 384))] = lab
    # distinct (col,row) within each shank
    sites = np.zeros((384, 3), int)
    for lab in np.unique(sh):
        idx = np.flatnonzero(sh == lab)
        pick = rng.choice(2 * 640, idx.size, replace=False)
        sites[idx] = np.c_[np.full(idx.size, lab), pick % 2, pick // 2]
    return sites


def build(rng, root, kind="NP2.4", ns=2400, gain=None, sites=None, content="allvalues", encoding="shank", fs=30000.0, label="probe00",
          raw=None, claim_ns=None, extra_meta=None):
    """writes <root>/<label>/NAME.bin + .meta; returns (bin path, Rec)"""
    aimax, maxint = gain if gain is not None else GAIN_PAIRS[0]
    if sites is None:
        sites = G.draw_sites(rng, kind, 384, "dense")
    if raw is None:
        if content == "allvalues-inrange":
            raw = G.make_raw(rng, ns, 385, 1, "inrange", maxint=maxint)
            vals = np.arange(-maxint, maxint, dtype=np.int64).astype(np.int16)
            flat = raw[:, :384].reshape(-1)
            k = min(flat.size, vals.size)
            flat[:k] = rng.permutation(vals)[:k]
            raw[:, :384] = flat.reshape(ns, 384)
        else:
            raw = G.make_raw(rng, ns, 385, 1, content, maxint=maxint)
    rec = G.make(rng, kind=kind, sites=sites, ns=ns, aimax=aimax, maxint=maxint, fs=fs, encoding=encoding, raw=raw, claim_ns=claim_ns,
                 extra=dict(extra_meta or {}, **({"imDatPrb_type": 2013} if (kind == "NP2.4" and rng.random() < 0.3) else {})) or None)
    b = G.write(rec, Path(root) / label, name=NAME)
    return b, rec


def shank_columns(rec):
    """{shank label: column indices (in file order) + sync column}"""
    out = {}
    for s in np.unique(rec.sites[:, 0]):
        out[int(s)] = np.r_[np.flatnonzero(rec.sites[:, 0] == s), rec.n]
    return out


def decode(path):
    """int16 matrix of a .bin or .cbin (harness code: mtscomp directly, never the repository's reader)"""
    path = Path(path)
    if path.suffix == ".cbin":
        import mtscomp
        r = mtscomp.Reader()
        r.open(path, path.with_suffix(".ch"))
        a = np.array(r[:])
        r.close()
        return a
    return None


def read_int16(path, nc):
    path = Path(path)
    if path.suffix == ".cbin":
        return decode(path)
    a = np.fromfile(path, dtype=np.int16)
    if a.size % nc:
        return a      # caller notices the wrong size
    return a.reshape(-1, nc)


def round_duration(meta_file, ns, fs, rng):
    """rewrite fileTimeSecs with a limited number of decimals, as acquisition software does (the sample count it stands for is unchanged:
    round(t * fs) == ns); returns the text written"""
    meta_file = Path(meta_file)
    for dec in rng.permutation([2, 3, 4, 5, 6]).tolist():
        t = round(ns / fs, int(dec))
        if int(round(t * fs)) == ns and t > 0:
            txt = f"{t:.{int(dec)}f}".rstrip("0").rstrip(".")
            meta_file.write_text("".join((f"fileTimeSecs={txt}" if ln.startswith("fileTimeSecs=") else ln) + "\n" for ln in meta_file.read_text().splitlines()))
            return txt
    return None


def compress_original(b, rec, chunk_duration=0.05):
    """replace <b>.bin by <b>.cbin + .ch (harness side: mtscomp directly)"""
    import mtscomp
    b = Path(b)
    mtscomp.compress(b, out=b.with_suffix(".cbin"), outmeta=b.with_suffix(".ch"), sample_rate=rec.fs, n_channels=rec.nc, dtype=np.int16,
                     chunk_duration=chunk_duration, check_after_compress=False)
    b.unlink()
    return b.with_suffix(".cbin")
