"""Shard worker: runs cases of one check module sequentially, one JSON line per case."""
import importlib
import json
import logging
import os
import shutil
import sys
import time
import traceback
import warnings
from pathlib import Path


def main(argv):
    pid, inp, out = argv
    home = os.environ.get("VERIF_HOME")
    deps = os.path.join(home, ".deps")
    if deps not in sys.path:
        sys.path.append(deps)  # appended: never shadows /venv's own packages
    warnings.simplefilter("ignore")
    logging.disable(logging.CRITICAL)
    cov = None
    if os.environ.get("VERIF_COV_DIR"):
        # development aid only (never set by a registered command): which statements of the library do the workloads execute?
        import coverage
        cov = coverage.Coverage(data_file=os.path.join(os.environ["VERIF_COV_DIR"], f".coverage.{pid}"), data_suffix=True,
                                include=[os.path.join(os.environ.get("VERIF_REPO", "/repo"), "src", "*")], omit=["*/tests/*"])
        cov.start()
    from vlib.result import is_env_error
    try:
        # dependency configuration only: two compression threads per call instead of one per core (up to 14 shards run side by side)
        import mtscomp
        mtscomp.DEFAULT_CONFIG = [(k, (2 if k == "n_threads" else v)) for k, v in mtscomp.DEFAULT_CONFIG]
    except Exception:
        pass
    # M9 call-history monitor: installed BEFORE the check module is imported, so that names it binds with `from m import f` are the monitored ones
    purity = None
    if not os.environ.get("VERIF_NO_CALL_HISTORY"):
        from vlib import purity
        purity.install()
    mod = importlib.import_module(f"checks.{pid.lower()}")
    cases = json.loads(Path(inp).read_text())
    scratch = Path(os.environ["VERIF_SHARD_SCRATCH"])
    with open(out, "w") as fo:
        for case in cases:
            d = scratch / f"c{case['_i']}"
            shutil.rmtree(d, ignore_errors=True)
            d.mkdir(parents=True, exist_ok=True)
            os.environ["VERIF_CASE_SCRATCH"] = str(d)
            t0 = time.time()
            for attempt in range(4):
                try:
                    if purity is not None:
                        purity.begin_case()
                    r = mod.run_case(case)
                    r = r.as_dict() if hasattr(r, "as_dict") else dict(r)
                    if purity is not None:
                        pv, pobs = purity.end_case()
                        r.setdefault("violations", []).extend(pv)
                        ob = r.setdefault("observed", {})
                        for k_, v_ in pobs.items():
                            ob[k_] = ob.get(k_, 0) + v_
                        if pv:
                            ob["violations_raised"] = ob.get("violations_raised", 0) + len(pv)
                    break
                except BaseException as e:  # harness failure: never a verdict about the property
                    if isinstance(e, KeyboardInterrupt):
                        raise
                    r = {"violations": [], "observed": {}, "nontrivial": False,
                         "harness_error": f"{type(e).__name__}: {e}\n{traceback.format_exc()[-1500:]}"}
                    if not is_env_error(e) and isinstance(e, Exception):
                        # an exception that escaped from the LIBRARY (deepest frames inside $VERIF_REPO/src) while the harness drove it with an input of the
                        # property's domain: the function did not return what the property says it returns. (The checks catch the exceptions they
                        # expect themselves; on the unchanged tree nothing reaches this point.)  Exceptions raised by harness code stay harness errors.
                        lib = os.path.join(os.environ.get("VERIF_REPO", "/repo"), "src") + os.sep
                        frames = traceback.extract_tb(e.__traceback__)
                        in_lib = [f for f in frames if f.filename.startswith(lib) and os.sep + "tests" + os.sep not in f.filename]
                        if in_lib:
                            f = in_lib[-1]
                            r = {"violations": [{"key": f"uncaught-library-exception:{type(e).__name__}",
                                                 "msg": f"case {case.get('cls')}: {type(e).__name__}: {str(e)[:300]} (raised under {os.path.basename(f.filename)}:{f.lineno} in {f.name})",
                                                 "detail": {"traceback": traceback.format_exc()[-1500:]}}],
                                 "observed": {"violations_raised": 1}, "nontrivial": False}
                    if not is_env_error(e) or attempt == 3:
                        break
                    # the host ran out of threads / memory / handles: wait and run the case again from a clean scratch directory
                    time.sleep(5 * (attempt + 1))
                    shutil.rmtree(d, ignore_errors=True)
                    d.mkdir(parents=True, exist_ok=True)
            shutil.rmtree(d, ignore_errors=True)
            r["_i"] = case["_i"]
            r["_wall"] = round(time.time() - t0, 2)
            fo.write(json.dumps(r, default=str) + "\n")
            fo.flush()
    shutil.rmtree(scratch, ignore_errors=True)
    if cov is not None:
        cov.stop()
        cov.save()
    return 0


if __name__ == "__main__":
    sys.exit(main(sys.argv[1:]))
