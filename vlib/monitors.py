"""Monitor toolkit (M1..M8 of DESIGN.md section 3)."""
import functools
import hashlib
import os
import sys
import threading
from pathlib import Path

import numpy as np

_deps = os.path.join(os.environ.get("VERIF_HOME", str(Path(__file__).resolve().parents[1])), ".deps")
if _deps not in sys.path:
    sys.path.append(_deps)
import icontract  # noqa: E402


class ContractBroken(AssertionError):
    """raised by an icontract condition installed from the harness"""


COUNTS = {}


def counted(name):
    """decorator for named icontract condition functions: counts evaluations (zero => inconclusive)"""
    def deco(f):
        @functools.wraps(f)
        def g(*a, **k):
            COUNTS[name] = COUNTS.get(name, 0) + 1
            return f(*a, **k)
        g.__signature__ = __import__("inspect").signature(f)
        return g
    return deco


def drain_counts(res, prefix="contract:"):
    for k, v in list(COUNTS.items()):
        res.count(prefix + k, v)
    COUNTS.clear()


def rebind(module, name, new, also=()):
    """M1: replace module.name by `new` and re-bind references imported earlier with `from m import f`."""
    old = getattr(module, name)
    setattr(module, name, new)
    for m in also:
        if getattr(m, name, None) is old:
            setattr(m, name, new)
    return old


class Spy:
    """M1/M7 boundary spy: records calls (args, result) of a callable; transparent to the caller."""

    def __init__(self, fn, keep=True):
        self.fn = fn
        self.calls = []
        self.keep = keep
        functools.update_wrapper(self, fn)

    def __call__(self, *a, **k):
        try:
            r = self.fn(*a, **k)
        except BaseException as e:
            self.calls.append((a, k, e, True))
            raise
        if self.keep:
            self.calls.append((a, k, r, False))
        else:
            self.calls.append(None)
        return r


# ---------------------------------------------------------------- M3 file observer
def sha1(path, chunk=1 << 22):
    h = hashlib.sha1()
    with open(path, "rb") as f:
        while True:
            b = f.read(chunk)
            if not b:
                break
            h.update(b)
    return h.hexdigest()


def snapshot(root):
    """{relative path: (size, sha1)} of every regular file under root"""
    root = Path(root)
    out = {}
    for p in sorted(root.rglob("*")):
        if p.is_file():
            out[str(p.relative_to(root))] = (p.stat().st_size, sha1(p))
    return out


def snapshot_diff(a, b):
    added = sorted(set(b) - set(a))
    removed = sorted(set(a) - set(b))
    changed = sorted(k for k in set(a) & set(b) if a[k] != b[k])
    return added, removed, changed


# ---------------------------------------------------------------- M4 file-event log (audit hook)
class FileEventLog:
    """Process-wide audit hook (cannot be removed once installed, so it is a singleton that can be
    armed/disarmed).  Records write-opens, removes, renames, truncates below `root` with a logical clock.
    `on_event(ev)` callbacks run *before* the operation takes place: the place for invariants at a hook."""

    _installed = None

    def __init__(self):
        self.events = []
        self.root = None
        self.armed = False
        self.callbacks = []
        self._lock = threading.Lock()
        self._in_cb = threading.local()

    @classmethod
    def get(cls):
        if cls._installed is None:
            cls._installed = cls()
            sys.addaudithook(cls._installed._hook)
        return cls._installed

    def arm(self, root, callbacks=()):
        self.root = str(Path(root).resolve())
        self.events = []
        self.callbacks = list(callbacks)
        self.armed = True

    def disarm(self):
        self.armed = False
        self.callbacks = []

    def _under(self, p):
        try:
            p = os.fspath(p)
            if isinstance(p, bytes):
                p = p.decode()
            if not isinstance(p, str):
                return None
            ap = os.path.abspath(p)
            return ap if ap.startswith(self.root) else None
        except Exception:
            return None

    def _hook(self, event, args):
        if not self.armed or getattr(self._in_cb, "on", False):
            return
        ev = None
        if event == "os.remove":
            p = self._under(args[0])
            if p:
                ev = ("remove", p)
        elif event == "os.rename":
            s, d = self._under(args[0]), self._under(args[1])
            if s or d:
                ev = ("rename", s or os.fspath(args[0]), d or os.fspath(args[1]))
        elif event == "open":
            path, mode, flags = args
            wr = (isinstance(mode, str) and any(c in mode for c in "wax+")) or \
                 (mode is None and isinstance(flags, int) and (flags & (os.O_WRONLY | os.O_RDWR)))
            if wr:
                p = self._under(path) if isinstance(path, (str, bytes, os.PathLike)) else None
                if p:
                    ev = ("open-w", p, str(mode))
        elif event == "os.truncate":
            p = self._under(args[0]) if isinstance(args[0], (str, bytes, os.PathLike)) else None
            if p:
                ev = ("truncate", p, args[1])
        elif event in ("shutil.move", "shutil.copyfile"):
            s, d = self._under(args[0]), self._under(args[1])
            if s or d:
                ev = (event, s or str(args[0]), d or str(args[1]))
        elif event == "os.rmdir":
            p = self._under(args[0])
            if p:
                ev = ("rmdir", p)
        if ev is None:
            return
        with self._lock:
            ev = (len(self.events),) + ev
            self.events.append(ev)
        self._in_cb.on = True
        try:
            for cb in self.callbacks:
                cb(ev)
        finally:
            self._in_cb.on = False


# ---------------------------------------------------------------- M5 source-free failpoints
class InjectedCrash(BaseException):
    """interrupt semantics: propagates through `except Exception`, context managers still run"""


class LineFailpoints:
    """sys.monitoring LINE events restricted to chosen code objects.
    mode 'record': ordered list of (qualname, line) events.
    mode 'crash' : at event index k raise InjectedCrash (kind='raise') or os._exit(137) (kind='kill')."""

    TOOL = 4

    def __init__(self, codes):
        self.codes = list(codes)
        self.trace = []
        self.n = 0
        self.crash_at = None
        self.kind = "raise"
        self.fired = None

    def _cb(self, code, line):
        i = self.n
        self.n += 1
        if self.crash_at is None:
            self.trace.append((code.co_qualname, line))
            return None
        if i == self.crash_at:
            self.fired = (code.co_qualname, line)
            if self.kind == "kill":
                os._exit(137)
            raise InjectedCrash(f"failpoint #{i} at {code.co_qualname}:{line}")
        return None

    def __enter__(self):
        mon = sys.monitoring
        try:
            mon.use_tool_id(self.TOOL, "verif-failpoints")
        except ValueError:
            mon.free_tool_id(self.TOOL)
            mon.use_tool_id(self.TOOL, "verif-failpoints")
        mon.register_callback(self.TOOL, mon.events.LINE, self._cb)
        for c in self.codes:
            mon.set_local_events(self.TOOL, c, mon.events.LINE)
        return self

    def __exit__(self, *exc):
        mon = sys.monitoring
        for c in self.codes:
            try:
                mon.set_local_events(self.TOOL, c, 0)
            except Exception:
                pass
        mon.register_callback(self.TOOL, mon.events.LINE, None)
        mon.free_tool_id(self.TOOL)
        return False


def code_objects(*objs):
    """all function code objects of classes / functions (including nested functions' code constants)"""
    import types
    out = []

    def add(code):
        out.append(code)
        for c in code.co_consts:
            if isinstance(c, types.CodeType):
                add(c)
    for o in objs:
        if isinstance(o, type):
            for v in vars(o).values():
                f = v.fget if isinstance(v, property) else v
                f = getattr(f, "__func__", f)
                if isinstance(f, types.FunctionType):
                    add(f.__code__)
        elif isinstance(o, types.FunctionType):
            add(o.__code__)
        elif isinstance(o, types.MethodType):
            add(o.__func__.__code__)
    return out


def relerr(a, b):
    a = np.asarray(a, dtype=np.float64)
    b = np.asarray(b, dtype=np.float64)
    d = np.max(np.abs(a - b)) if a.size else 0.0
    s = max(np.max(np.abs(b)) if b.size else 0.0, 1e-300)
    return d / s
