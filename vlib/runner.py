"""Runner: tiers, seeds, sharding, watchdogs, verdicts, evidence, replays.

A check module (checks/cXX.py) provides
    PROPERTY   : "C07"
    LEVEL      : "exploration" | "fault_enumeration"
    RULE       : str   how cases are generated and what makes one distinct / non-trivial
    ASSUMPTIONS: [str]
    REQUIRED   : {counter: minimum}   monitor counters that must have been reached, else INCONCLUSIVE
    gen_cases(seed, tier) -> list of JSON-serialisable dicts (each has at least "cls")
    run_case(case) -> result dict made with vlib.result.Result
optional
    MAX_PROCS (int), CASE_TIMEOUT (s, per case budget used to size the shard watchdog), EXHAUSTIVE(tier)->bool
    classify(violation) is done at the site that reports it: every violation carries a mechanism `key`.

Verdicts are three-valued: exit 0 held / 1 violated / 2 inconclusive.
"""
import hashlib
import importlib
import json
import os
import subprocess
import sys
import time
from pathlib import Path

HOME = Path(os.environ.get("VERIF_HOME", Path(__file__).resolve().parents[1]))


def _load_known(pid):
    f = HOME / "known_findings.json"
    known = {}
    if f.exists():
        for e in json.loads(f.read_text()).get("findings", []):
            if e.get("property") == pid and e.get("status") == "known":
                known[e["key"]] = e
    return known


def _case_hash(case):
    return hashlib.sha1(json.dumps(case, sort_keys=True).encode()).hexdigest()[:12]


def _shards(cases, n):
    sh = [[] for _ in range(n)]
    # heavier cases first (if the generator gives a weight), then round robin
    order = sorted(range(len(cases)), key=lambda i: -float(cases[i].get("_w", 1)))
    load = [0.0] * n
    for i in order:
        k = load.index(min(load))
        sh[k].append(i)
        load[k] += float(cases[i].get("_w", 1))
    return [s for s in sh if s]


CRASH_SIGNALS = {-11: "SIGSEGV", -7: "SIGBUS", -6: "SIGABRT", -8: "SIGFPE", -4: "SIGILL"}


def _run_alone(pid, sub, scratch_root, tag, env, tier, results, budget, fault=False):
    """run some cases in one more worker process; results are merged into `results`; returns (returncode, tail of the worker's log)"""
    inp = scratch_root / f"{tag}.in.json"
    out = scratch_root / f"{tag}.out.jsonl"
    inp.write_text(json.dumps(sub))
    env_k = dict(env, VERIF_SHARD_SCRATCH=str(scratch_root / f"s_{tag}"), VERIF_TIER=tier)
    if fault:
        env_k["PYTHONFAULTHANDLER"] = "1"
    with open(scratch_root / f"{tag}.log", "w") as logf:
        p = subprocess.Popen([sys.executable, "-B", "-m", "vlib.worker", pid, str(inp), str(out)], env=env_k, stdout=logf, stderr=subprocess.STDOUT, text=True)
        try:
            p.wait(timeout=budget)
        except subprocess.TimeoutExpired:
            p.kill()
            p.wait()
    if out.exists():
        for line in out.read_text().splitlines():
            try:
                r = json.loads(line)
            except Exception:
                continue
            results[r["_i"]] = r
    return p.returncode, (scratch_root / f"{tag}.log").read_text(errors="replace")[-6000:]


def main(argv):
    pid = argv[0].upper()
    mod = importlib.import_module(f"checks.{pid.lower()}")
    t0 = time.time()
    seed = int(os.environ.get("VERIF_SEED", "0"))
    if argv[1] == "--replay":
        rp = json.loads(Path(argv[2]).read_text())
        cases = [rp["case"]]
        tier = rp.get("tier", "quick")
        replay = True
    else:
        tier = argv[1]
        assert tier in ("quick", "thorough"), tier
        cases = list(mod.gen_cases(seed, tier))
        only = os.environ.get("VERIF_ONLY_CLS")      # development aid: restrict to some case classes
        if only:
            cases = [c for c in cases if str(c.get("cls")) in only.split(",")]
        replay = False
    if replay:      # sub-seeds derive from the recorded index: keep it aside, results are keyed by position
        for c in cases:
            c["_orig_i"] = c.get("_orig_i", c.get("_i", 0))
            c["_i"] = 0
    for i, c in enumerate(cases):
        c.setdefault("_i", i)
    njobs = int(os.environ.get("VERIF_JOBS", max(1, (os.cpu_count() or 4) - 2)))
    njobs = max(1, min(njobs, getattr(mod, "MAX_PROCS", njobs), len(cases)))
    scratch_root = Path(os.environ.get("VERIF_SCRATCH", "/var/tmp")) / f"verif-{pid}-{os.getpid()}"
    scratch_root.mkdir(parents=True, exist_ok=True)
    shards = _shards(cases, njobs)
    case_to = float(getattr(mod, "CASE_TIMEOUT", 30.0))
    procs = []
    env = dict(os.environ)
    for k, idx in enumerate(shards):
        inp = scratch_root / f"shard{k}.in.json"
        out = scratch_root / f"shard{k}.out.jsonl"
        inp.write_text(json.dumps([cases[i] for i in idx]))
        wsum = sum(float(cases[i].get("_w", 1)) for i in idx)
        budget = 120.0 + case_to * wsum
        env_k = dict(env, VERIF_SHARD_SCRATCH=str(scratch_root / f"s{k}"), VERIF_TIER=tier)
        # worker chatter (tqdm bars of mtscomp, warnings) goes to a file: a pipe would fill up and block the worker
        logf = open(scratch_root / f"shard{k}.log", "w")
        p = subprocess.Popen([sys.executable, "-B", "-m", "vlib.worker", pid, str(inp), str(out)],
                             env=env_k, stdout=logf, stderr=subprocess.STDOUT, text=True)
        procs.append((k, p, out, budget, idx, logf))
    results = {}
    inconclusive = []
    for k, p, out, budget, idx, logf in procs:
        try:
            p.wait(timeout=max(1.0, budget - (time.time() - t0)))
        except subprocess.TimeoutExpired:
            p.kill()
            p.wait()
            inconclusive.append(f"shard{k}:watchdog-timeout-after-{int(budget)}s")
        logf.close()
        try:
            so = (scratch_root / f"shard{k}.log").read_text(errors="replace")[-2000:]
        except Exception:
            so = ""
        if out.exists():
            for line in out.read_text().splitlines():
                try:
                    r = json.loads(line)
                except Exception:
                    continue
                results[r["_i"]] = r
        if p.returncode in CRASH_SIGNALS:
            # the interpreter itself died (segmentation fault / bus error / abort) in the middle of a case: find the case, run it again alone with
            # the fault handler on, and go on with the rest of the shard.  A crash that happens again, with library frames on the dumped stack, is the
            # library failing to return on an input of the property's domain -> a violation with a replay.  Anything else stays inconclusive.
            pending = [i for i in idx if i not in results]
            for _round in range(12):
                if not pending:
                    break
                first, pending = pending[0], pending[1:]
                rc1, log1 = _run_alone(pid, [cases[first]], scratch_root, f"crash{k}_{_round}", env, tier, results, 120.0 + case_to * float(cases[first].get("_w", 1)), fault=True)
                if first not in results:
                    lib = os.path.join(os.environ.get("VERIF_REPO", "/repo"), "src") + os.sep
                    stack = [ln.strip() for ln in log1.splitlines() if ln.strip().startswith("File ")]
                    lib_frames = [ln for ln in stack if f'"{lib}' in ln and os.sep + "tests" + os.sep not in ln]
                    if rc1 in CRASH_SIGNALS and lib_frames:
                        results[first] = {"_i": first, "violations": [{"key": f"process-crash:{CRASH_SIGNALS[rc1]}",
                                          "msg": f"case {cases[first].get('cls')}: the interpreter died with {CRASH_SIGNALS[rc1]} twice (in the shard and alone) while the library "
                                                 f"was running: {lib_frames[0][:200]}", "detail": {"stack": stack[:12]}}],
                                          "observed": {"violations_raised": 1, "process_crashes": 1}, "nontrivial": False}
                    else:
                        inconclusive.append(f"shard{k}:worker-died-rc={p.returncode}:case-{first}-alone-rc={rc1}:{log1[-300:].strip()}")
                if pending:
                    rc2, log2 = _run_alone(pid, [cases[i] for i in pending], scratch_root, f"rest{k}_{_round}", env, tier, results,
                                           120.0 + case_to * sum(float(cases[i].get("_w", 1)) for i in pending))
                    pending = [i for i in pending if i not in results]
                    if pending and rc2 not in CRASH_SIGNALS:
                        inconclusive.append(f"shard{k}:rest-of-shard-rc={rc2}:{log2[-300:].strip()}")
                        break
            if pending:
                inconclusive.append(f"shard{k}:worker-died-rc={p.returncode}:{len(pending)}-cases-left")
        elif p.returncode not in (0, None) and p.returncode != -9:
            inconclusive.append(f"shard{k}:worker-died-rc={p.returncode}:{(so or '')[-400:].strip()}")
        missing = [i for i in idx if i not in results]
        if missing and not any(s.startswith(f"shard{k}:") for s in inconclusive):
            inconclusive.append(f"shard{k}:{len(missing)}-cases-without-result")
    import shutil
    shutil.rmtree(scratch_root, ignore_errors=True)

    # ---- aggregate
    known = _load_known(pid)
    observed = {}
    sigs = set()
    nontrivial_sigs = {}
    viol_new = []
    viol_known = {}
    harness_errors = []
    for i, r in sorted(results.items()):
        for kk, vv in r.get("observed", {}).items():
            if kk.startswith("max:"):
                observed[kk] = max(observed.get(kk, vv), vv)
            elif kk.startswith("min:"):
                observed[kk] = min(observed.get(kk, vv), vv)
            else:
                observed[kk] = observed.get(kk, 0) + vv
        sig = r.get("sig") or _case_hash(cases[i])
        sigs.add(sig)
        if r.get("nontrivial"):
            nontrivial_sigs[sig] = max(nontrivial_sigs.get(sig, 0), int(r.get("nt") or 1))
        if r.get("harness_error"):
            harness_errors.append((i, r["harness_error"]))
        for v in r.get("violations", []):
            if v["key"] in known:
                viol_known.setdefault(v["key"], []).append((i, v))
            else:
                viol_new.append((i, v))
    if harness_errors:
        inconclusive.append(f"{len(harness_errors)}-harness-errors:first={harness_errors[0][1][-300:]}")
    required = dict(getattr(mod, "REQUIRED", {}))
    if not replay:
        for kk, mn in required.items():
            if observed.get(kk, 0) < mn:
                inconclusive.append(f"monitor-counter-{kk}={observed.get(kk, 0)}<{mn}")

    # ---- replays
    rdir = HOME / "replays" / pid
    if not replay:
        shutil.rmtree(rdir, ignore_errors=True)
    printed = set()
    replay_paths = []
    for i, v in viol_new:
        h = _case_hash(cases[i])
        rp = rdir / f"{h}.json"
        if h not in printed:
            rdir.mkdir(parents=True, exist_ok=True)
            allv = [vv for ii, vv in viol_new if ii == i]
            rp.write_text(json.dumps({"property": pid, "tier": tier, "seed": seed, "case": cases[i],
                                      "violations": allv}, indent=1, default=str))
            printed.add(h)
            replay_paths.append(str(rp))
            if len(printed) <= 25:
                print(f"VIOLATION property={pid} replay={rp}")
                seen_keys = set()
                for vv in allv:
                    if vv["key"] not in seen_keys and len(seen_keys) < 6:
                        seen_keys.add(vv["key"])
                        print(f"  key={vv['key']} :: {vv['msg'][:300]}")
    if len(printed) > 25:
        print(f"  ... {len(printed) - 25} more violating cases (replays written under {rdir})")
    for key, lst in sorted(viol_known.items()):
        print(f"KNOWN-FINDING: property={pid} {key}: {known[key].get('what', '')} (seen {len(lst)}x this run)")

    # ---- evidence
    level = mod.LEVEL
    samples = []
    seen_cls = set()
    for i in sorted(results):
        c = cases[i]
        if c.get("cls") not in seen_cls and len(samples) < 8:
            seen_cls.add(c.get("cls"))
            samples.append({k: v for k, v in c.items() if not k.startswith("_")})
    if not samples and cases:
        samples = [{k: v for k, v in cases[0].items() if not k.startswith("_")}]
    cov = {
        "evaluations": len(results),
        "distinct_nontrivial": int(sum(nontrivial_sigs.values())),
        "distinct_signatures": len(sigs),
        "rule": mod.RULE,
        "samples": samples,
        "observed": observed,
        "case_classes": sorted({str(c.get("cls")) for c in cases}),
        "known_findings_seen": {k: len(v) for k, v in viol_known.items()},
        "inconclusive_reasons": inconclusive,
    }
    exh = getattr(mod, "EXHAUSTIVE", None)
    if exh:
        e = exh(tier) if callable(exh) else exh
        if e:
            cov["exhaustive"] = bool(e) and not inconclusive
            if isinstance(e, str):
                cov["exhaustive_space"] = e
    ev = {
        "property_id": pid, "tier": tier, "seed": seed, "level": level, "coverage": cov,
        "assumptions": list(getattr(mod, "ASSUMPTIONS", [])),
        "wall_s": round(time.time() - t0, 2),
        "violations": len(viol_new),
        "verdict": "violated" if viol_new else ("inconclusive" if inconclusive else "held"),
        "repo": os.environ.get("VERIF_REPO", "/repo"),
    }
    if not replay and os.environ.get("VERIF_ONLY_CLS") and not os.environ.get("VERIF_EVIDENCE_DIR"):
        print("  (class-filtered development run: evidence file left untouched)")
    elif not replay:
        edir = Path(os.environ.get("VERIF_EVIDENCE_DIR", HOME / "evidence"))
        edir.mkdir(parents=True, exist_ok=True)
        (edir / f"{pid}.json").write_text(json.dumps(ev, indent=1, default=str) + "\n")
    obs_s = " ".join(f"{k}={v}" for k, v in sorted(observed.items()))
    print(f"[{pid} {tier} seed={seed}] cases={len(results)}/{len(cases)} nontrivial={sum(nontrivial_sigs.values())} "
          f"violations={len(viol_new)} known={sum(len(v) for v in viol_known.values())} wall={ev['wall_s']}s")
    print(f"  observed: {obs_s}")
    if os.environ.get("VERIF_DEBUG"):
        slow = sorted(((r.get("_wall", 0), i) for i, r in results.items()), reverse=True)[:8]
        for w, i in slow:
            print(f"  slow case {w}s: { {k: v for k, v in cases[i].items() if k not in ('lens', 'trailing')} }")
    if viol_new:
        return 1
    if inconclusive:
        for s in inconclusive:
            print(f"INCONCLUSIVE property={pid} reason={s}")
        return 2
    return 0


if __name__ == "__main__":
    sys.exit(main(sys.argv[1:]))
