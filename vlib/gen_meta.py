"""G1: SpikeGLX *writer model* — emits .meta text + int16 .bin and KEEPS the ground truth.

Oracles read the Rec object (site table, gains, raw matrix), never the repository's parse of the file.
Conventions were read off the fixture metas shipped with the repository (and SpikeGLX's documentation):
  3A/3B  : snsShankMap (shank:col:row:flag), col in {0,1}; electrode x = 43,11 (even rows) / 59,27 (odd rows), y = 20*row (+20 tip offset)
           snsGeomMap  (shank:x:y:flag) with SpikeGLX's mirrored x: 27,59 (even rows) / 11,43 (odd rows), y = 20*row
  NP2    : x = 27 + 32*col, y = 15*row (+20); NPultra: 8 columns, 6 um pitch (shank map only; no fixture shows its geom map)
  imroTbl: 3A "(sn,opt,384)(ch bank ref apgain lfgain)", 3B "(type,384)(ch bank ref apgain lfgain hp)", NP2 "(type,384)(ch bankmask ref elec)"
  muxTbl : NP1 32 ADCs x 12 channels (13 time slots per AP sample), NP2 24 ADCs x 16 channels (16 slots)
"""
from pathlib import Path

import numpy as np

IMRO_GAINS = [50, 125, 250, 500, 1000, 1500, 2000, 3000]
KINDS = ["3A", "3B1", "3B2", "NP2.1", "NP2.4", "NPultra"]
PRB_TYPE = {"3B1": 0, "3B2": 0, "NP2.1": 21, "NP2.4": 24, "NPultra": 1100}
NP1_GEOM_X = {(0, 0): 27, (1, 0): 59, (0, 1): 11, (1, 1): 43}   # (shank-map col, row parity) -> x in SpikeGLX's geom map


def fmt_num(v):
    """number formatting as SpikeGLX does (plain decimal, never exponent)"""
    if isinstance(v, (int, np.integer)) or float(v).is_integer():
        return str(int(v))
    s = repr(float(v))
    if "e" in s or "E" in s:
        s = f"{float(v):.17f}".rstrip("0")
    return s


def major(kind):
    return {"3A": 1, "3B1": 1, "3B2": 1, "NP2.1": 2, "NP2.4": 2.4, "NPultra": "NPultra"}[kind]


def grid(kind):
    """(nshank, ncol, nrow) of the electrode grid in shank-map convention"""
    return {"3A": (1, 2, 480), "3B1": (1, 2, 480), "3B2": (1, 2, 480), "NP2.1": (1, 2, 640), "NP2.4": (4, 2, 640),
            "NPultra": (1, 8, 48)}[kind]


def site_xy(kind, shank, col, row):
    """expected IBL coordinates (x, y, col_out) of a shank-map site: independent statement of the probe layouts"""
    col = np.asarray(col)
    row = np.asarray(row)
    if major(kind) == 1:
        col_out = -col * 2 + 2 + row % 2          # checkerboard: 43,11 / 59,27 um
        x = 11 + 16 * col_out
        y = 20 * row + 20
    elif kind == "NPultra":
        col_out = col
        x = 6 * col
        y = 6 * row
    else:
        col_out = col
        x = 27 + 32 * col
        y = 15 * row + 20
    return x.astype(float), y.astype(float), col_out.astype(float)


def mux_model(kind, nch=384):
    """independent reading of SpikeGLX's muxTbl: returns (adc index, sample_shift) per original channel"""
    ch = np.arange(nch)
    if major(kind) == 1 or kind == "NPultra":
        per, slots = 12, 13
    else:
        per, slots = 16, 16
    adc = (ch // (2 * per)) * 2 + ch % 2
    slot = (ch % (2 * per)) // 2
    return adc.astype(float), slot / slots


def draw_sites(rng, kind, n=384, mode="random"):
    """n distinct sites (shank, col, row) of the probe grid.  modes: dense | random | sorted-random | interleaved"""
    nsh, ncol, nrow = grid(kind)
    if mode == "dense":
        if kind == "NP2.4":
            # SpikeGLX default 4-shank stripe: blocks of 48 channels alternate between shanks
            sites = []
            for blk in range(8):
                sh = [0, 1, 0, 1, 2, 3, 2, 3][blk]
                r0 = [0, 0, 24, 24, 0, 0, 24, 24][blk]
                for i in range(48):
                    sites.append((sh, i % 2, r0 + i // 2))
            sites = np.array(sites)[:n]
        else:
            idx = np.arange(n)
            sites = np.c_[np.zeros(n, int), idx % ncol, idx // ncol]
        return sites
    total = nsh * ncol * nrow
    if kind == "NPultra":
        n = min(n, total)
    pick = rng.choice(total, n, replace=False)
    sh, rem = np.divmod(pick, ncol * nrow)
    row, col = np.divmod(rem, ncol)
    sites = np.c_[sh, col, row]
    if mode == "sorted-random":
        o = np.lexsort((-sites[:, 1], sites[:, 2], sites[:, 0]))
        sites = sites[o]
    elif mode == "interleaved" and nsh > 1:
        o = np.lexsort((sites[:, 2], sites[:, 0] * 0 + rng.integers(0, 3, n)))
        sites = sites[o]
    return sites


class Rec:
    pass


def make(rng=None, kind="3B2", stream="ap", sites=None, n=384, encoding="shank", gains=None, fs=None, ns=1000,
         aimax=None, maxint=None, explicit_maxint=None, nsync=1, extra=None, tilde=True, claim_ns=None, raw=None,
         content="random", shank_key=None, port_slot=(2, 3)):
    """build the ground truth + meta text of one imec recording"""
    rng = rng or np.random.default_rng(0)
    r = Rec()
    r.kind, r.stream, r.encoding = kind, stream, encoding
    np2 = kind.startswith("NP2")
    if sites is None:
        sites = draw_sites(rng, kind, n, "dense")
    sites = np.asarray(sites, int)
    n = len(sites)
    r.sites = sites
    r.n, r.nsync, r.nc = n, nsync, n + nsync
    if gains is None:
        gains = np.c_[np.full(384, 500), np.full(384, 250)]
    gains = np.asarray(gains)
    r.gains = gains
    aimax = aimax if aimax is not None else (0.5 if np2 else 0.6)
    maxint = maxint if maxint is not None else (8192 if np2 else 512)
    r.aimax, r.maxint = aimax, maxint
    if fs is None:
        fs = 30000.0 if stream == "ap" else 2500.0
    r.fs, r.ns = float(fs), int(ns)
    d = {}
    t = "~" if tilde else ""
    d["acqApLfSy"] = "384,0,1" if np2 else "384,384,1"
    d["appVersion"] = "20230411"
    d["fileName"] = "D:/data/verif=gen/run_g0_t0.imec0.%s.bin" % stream      # '=' inside a value
    d["fileSHA1"] = "0" * 40
    d["fileSizeBytes"] = (claim_ns if claim_ns is not None else ns) * r.nc * 2
    d["fileTimeSecs"] = fmt_num((claim_ns if claim_ns is not None else ns) / fs)
    d["firstSample"] = 12345
    d["gateMode"] = "Immediate"
    d["imAiRangeMax"] = fmt_num(aimax)
    d["imAiRangeMin"] = "-" + fmt_num(aimax)
    if kind == "3A":
        d["imProbeOpt"] = 3
        d["imProbeSN"] = 641251510
        d["typeEnabled"] = "imec"
    else:
        d["imDatPrb_type"] = PRB_TYPE[kind] if not isinstance(kind, int) else kind
        d["imDatPrb_sn"] = 18005116811
        d["imDatPrb_pn"] = "PRB_1_4_0480_1"
        if kind != "3B1" and port_slot is not None:
            d["imDatPrb_port"] = port_slot[0]       # OneBox ports are numbered from 0
            d["imDatPrb_slot"] = port_slot[1]
    if extra and "imDatPrb_type" in extra:
        d["imDatPrb_type"] = extra.pop("imDatPrb_type")
    if np2 or explicit_maxint or (explicit_maxint is None and maxint != 512):
        d["imMaxInt"] = maxint
    d["imRoFile"] = ""                                                         # empty value
    d["imSampRate"] = fmt_num(fs)
    d["imStdby"] = ""
    d["nSavedChans"] = r.nc
    d["snsApLfSy"] = f"{n},0,{nsync}" if stream == "ap" else f"0,{n},{nsync}"
    if np2:
        d["snsSaveChanSubset"] = f"0:{n - 1 + nsync}" if n == 384 else f"0:{n - 1},384"
    else:
        d["snsSaveChanSubset"] = (f"0:{n - 1},768" if stream == "ap" else f"384:{384 + n - 1},768")
    d["syncSourceIdx"] = 3
    d["trigMode"] = "Immediate"
    d["typeThis"] = "imec"
    d["userNotes"] = ""
    if kind == "3A":
        imro = "(641251510,3,384)" + "".join(f"({c} 0 0 {g[0]} {g[1]})" for c, g in enumerate(gains))
    elif np2:
        imro = f"({d['imDatPrb_type']},384)" + "".join(f"({c} 0 0 0 {c})" for c in range(384))
    else:
        imro = f"({d['imDatPrb_type']},384)" + "".join(f"({c} 0 0 {g[0]} {g[1]} 1)" for c, g in enumerate(gains))
    d[t + "imroTbl"] = imro
    lab = "AP" if stream == "ap" else "LF"
    d[t + "snsChanMap"] = "(384,%d,1)" % (0 if np2 else 384) + "".join(f"({lab}{c};{c}:{c})" for c in range(n)) + \
        "".join(f"(SY{j};{768 + j}:{768 + j})" for j in range(nsync))
    nsh, ncol, nrow = grid(kind)
    if encoding == "shank":
        d[t + "snsShankMap"] = f"({nsh},{ncol},{nrow})" + "".join(f"({s}:{c}:{rw}:1)" for s, c, rw in sites)
    elif encoding == "geom":
        if np2:
            d[t + "snsGeomMap"] = f"(NP2014,{nsh},250,70)" + "".join(f"({s}:{27 + 32 * c}:{15 * rw}:1)" for s, c, rw in sites)
        elif kind == "NPultra":
            raise ValueError("no reference for the NPultra geom map")
        else:
            d[t + "snsGeomMap"] = "(PRB_1_4_0480_1_C,1,0,70)" + "".join(
                f"({s}:{NP1_GEOM_X[(c, rw % 2)]}:{20 * rw}:1)" for s, c, rw in sites)
    if shank_key is not None:
        d["NP2.4_shank"] = shank_key
    if extra:
        d.update(extra)
    r.meta = d
    r.meta_text = "".join(f"{k}={v}\n" for k, v in d.items())
    # ---- ground truth derived quantities
    int2volt = aimax / maxint
    if np2:
        g = np.full(n, 80.0)
    else:
        g = gains[:n, 0 if stream == "ap" else 1].astype(float)
    r.gain_used = g
    r.s2v = np.r_[int2volt / g, np.ones(nsync)]
    r.x, r.y, r.col_out = site_xy(kind, sites[:, 0], sites[:, 1], sites[:, 2])
    r.shank = sites[:, 0].astype(float)
    r.row = sites[:, 2].astype(float)
    adc, ss = mux_model(kind)
    r.adc, r.sample_shift = adc[:n], ss[:n]
    # expected sort order: shank, then row, then descending column
    r.order = np.lexsort((-r.col_out, r.row, r.shank))
    # ---- content
    if raw is None:
        raw = make_raw(rng, ns, r.nc, nsync, content, maxint=maxint)
    r.raw = raw
    return r


def sync_words(rng, shape):
    """16-bit sync words using all 16 lines (line 15 set = negative int16), with the extreme words 0x8000, 0xFFFF, 0x7FFF and 0 sprinkled in"""
    w = rng.integers(-32768, 32768, shape, dtype=np.int64)
    special = np.array([-32768, -1, 32767, 0, -32767], dtype=np.int64)
    m = rng.random(shape) < 0.08
    w[m] = special[rng.integers(0, special.size, int(m.sum()))]
    return w.astype(np.int16)


def make_raw(rng, ns, nc, nsync=1, content="random", maxint=512):
    if content == "random":
        raw = rng.integers(-32768, 32768, (ns, nc), dtype=np.int64).astype(np.int16)
    elif content == "allvalues":
        raw = rng.integers(-32768, 32768, (ns, nc), dtype=np.int64).astype(np.int16)
        allv = np.arange(-32768, 32768, dtype=np.int64).astype(np.int16)
        rng.shuffle(allv)
        k = min(ns * (nc - nsync), 65536)
        flat = raw[:, : nc - nsync].reshape(-1)
        flat[:k] = allv[:k]
        raw[:, : nc - nsync] = flat.reshape(ns, nc - nsync)
    elif content == "inrange":
        raw = rng.integers(-maxint, maxint, (ns, nc), dtype=np.int64).astype(np.int16)
    elif content == "ramp":
        raw = ((np.arange(ns)[:, None] * 7 + np.arange(nc)[None, :] * 131) % 65536 - 32768).astype(np.int16)
    else:
        raise ValueError(content)
    if nsync:
        raw[:, nc - nsync:] = sync_words(rng, (ns, nsync))
    return np.ascontiguousarray(raw)


def make_nidq(rng, mn=0, ma=0, xa=1, dw=1, mn_gain=200, ma_gain=1, aimax=5, fs=30003.0003, ns=1000, raw=None, tilde=True, acq=None):
    """acq: None = every acquired channel is saved; "random" = in half of the files more MN / MA / XA channels were acquired than saved
    (the file and every sns* field describe the saved ones, acqMnMaXaDw the acquired ones)"""
    r = Rec()
    acq_counts = (mn, ma, xa, dw)
    subset = "all"
    if acq == "random" and rng.random() < 0.5:
        extra = [int(rng.integers(0, 3)) for _ in range(3)]
        if sum(extra) == 0:
            extra[0] = 2
        acq_counts = (mn + extra[0], ma + extra[1], xa + extra[2], dw)
        # saved = the LAST mn of the acquired MN channels, ..., so that dropped channels sit ahead of the saved ones
        idx, o = [], 0
        for a, k in zip(acq_counts, (mn, ma, xa, dw)):
            idx += list(range(o + a - k, o + a))
            o += a
        subset = ",".join(str(i) for i in idx) if idx else "all"
    r.kind, r.stream = "nidq", "nidq"
    r.mn, r.ma, r.xa, r.dw = mn, ma, xa, dw
    r.nc = mn + ma + xa + dw
    r.nsync = dw
    r.fs, r.ns = float(fs), int(ns)
    r.aimax, r.maxint = aimax, 32768
    t = "~" if tilde else ""
    d = {
        "acqMnMaXaDw": ",".join(str(v) for v in acq_counts), "appVersion": "20190327",
        "fileName": "D:/data/run_g0_t0.nidq.bin", "fileSHA1": "0" * 40,
        "fileSizeBytes": ns * r.nc * 2, "fileTimeSecs": fmt_num(ns / fs), "firstSample": 1738164, "gateMode": "Immediate",
        "nSavedChans": r.nc, "niAiRangeMax": fmt_num(aimax), "niAiRangeMin": "-" + fmt_num(aimax),
        "niAiTermination": "Default", "niClockSource": "PXI1Slot2_1ch_Int : 30003.000300", "niDev1": "PXI1Slot2",
        "niMAChans1": "", "niMAGain": fmt_num(ma_gain), "niMNChans1": "", "niMNGain": fmt_num(mn_gain), "niMuxFactor": 1,
        "niSampRate": fmt_num(fs), "niXAChans1": "0", "niXDBytes1": 1, "niXDChans1": "0:7",
        "snsMnMaXaDw": f"{mn},{ma},{xa},{dw}", "snsSaveChanSubset": subset, "syncNiChan": 3, "syncNiThresh": "1.1",
        "trigMode": "Immediate", "typeImEnabled": 2, "typeNiEnabled": 1, "typeThis": "nidq", "userNotes": "",
        t + "snsChanMap": f"({mn},{ma},1,{xa},{dw})" + "".join(f"(XA{i};{i}:{i})" for i in range(xa)) + "(XD0;1:1)",
        t + "snsShankMap": "(1,2,0)",
    }
    r.meta = d
    r.meta_text = "".join(f"{k}={v}\n" for k, v in d.items())
    i2v = aimax / 32768
    r.s2v = np.r_[np.full(mn, i2v / mn_gain), np.full(ma, i2v / ma_gain), np.full(xa, i2v), np.ones(dw)]
    r.order = np.arange(r.nc)
    if raw is None:
        raw = rng.integers(-32768, 32768, (ns, r.nc), dtype=np.int64).astype(np.int16)
        raw[:, r.nc - dw:] = sync_words(rng, (ns, dw))
    r.raw = np.ascontiguousarray(raw)
    return r


def write(rec, folder, name=None, nbytes_extra=b"", truncate_bytes=None):
    """write <name>.bin + <name>.meta; returns the .bin path"""
    folder = Path(folder)
    folder.mkdir(parents=True, exist_ok=True)
    if name is None:
        name = f"run_g0_t0.imec0.{rec.stream}" if rec.stream != "nidq" else "run_g0_t0.nidq"
    b = folder / (name + ".bin")
    data = rec.raw.tobytes() + nbytes_extra
    if truncate_bytes is not None:
        data = data[:truncate_bytes]
    b.write_bytes(data)
    (folder / (name + ".meta")).write_text(rec.meta_text)
    return b


def random_gains(rng, mode="random"):
    if mode == "uniform":
        return np.c_[np.full(384, 500), np.full(384, 250)]
    return np.c_[rng.choice(IMRO_GAINS, 384), rng.choice(IMRO_GAINS, 384)]
