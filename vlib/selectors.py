"""Generated sample / channel selectors for the reader workloads (C01, C02, C11)."""
import numpy as np


def rand_slice(rng, n, allow_neg_step=True, around=None):
    """random slice over an axis of length n: any start/stop/step, negative and out-of-range values included"""
    def bound():
        r = rng.random()
        if r < 0.15:
            return None
        if around is not None and len(around) and r < 0.6:
            return int(rng.choice(around) + rng.integers(-2, 3))
        if r < 0.75:
            return int(rng.integers(0, n + 1))
        if r < 0.9:
            return -int(rng.integers(1, n + 2))
        return int(rng.integers(n, 2 * n + 3))
    r = rng.random()
    if r < 0.55:
        step = None
    elif r < 0.8 or not allow_neg_step:
        step = int(rng.integers(1, 8))
    else:
        step = -int(rng.integers(1, 5))
    return slice(bound(), bound(), step)


def sample_selector(rng, ns, fancy_ok=True, seams=None, neg_step=True):
    """returns (selector, class label)"""
    r = rng.random()
    if r < 0.15:
        i = int(rng.integers(-ns, ns))
        if seams is not None and len(seams) and rng.random() < 0.5:
            i = int(np.clip(rng.choice(seams) + rng.integers(-1, 2), 0, ns - 1))
        return i, "int" if i >= 0 else "negint"
    if r < 0.75 or not fancy_ok:
        s = rand_slice(rng, ns, allow_neg_step=neg_step, around=seams)
        lab = "slice"
        if s.step is not None and s.step < 0:
            lab = "slice-negstep"
        elif len(range(*s.indices(ns))) == 0:
            lab = "slice-empty"
        return s, lab
    if r < 0.8:
        return [], "list-empty"
    k = int(rng.integers(1, 12))
    idx = rng.integers(-ns, ns, k)
    if rng.random() < 0.5:
        return [int(v) for v in idx], "list"
    return idx.astype(np.int64), "array"


def channel_selector(rng, nc, fancy_ok=True):
    r = rng.random()
    if r < 0.15:
        i = int(rng.integers(-nc, nc))
        return i, "int"
    if r < 0.55:
        s = rand_slice(rng, nc)
        return s, "slice" if not (s.step or 1) < 0 else "slice-negstep"
    if not fancy_ok:
        return slice(None), "slice"
    if r < 0.6:
        return [], "list-empty"
    k = int(rng.integers(1, 20))
    idx = rng.integers(-nc, nc, k)          # unsorted, repeated, sync included
    if rng.random() < 0.3:
        idx[-1] = nc - 1
    if rng.random() < 0.5:
        return [int(v) for v in idx], "list"
    return idx.astype(np.int64), "array"


def is_fancy(sel):
    return isinstance(sel, (list, np.ndarray))


def describe(sel):
    if isinstance(sel, slice):
        return f"slice({sel.start},{sel.stop},{sel.step})"
    if isinstance(sel, np.ndarray):
        return "array(" + ",".join(map(str, sel.tolist()[:12])) + ")"
    return repr(sel)
