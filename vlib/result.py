"""Per-case result accumulator shared by all checks."""
import os
import traceback
from pathlib import Path

import numpy as np


class Result:
    def __init__(self, sig=None, nontrivial=False):
        self.violations = []
        self.observed = {}
        self.sig = sig
        self.nontrivial = bool(nontrivial)
        self.nt = None  # number of distinct non-trivial sub-cases explored inside this case (default 1)

    def count(self, name, n=1):
        self.observed[name] = self.observed.get(name, 0) + int(n)

    def measure(self, name, value, kind="max"):
        """measured margin (e.g. worst deviation), aggregated over the run with max / min; name is stored as 'max:<name>'"""
        k = f"{kind}:{name}"
        v = float(value)
        if k not in self.observed:
            self.observed[k] = v
        else:
            self.observed[k] = max(self.observed[k], v) if kind == "max" else min(self.observed[k], v)

    def violation(self, key, msg, **detail):
        """key = mechanism class of the violation (used for known findings), msg = human witness."""
        if len(self.violations) < 20:
            self.violations.append({"key": key, "msg": str(msg)[:1200], "detail": _js(detail)})
        self.count("violations_raised")

    def check(self, cond, key, msg, counter=None, **detail):
        """evaluate one oracle predicate: counts the evaluation, records a violation when false"""
        if counter:
            self.count(counter)
        self.count("oracle_evaluations")
        if not bool(cond):
            self.violation(key, msg() if callable(msg) else msg, **detail)
            return False
        return True

    def exception(self, key, exc, what=""):
        if is_env_error(exc):
            # the machine, not the library: never a verdict about the property (the worker retries the case, then reports a harness error)
            raise EnvironmentTrouble(f"{type(exc).__name__}: {exc}")
        tb = traceback.format_exc()
        self.violation(key, f"{what}: {type(exc).__name__}: {exc}", traceback=tb[-1200:])

    def as_dict(self):
        return {"violations": self.violations, "observed": self.observed, "sig": self.sig,
                "nontrivial": self.nontrivial, "nt": self.nt}


class EnvironmentTrouble(Exception):
    """resource exhaustion on the host while a case was running (threads, memory, file handles, disk)"""


def is_env_error(exc):
    import errno
    if isinstance(exc, (MemoryError, EnvironmentTrouble)):
        return True
    if isinstance(exc, RuntimeError) and "can't start new thread" in str(exc):
        return True
    if isinstance(exc, OSError) and exc.errno in (errno.ENOMEM, errno.EMFILE, errno.ENFILE, errno.ENOSPC, errno.EAGAIN) and "injected" not in str(exc):
        return True
    return False


def _js(x):
    if isinstance(x, dict):
        return {str(k): _js(v) for k, v in x.items()}
    if isinstance(x, (list, tuple)):
        return [_js(v) for v in x][:50]
    if isinstance(x, np.ndarray):
        return _js(x.ravel()[:20].tolist())
    if isinstance(x, (np.integer,)):
        return int(x)
    if isinstance(x, (np.floating,)):
        return float(x)
    if isinstance(x, (np.bool_,)):
        return bool(x)
    if isinstance(x, (str, int, float, bool)) or x is None:
        return x
    return str(x)[:300]


def scratch():
    """private scratch directory of the running case (created and removed by the worker)"""
    d = Path(os.environ.get("VERIF_CASE_SCRATCH", "/var/tmp/verif-adhoc"))
    d.mkdir(parents=True, exist_ok=True)
    return d


def rng_for(case):
    return np.random.default_rng([int(case.get("seed", 0)) & 0x7FFFFFFF, int(case.get("_orig_i", case.get("_i", 0)))])
