"""NumPy/SciPy stand-in for the two pyfftw calls used by ibldsp.voltage.decompress_destripe_cbin.

pyfftw is not installed in this sandbox (and cannot be fetched); properties.jsonl C06 hook_needed says so.
Only `empty_aligned` and `FFTW(...)(array)` for real forward / backward transforms along one axis are provided,
single precision preserved (scipy.fft keeps float32 -> complex64).
"""
import numpy as np
import scipy.fft

__verif_shim__ = True


def empty_aligned(shape, dtype="float64", order="C", n=None):
    return np.zeros(shape, dtype=dtype, order=order)


class FFTW:
    def __init__(self, input_array, output_array, axes=(-1,), direction="FFTW_FORWARD", flags=(), threads=1, **kw):
        self.input_array = input_array
        self.output_array = output_array
        self.axis = axes[0]
        self.direction = direction

    def __call__(self, input_array=None, output_array=None, normalise_idft=True):
        if input_array is not None:
            if tuple(input_array.shape) != tuple(self.input_array.shape):
                raise ValueError(f"Invalid shape for this FFTW object: {input_array.shape} != {self.input_array.shape}")
            self.input_array[...] = input_array
        if self.direction == "FFTW_FORWARD":
            self.output_array[...] = scipy.fft.rfft(self.input_array, axis=self.axis)
        else:
            self.output_array[...] = scipy.fft.irfft(self.input_array, n=self.output_array.shape[self.axis], axis=self.axis)
        return self.output_array
