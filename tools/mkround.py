#!/usr/bin/env python3
"""development-time helper: prepare round N of independently seeded changes.

usage: mkround.py <N> [--props C01,C05]
For every property: a scratch git worktree of /repo under /tmp/seed<N>/<cxx> (outside /repo and /verif) holding TASK_<cxx>.md.
The task text contains ONLY the property record, the rules of the exercise, the triggers earlier authors already used and the functions
they modified (so that the new change is independent of the others) - nothing about how /verif detects anything.
Each worktree is then handed to a fresh sub-agent:  "Read /tmp/seed<N>/<cxx>/TASK_<cxx>.md and carry out the task it describes exactly."
Afterwards: first verdict (VERIF_REPO=<worktree> ./check CXX quick), tools/ingest_seed.py, git -C /repo worktree remove --force <worktree>.
"""
import collections
import glob
import json
import os
import re
import subprocess
import sys

R = int(sys.argv[1])
only = sys.argv[sys.argv.index("--props") + 1].split(",") if "--props" in sys.argv else None
props = {json.loads(ln)["id"]: json.loads(ln) for ln in open("/verif/properties.jsonl")}
by, fn = {}, collections.defaultdict(collections.Counter)
for d in sorted(glob.glob("/verif/seeded/*/")):
    m = json.load(open(d + "meta.json"))
    by.setdefault(m["property"], []).append(m["needs_to_manifest"])
    f = None
    for ln in open(d + "patch.diff").read().splitlines():
        if ln.startswith("+++ b/"):
            f = ln[6:].replace("src/", "")
        mm = re.match(r"@@ .* @@\s*(?:def|class)?\s*(\w+)", ln)
        if mm and f and mm.group(1) != "from":
            fn[m["property"]][f"{f}:{mm.group(1)}"] += 1
base = json.load(open("/root/.vp/BASELINE.json"))
os.makedirs(f"/tmp/seed{R}", exist_ok=True)
for pid, p in props.items():
    if only and pid not in only:
        continue
    pl = pid.lower()
    wt = f"/tmp/seed{R}/{pl}"
    if not os.path.exists(wt):
        subprocess.run(["git", "-C", "/repo", "worktree", "add", "--detach", wt, "HEAD"], check=True, capture_output=True)
    rec = {k: p[k] for k in ("id", "title", "statement", "quantifier", "why_tests_cant", "anchors")}
    taken = "\n".join(f"  - {n}" for n in by.get(pid, []))
    touched = ", ".join(f"{k} ({v}x)" for k, v in fn[pid].most_common())
    nprev = len(by.get(pid, []))
    open(f"{wt}/TASK_{pl}.md", "w").write(f"""# Task: seed one subtle property-breaking change

You work ONLY inside this scratch git worktree of the library int-brain-lab/ibl-neuropixel: `{wt}`
(never touch /repo, never read or write /verif, never commit anything). Python: `/venv/bin/python` (the library is imported
from `{wt}/src` when you set `PYTHONPATH={wt}/src`).

## The property (this is all you are told)

```json
{json.dumps(rec, indent=1)}
```

## What to produce

A *small, realistic* change to the library source under `{wt}/src` (NOT under `src/tests`) - the kind of slip or "clean-up" a maintainer
could plausibly commit - that **breaks this property** while:

1. every file still imports/compiles;
2. the repository's existing test suite still passes exactly as before. Run it with a private temp dir (two test classes use fixed temp names):
   `cd {wt} && mkdir -p /var/tmp/{pl}-r{R}-tmp && TMPDIR=/var/tmp/{pl}-r{R}-tmp PYTHONPATH={wt}/src /venv/bin/python -m pytest -q -p no:cacheprovider --timeout=900 --continue-on-collection-errors -x -q src/tests/unit 2>&1 | tail -15`
   (omit `-x` to see all). On the unchanged tree 85 tests pass and exactly these 12 fail for environment reasons (missing optional packages/data) -
   they must be the only failures with your change too: {', '.join(t.split('.')[-1] for t in base['always_fail'])}.
   (`test_sync_timestamps_linear` is unseeded and fails now and then on the unchanged tree too; ignore it.)
   To save time run only the test modules relevant to the file you changed while iterating, and the whole `src/tests` once at the end.
   (The suite takes 4-7 minutes.) Remove /var/tmp/{pl}-r{R}-tmp afterwards.
3. the break needs **something specific to manifest** - a particular input class, an unusual option or option combination, a multi-step sequence of
   calls, a fault/interruption at a particular point, a particular worker count/interleaving, or two cooperating sites that each look fine
   alone. It must NOT be exposed by ordinary default use at once.

{nprev} earlier authors already seeded changes for this property. Yours must use a mechanism in a *different part of the property's behaviour*:
a different clause of the statement, a different function, a different kind of trigger. Do not repeat or trivially vary these triggers:
{taken}

Functions those earlier changes modified: {touched}. **Prefer a function that is not in this list** (another function named in the
property's anchors, or one they call, or a caller that feeds them) if a realistic break of the property exists there; only fall back to a listed
function for a clause of the statement none of the triggers above touches.

Then write, at the worktree root:

* `demo_{pl}.py` - a self-contained program (it may create temp files under a `tempfile.mkdtemp()` directory that it removes) that exercises the
  real library code and **exits 0 on the unchanged tree and non-zero (assert / sys.exit(1)) with your change**. It must test the *property as
  stated* (not an implementation detail, not an argument type or call form the statement does not cover), and must be deterministic. Verify both
  directions yourself (`git stash` is NOT allowed - other worktrees share the stash; instead keep your change as a diff:
  `git diff -- src > /tmp/seed{R}/{pl}.diff`, `git checkout -- src`, run the demo, then `git apply /tmp/seed{R}/{pl}.diff`).
* `NOTE_{pl}.md` - 5-15 lines: what you changed, why the tests do not see it, exactly what is needed for it to manifest.

Leave the change **applied and uncommitted** in the worktree when you finish (so that `git diff -- src` shows it), with `demo_{pl}.py` and
`NOTE_{pl}.md` present. Keep the patch minimal (ideally 1-10 changed lines). Do not add environment-variable switches or special-case magic values.
Keep your own messages short (long analyses risk being cut off): decide on one mechanism, implement, verify, finish.
Your final message: one paragraph with the changed function, the mechanism, and what it needs to manifest.

Hints: some optional packages are absent (pyfftw, cupy); if code you need to drive imports pyfftw (decompress_destripe_cbin does), your demo may
put a minimal stand-in module on sys.path (a `pyfftw` providing `empty_aligned(shape,dtype)` and a class `FFTW(a, b, axes, direction, threads)` whose
`__call__` computes rfft/irfft along the last axis from `a` into `b` and returns `b`), or demonstrate through lower-level functions.
""")
    print(wt)
