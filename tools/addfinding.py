#!/usr/bin/env python3
"""development-time helper (never used by a check): append an entry to known_findings.json
usage: addfinding.py <property> <key> <fixed|known> <commit|-> <what...>"""
import json, sys
from pathlib import Path
f = Path(__file__).resolve().parents[1] / "known_findings.json"
d = json.loads(f.read_text())
prop, key, status, commit = sys.argv[1:5]
what = " ".join(sys.argv[5:])
e = {"property": prop, "key": key, "status": status}
if commit != "-":
    e["commit"] = commit
    what = f"fixed: property={prop} {commit} {what}"
e["what"] = what
d["findings"] = [x for x in d["findings"] if not (x["property"] == prop and x["key"] == key)] + [e]
f.write_text(json.dumps(d, indent=1) + "\n")
