#!/usr/bin/env python3
"""Regenerates MANIFEST.json from the table below (kept valid against /root/.vp/MANIFEST.schema.json)."""
import json
from pathlib import Path

HOME = Path(__file__).resolve().parents[1]

T = {
    "C01": ("exploration", "5 C01", "boundary spy on Reader.__getitem__/read/read_samples + calibrated-array reference model built from generated metadata",
            "Every reader result for a generated selector workload (all probe generations, bin/cbin, sorted/unsorted) is compared with float32(raw)*factor laid out as NumPy would; held on the generated files and selectors only.",
            "Trusted: NumPy indexing semantics, the SpikeGLX writer model in vlib/gen_meta.py (cross-checked against the shipped fixture metas), mtscomp as a dependency."),
    "C02": ("fault_enumeration", "5 C02", "audit-hook file-event log + directory/SHA snapshots + failpoints at every mtscomp chunk (de)compression",
            "Every chunk index of every generated file is failed once in compress and in decompress-to-scratch; the file-event log and directory snapshots are judged by ordering/completeness rules; twin bin/cbin readers compared on seam-straddling selectors.",
            "Trusted: os/audit events report every unlink/rename issued through Python; no power-loss reordering modelled."),
    "C03": ("exploration", "5 C03", "byte observers on per-shank files and the reconstructed file against a column-subset model",
            "Bytes of every probeXXs/*.ap.bin and of the reconstruction are compared with the generated int16 matrix containing all 65536 values, across gain settings, shank assignments and window sizes.",
            "Trusted: the generated metadata reflects SpikeGLX NP2.4 files; SHA-1."),
    "C04": ("fault_enumeration", "5 C04", "sys.monitoring LINE failpoints over every executed converter statement + audit-hook invariant at os.remove(original) + history driver",
            "Each distinct executed statement of NP2Converter is used as a crash point (exception and kill semantics) followed by retry/overwrite; all option triples and run histories up to length 3 are driven; recoverability, guarded deletion, idempotence and completeness are judged from disk states.",
            "Crash = Python-level interruption or process kill; un-synced page cache loss is not modelled."),
    "C05": ("exploration", "5 C05", "return-value monitors on destripe/car/kfilt/fk/agc against a physical ADC-skew stripe model and per-group recomputation",
            "Measured stripe attenuation, spike retention, zero group reference, group-equals-separate and AGC product identity on generated stripes/spikes for every probe generation.",
            "Statistical thresholds are the ones the property states (40 dB, 90 %); margins are re-measured per run."),
    "C06": ("exploration", "5 C06", "controlled scheduler substituted for joblib.Parallel recording per-worker write sets (exactly-once / agreement monitor) + real loky runs",
            "Per-worker write sets decide coverage and write-write agreement for every interleaving of the file-only-communicating workers; outputs compared across worker counts 1..8, with a batch-wise reference, sync bit-identity and QC file sizes.",
            "pyfftw is replaced by a NumPy/SciPy stand-in (absent from the sandbox); workers communicate only through files."),
    "C07": ("exploration", "5 C07", "icontract post-conditions on fourier.fshift + metamorphic monitors on impulse bases",
            "Shape/dtype/input-untouched contracts evaluated on every call; roll/identity/additivity/analytic-delay relations on full impulse bases for the listed lengths; delay estimation on wavelets.",
            "Linearity of fshift (checked separately on random combinations) lets the impulse basis stand for all signals."),
    "C08": ("exploration", "5 C08", "return-value monitors on geometry_from_meta/read_geometry/trace_header against the generated site table",
            "Generated site selections in both encodings, sorted/unsorted, split shanks; joint permutation, grid inverses, ADC tables against an independent mux-table model.",
            "The mux table model is an independent reading of SpikeGLX documentation (NP1 32x12, NP2 24x16)."),
    "C09": ("exploration", "5 C09", "round-trip monitor on read_meta_data/write_meta_data + derived-quantity monitor on Reader",
            "Grammar-generated metadata files round-trip; derived fs/nc/nsync/ns/type/version/s2v compared with the generator's ground truth.",
            "Only in-grammar files (key=value lines, scalar or integer-list numerics)."),
    "C10": ("exploration", "5 C10", "exhaustive monitor on split_sync over all 65536 words + TTL trains written to files and read back through Reader and fronts",
            "All words x all bits enumerated; event trains on random lines recovered exactly through read_sync and fronts/rises/falls in every array layout.",
            "NumPy bit arithmetic."),
    "C11": ("fault_enumeration", "5 C11", "truncation-point enumerator (every trailing byte count) around Reader/OnlineReader construction",
            "Every number of trailing bytes of an incomplete last frame is enumerated for several frame sizes, with metadata claiming fewer/equal/more samples; construction, ns, values and duration are judged.",
            "Truncation is modelled as a prefix of the writer's byte stream."),
    "C12": ("exploration", "5 C12", "byte observers on *.lf.bin and metadata across window sizes against whole-trace low-pass + stride-12 reference",
            "LF outputs for several window sizes compared to each other and to an independent zero-phase low-pass + decimation of the whole trace; metadata vs bytes.",
            "SciPy sosfiltfilt as reference filter."),
    "C13": ("exploration", "5 C13", "exactly-once monitor on write_wfs_chunk row sets (controlled scheduler) + file observers against a source-window model",
            "Every extracted row compared with the source window; row-set exactly-once; chunk-size and worker-count independence; loader round trip.",
            "preprocess_steps=[] so that equality with the source is meaningful."),
    "C14": ("exploration", "5 C14", "return-value monitor on compute_spike_features against a per-waveform loop reference + metamorphic relations",
            "Column-by-column comparison with an independent reference, ordering laws, scaling/permutation/batch equivariance over generated waveform batches.",
            "Waveforms whose largest deflection is on sample 0 are outside the property's domain and not generated."),
    "C15": ("exploration", "5 C15", "return-value monitors on interpolate_bad_channels/detect_bad_channels + internal-call spy inside detect_bad_channels_cbin",
            "Bit-identity of untouched rows, convex-hull range of repaired rows, exact label vectors on injected faults, mode rule on spied batch labels.",
            "Detection is judged only on generated backgrounds whose feature margins are re-measured per run."),
    "C16": ("exploration", "5 C16", "icontract post-conditions on voltage.saturation against a direct proportion-rule reference with nextafter boundary values",
            "Flags equal the reference rule at/just below/just above each threshold and proportion; mute in [0,1], zero on flags, one outside the taper half width, function of flags only.",
            "The slew 'at the limit' case is not asserted (property says exceed, code says >=)."),
    "C17": ("exploration", "5 C17", "boundary spy on every WindowGenerator generator judged by cover/overlap/count/partition/sum-to-one predicates",
            "Exhaustive box of (length, window, overlap) triples (quick: ns<=120,nswin<=24; thorough: ns<=400,nswin<=64) plus random large triples.",
            "None beyond integer arithmetic."),
    "C18": ("exploration", "5 C18", "post-condition monitors on ibldsp.fourier public functions against numpy.convolve / numpy.fft / brute force",
            "All (nx, nw) length pairs in the box, all padded sizes including odd ones; freduce/fexpand/fscale/ns_optim_fft/filters/dft on full impulse bases.",
            "numpy.convolve and numpy.fft are the textbook definitions."),
    "C19": ("exploration", "5 C19", "return-value monitor on utils.sync_timestamps against the affine map and pairing drawn by the generator",
            "Generated event trains with drift/offset/missing events/jitter; no false pair, >=95 % of true pairs, held-out error and drift within error-propagation tolerance.",
            "Tolerances follow least-squares error propagation."),
    "C20": ("exploration", "5 C20", "return-value monitors on cadzow/svd denoise, smoothers, venn counting and stack against identity/polynomial/conservation predicates",
            "Full-rank and plane-wave identities, constant and polynomial reproduction, finite NaN filling, per-sorter conservation across chunk sizes, group aggregates.",
            "None beyond floating-point tolerances stated per predicate."),
}


def main():
    checks = []
    na = []
    for pid, (level, ref, tech, text, note) in T.items():
        if (HOME / "checks" / f"{pid.lower()}.py").exists():
            checks.append({
                "property_id": pid,
                "quick_cmd": f"./check {pid} quick",
                "thorough_cmd": f"./check {pid} thorough",
                "evidence_file": f"evidence/{pid}.json",
                "replay_cmd_template": f"./check {pid} --replay {{path}}",
                "engine": "vlib",
                "level_claimed": {"category": level, "text": text + " Verdict: held on the executions observed, never 'verified'.",
                                  "design_ref": f"DESIGN.md section {ref}"},
                "level_note": note,
                "technique": "runtime monitoring: " + tech,
            })
        else:
            na.append({"property_id": pid, "reason": "check not built yet in this session (planned, see DESIGN.md section " + ref + "); runtime monitoring applies"})
    m = {
        "version": 1,
        "setup_cmd": "./check --setup",
        "hooks": {
            "guard": "IBL_NEUROPIXEL_VERIF",
            "enable": "no source hook exists: all seams (module-level Parallel, mtscomp methods, sys.monitoring, audit hooks) are reached from the harness; ./check exports IBL_NEUROPIXEL_VERIF=1 for completeness",
            "baseline_off_cmd": "cd /repo && env -u IBL_NEUROPIXEL_VERIF /venv/bin/python -m pytest -ra -q -p no:cacheprovider --timeout=900 --continue-on-collection-errors",
            "source_commits": [],
            "add_only": True,
        },
        "engines": [{"name": "vlib", "path": "vlib/", "serves_properties": sorted(c["property_id"] for c in checks),
                     "kind_free_text": "Python runtime-monitoring harness: seeded workload generators, boundary spies, icontract contracts, audit-hook file-event logs, sys.monitoring failpoints, controlled scheduler, call-history (purity) monitor around every case, sharded runner with three-valued verdicts"}],
        "checks": checks,
        "not_applicable": na,
        "notes": "All checks import the repository from $VERIF_REPO/src (default /repo/src) at run time, so they always see the current working tree. Exit 0 held / 1 violation / 2 inconclusive. known_findings.json lists genuine defects (fixed or known). Every case of every check also runs inside the call-history monitor vlib/purity.py (recorded calls of the pure numerical functions are repeated at the end of the case and must return the same value).",
    }
    if not na:
        m.pop("not_applicable")
        m["not_applicable"] = []
    (HOME / "MANIFEST.json").write_text(json.dumps(m, indent=1) + "\n")
    print(f"MANIFEST: {len(checks)} checks, {len(na)} not yet claimed")


if __name__ == "__main__":
    main()
