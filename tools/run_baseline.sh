#!/bin/bash
# development-time helper: the repository's own suite with the guard off, compared with BASELINE.json
cd /repo && env -u IBL_NEUROPIXEL_VERIF /venv/bin/python -m pytest -ra -q -p no:cacheprovider --timeout=900 --continue-on-collection-errors --junitxml=/var/tmp/baseline_run.xml > /var/tmp/baseline_run.log 2>&1
python3 /verif/tools/baseline_diff.py /var/tmp/baseline_run.xml
