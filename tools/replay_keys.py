#!/usr/bin/env python3
"""development-time helper: histogram of violation keys in replays/<ID>/"""
import json, sys, glob, collections
c = collections.Counter()
ex = {}
for f in glob.glob(f"/verif/replays/{sys.argv[1]}/*.json"):
    for v in json.load(open(f))["violations"]:
        c[v["key"]] += 1
        ex.setdefault(v["key"], v["msg"][:int(sys.argv[2]) if len(sys.argv) > 2 else 200])
for k, n in c.most_common():
    print(n, k, "::", ex[k])
