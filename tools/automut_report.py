#!/usr/bin/env python3
"""development-time helper: summarise a selftest/automut.py sweep (log or jsonl) into the table of DESIGN.md section 12.

usage: automut_report.py <log-or-jsonl> [--md]
Every survivor is put into one of three classes by the hand-written triage rules below (first match wins):
  equivalent   - the edit cannot change anything observable (dropped keyword equal to the default, index 0 -> -1 of a one-element tuple, ...)
  outside      - observable, but on behaviour no property speaks about (defaults of metadata-less readers, filter design constants,
                 the taper shape of the mute gain, which side an exact threshold belongs to, log / warning only branches)
  gap-closed   - a real gap of the workload at the time of the sweep; the class that closes it is named (the sweep ran on an older
                 snapshot of /verif; the mutant was re-run against the current check where noted)
Anything unmatched is listed as 'untriaged'.
"""
import collections
import json
import re
import sys

RULES = [
    # ---- spikeglx.Reader
    (r"spikeglx:Reader\.__init__:", "outside", "defaults of a reader opened WITHOUT metadata (nc / ns / fs guesses from the file size, s2v default, trace header of a flat binary): C01/C02 are about SpikeGLX recordings, which carry metadata; the explicit-argument path is covered (fix a761246)"),
    (r"spikeglx:Reader\.open:not:", "outside", "`if not self.ignore_warnings` guards a log message only"),
    (r"spikeglx:Reader\.open:kwdrop:.*mode=", "equivalent", "memmap mode r vs default r+ on a readable file"),
    (r"spikeglx:Reader\.(read|read_sync_digital):(cmp|const):L(289|292|328|331)", "equivalent", "negative-step branch: `step < 0` vs `<= 0` / `< 1` (step 0 is not a slice), empty-selection fallback slice(0, 0) vs slice(1, 0)"),
    (r"spikeglx:Reader\.read:kwdrop:.*copy=", "equivalent", "astype to another dtype copies anyway"),
    (r"spikeglx:Reader\.read_sync_digital:not:", "outside", "warning-only branch"),
    (r"spikeglx:Reader\.read_sync:(cmp|const):L361", "gap-closed", "empty selections through read_sync on recordings with analog sync lines (C10 `read_sync:nidq-empty-selection`; C01 already had it)"),
    (r"spikeglx:Reader\.read_sync:const:L362", "outside", "the floor percentile (10) of the analog threshold: any value below the share of low samples gives the same lines"),
    (r"spikeglx:Reader\.read_sync:cmp:L36[56]", "outside", "a sample exactly ON the analog threshold"),
    (r"spikeglx:Reader\.compress_file:kwdrop:.*outmeta=", "equivalent", "default .ch name equals the explicit one"),
    (r"spikeglx:Reader\.decompress_to_scratch:not:L422", "gap-closed", "uncaught exceptions escaping from the library are violations (vlib/worker.py), no longer harness errors"),
    (r"spikeglx:Reader\.decompress_to_scratch:kwdrop:.*parents=", "gap-closed", "scratch directories whose parents do not exist yet (C02)"),
    (r"spikeglx:Reader\.decompress_to_scratch:kwdrop:", "equivalent", "dropped keyword equals mtscomp's default / only skips a redundant read-back"),
    (r"spikeglx:read_meta_data:const:L507", "equivalent", "v[0] vs v[-1] of a one-element list"),
    (r"spikeglx:write_meta_data:kwdrop:.*trim=", "equivalent", "positional formatting of a non-integer: trim '-' and the default give the same text"),
    (r"spikeglx:_get_savedChans_subset:", "equivalent", "another spelling of the same channel list (`384` vs `384:384`, one-channel groups): C03 compares the LIST the string denotes"),
    (r"spikeglx:_get_type_from_meta:const:", "equivalent", "sentinel comparisons that cannot be true for real counts"),
    (r"spikeglx:_split_geometry_into_shanks:const:", "equivalent", "np.where(...)[0] vs [-1] of a 1-tuple"),
    (r"spikeglx:_map_channels_from_meta:const:L75[58]", "outside", "the `flag` column of the site map (not an attribute the property lists; C08 compares encodings 'flag excepted')"),
    (r"spikeglx:geometry_from_meta:(kwdrop|arith|const|not):L69[789]", "gap-closed", "metadata without any site map: default layout of THAT probe generation (C08 `geometry:default-layout:*`)"),
    (r"spikeglx:_conversion_sample2v_from_meta:kwdrop:.*dtype=", "equivalent", "float32 vs float64 ones"),
    (r"spikeglx:_conversion_sample2v_from_meta:const:L804", "gap-closed", "NP2 LF-band headers (C09) and LF-band recordings (C01)"),
    # ---- neuropixel
    (r"neuropixel:split_trace_header:const:", "equivalent", "np.where(...)[0] vs [-1]"),
    (r"neuropixel:NP2Converter\.init_params:const:L285", "equivalent", "default window length: the outputs do not depend on the window (that is C12 / C03 themselves)"),
    (r"neuropixel:NP2Converter\.init_params:const:L298", "outside", "shape of the edge taper: changes LF samples within the first / last 144 AP samples only ('away from the two file edges')"),
    (r"neuropixel:NP2Converter\._prepare_files_NP24:", "equivalent", "mkdir(parents=True) with an existing parent; [0] vs [-1]"),
    (r"neuropixel:NP2Converter\._prepare_files_NP21:", "equivalent", "assert_shanks=False path gives the same channel list for a single-shank probe"),
    (r"neuropixel:NP2Converter\._process_NP2[14]:(slice|kwdrop|arith)", "equivalent", "one column too many handed to a function that indexes by channel list; keyword equal to the default; offset 0 added or subtracted; NP2 ap and lf volts-per-bit are equal"),
    (r"neuropixel:NP2Converter\.check_NP24:argswap:L555_swap_args_0,1", "gap-closed", "storage fault in every verification window (C04 class `corrupt`)"),
    (r"neuropixel:NP2Converter\.check_NP24:const:L555", "equivalent", "verification windows overlapping by one sample still cover everything"),
    (r"neuropixel:NP2Converter\.check_NP24:(not|cmp|const):L561", "gap-closed", "fault in the sync copy of the first / a later shank (C04 class `corrupt`; repo fix 71ec437)"),
    (r"neuropixel:NP2Converter\.compress_NP2[14]:not:", "equivalent", "unlink(missing_ok=True) of a file the compression replaces anyway"),
    (r"neuropixel:NP2Converter\.compress_NP21:kwdrop:.*sort=", "gap-closed", "C12 fixed combination (NP2.1, compress, flat original, same converter object); anchored to C04 only in the sweep"),
    (r"neuropixel:NP2Converter\._writemetadata_ap:(arith|const):L735", "gap-closed", "declared channel counts of the per-shank ap metas (C03 `split:shank-meta-counts`)"),
    (r"neuropixel:NP2Converter\._writemetadata_(ap|lf):(arith|const):L(742|770)", "gap-closed", "saved-channel subset of the written metas lists as many channels as the file holds (C03 / C12)"),
    (r"neuropixel:NP2Converter\._writemetadata_lf:(arith|const):L76[01]", "gap-closed", "acquired counts of the LF metas (C12 `lfp:meta-channels:acquired-or-subset`)"),
    (r"neuropixel:NP2Reconstructor\.__init__:kwdrop:", "equivalent", "mkdir of a folder that does not exist yet, parent present"),
    (r"neuropixel:NP2Reconstructor\.(process|_prepare_files|_get_chans):const:", "equivalent", "[0] vs [-1] on equal entries / unreachable early return"),
    (r"neuropixel:NP2Reconstructor\._prepare_files:kwdrop:.*sort=", "equivalent", "the reconstructor reads the shank files through the raw memmap (sr._raw), which the sort flag does not touch"),
    (r"neuropixel:NP2Reconstructor\.write_metadata:", "equivalent", "an existing metadata file with the right size is kept - it is the original's"),
    # ---- voltage
    (r"voltage:agc:(arith|const):L(37|41)", "equivalent", "another window length / whitening constant: data x gain is still the input"),
    (r"voltage:agc:kwdrop:.*gpu=", "equivalent", "gpu=False is the default"),
    (r"voltage:kfilt:kwdrop:", "equivalent", "keyword equal to the default"),
    (r"voltage:kfilt:(const|arith|argswap):", "outside", "filter-internal design (default order, lateral padding and taper of the k-filter): the property constrains the end-to-end 40 dB / 90 % and grouped == per-group"),
    (r"voltage:car:kwdrop:", "equivalent", "collection=None is the default"),
    (r"voltage:saturation:cmp:L259", "outside", "exactly AT the slew limit (property: exceed, code: >=)"),
    (r"voltage:saturation:(kwdrop|const|argswap):L(259|260|262)", "equivalent", "axis=-1 default; appended slew 0 vs -1; logical_or arguments swapped"),
    (r"voltage:saturation:(argswap|const):L265", "outside", "taper shape of the mute gain between 0 (on flags) and 1 (far away): not constrained by the three stated clauses"),
    (r"voltage:interpolate_bad_channels:cmp:L300", "outside", "a weight exactly equal to 0.005"),
    (r"voltage:interpolate_bad_channels:", "equivalent", "[0] vs [-1]; |dx + i dy| symmetric in the sign of dy; bad-channel weights set to -1 are zeroed by the 0.005 threshold"),
    (r"voltage:_get_destripe_parameters:(cmp|const)", "outside", "default filter design constants (corner, AGC length, padding)"),
    (r"voltage:_get_destripe_parameters:not:", "gap-closed", "settings requested through destripe (C05 class `through-destripe`); re-run: caught"),
    (r"voltage:destripe:argswap:L362", "gap-closed", "caller-chosen butter_kwargs / k_kwargs through destripe (C05) and through the file pipeline (C06 opt 7)"),
    (r"voltage:destripe:(kwdrop|argswap|const):L37[589]", "equivalent", "axis=1 of a 2-D array; x / y swapped in a distance; [0] vs [-1]"),
    (r"voltage:destripe_lfp:const:", "outside", "default LF band-pass design"),
    (r"voltage:destripe_lfp:(not|kwdrop):L39[57]", "gap-closed", "destripe_lfp forwards labels / filter / spatial-filter choice (C05 `destripe_lfp:arguments-not-forwarded`); re-run: caught"),
    (r"voltage:destripe_lfp:kwdrop:L396", "outside", "arguments of the automatic channel detection used only with channel_labels=True"),
    (r"voltage:decompress_destripe_cbin:const:L(447|468|469)", "outside", "default batch size and default worker count"),
    (r"voltage:decompress_destripe_cbin:kwdrop:.*open=", "equivalent", "open=True is the default"),
    (r"voltage:decompress_destripe_cbin:argswap:L454", "gap-closed", "caller-chosen filter settings through the file pipeline (C06 opt 7)"),
    (r"voltage:decompress_destripe_cbin:arith:L469", "outside", "default worker count"),
]


def load(path):
    rows = []
    for ln in open(path, errors="replace"):
        ln = ln.rstrip("\n")
        if ln.startswith("{"):
            try:
                d = json.loads(ln)
                rows.append((d["verdict"], d["id"], d.get("detail", "")))
            except Exception:
                pass
            continue
        m = re.match(r"^(CAUGHT-TIMEOUT|CAUGHT|SURVIVED|INCONCLUSIVE|INVALID)\s+(\S+)\s*(.*)$", ln)
        if m:
            rows.append((m.group(1), m.group(2), m.group(3)))
    seen, out = set(), []
    for r in rows:
        if r[1] not in seen:
            seen.add(r[1])
            out.append(r)
    return out


def classify(mid):
    for pat, cls, why in RULES:
        if re.search(pat, mid):
            return cls, why
    return "untriaged", ""


def main():
    rows = load(sys.argv[1])
    n = collections.Counter(v for v, _, _ in rows)
    print(f"mutants run: {len(rows)}  " + "  ".join(f"{k}={v}" for k, v in sorted(n.items())))
    surv = [(mid, det) for v, mid, det in rows if v in ("SURVIVED", "INCONCLUSIVE")]
    by = collections.defaultdict(list)
    for mid, det in surv:
        cls, why = classify(mid)
        by[(cls, why)].append(mid)
    tot = collections.Counter()
    for (cls, why), ids in by.items():
        tot[cls] += len(ids)
    print("survivors by class:", dict(tot))
    print()
    print("| class | n | mutants (function:kind, lines) | why |")
    print("|-------|---|--------------------------------|-----|")
    for (cls, why), ids in sorted(by.items(), key=lambda kv: (kv[0][0], -len(kv[1]))):
        short = collections.Counter(re.sub(r":L\d+_.*", "", i) for i in ids)
        names = ", ".join(f"{k} x{v}" for k, v in short.most_common(6))
        print(f"| {cls} | {len(ids)} | {names} | {why} |")
    un = [i for (cls, _), ids in by.items() if cls == "untriaged" for i in ids]
    if un:
        print("\nuntriaged:")
        for i in un:
            print("  ", i)


if __name__ == "__main__":
    main()
