#!/usr/bin/env python3
"""development-time helper: summarise a selftest/automut.py sweep (log or jsonl) into the table of DESIGN.md section 12.

usage: automut_report.py <log-or-jsonl> [--md]
Every survivor is put into one of three classes by the hand-written triage rules below (first match wins):
  equivalent   - the edit cannot change anything observable (dropped keyword equal to the default, index 0 -> -1 of a one-element tuple, ...)
  outside      - observable, but on behaviour no property speaks about (defaults of metadata-less readers, filter design constants,
                 the taper shape of the mute gain, which side an exact threshold belongs to, log / warning only branches)
  gap-closed   - a real gap of the workload at the time of the sweep; the class that closes it is named (the sweep ran on an older
                 snapshot of /verif; the mutant was re-run against the current check where noted)
Anything unmatched is listed as 'untriaged'.
"""
import collections
import json
import re
import sys

RULES = [
    # ---- spikeglx.Reader
    (r"spikeglx:Reader\.__init__:", "outside", "defaults of a reader opened WITHOUT metadata (nc / ns / fs guesses from the file size, s2v default, trace header of a flat binary): C01/C02 are about SpikeGLX recordings, which carry metadata; the explicit-argument path is covered (fix a761246)"),
    (r"spikeglx:Reader\.open:not:", "outside", "`if not self.ignore_warnings` guards a log message only"),
    (r"spikeglx:Reader\.open:kwdrop:.*mode=", "equivalent", "memmap mode r vs default r+ on a readable file"),
    (r"spikeglx:Reader\.(read|read_sync_digital):(cmp|const):L(289|292|328|331)", "equivalent", "negative-step branch: `step < 0` vs `<= 0` / `< 1` (step 0 is not a slice), empty-selection fallback slice(0, 0) vs slice(1, 0)"),
    (r"spikeglx:Reader\.read:kwdrop:.*copy=", "equivalent", "astype to another dtype copies anyway"),
    (r"spikeglx:Reader\.read_sync_digital:not:", "outside", "warning-only branch"),
    (r"spikeglx:Reader\.read_sync:(cmp|const):L361", "gap-closed", "empty selections through read_sync on recordings with analog sync lines (C10 `read_sync:nidq-empty-selection`; C01 already had it)"),
    (r"spikeglx:Reader\.read_sync:const:L362", "outside", "the floor percentile (10) of the analog threshold: any value below the share of low samples gives the same lines"),
    (r"spikeglx:Reader\.read_sync:cmp:L36[56]", "outside", "a sample exactly ON the analog threshold"),
    (r"spikeglx:Reader\.compress_file:kwdrop:.*outmeta=", "equivalent", "default .ch name equals the explicit one"),
    (r"spikeglx:Reader\.decompress_to_scratch:not:L422", "gap-closed", "uncaught exceptions escaping from the library are violations (vlib/worker.py), no longer harness errors"),
    (r"spikeglx:Reader\.decompress_to_scratch:kwdrop:.*parents=", "gap-closed", "scratch directories whose parents do not exist yet (C02)"),
    (r"spikeglx:Reader\.decompress_to_scratch:kwdrop:", "equivalent", "dropped keyword equals mtscomp's default / only skips a redundant read-back"),
    (r"spikeglx:read_meta_data:const:L507", "equivalent", "v[0] vs v[-1] of a one-element list"),
    (r"spikeglx:write_meta_data:kwdrop:.*trim=", "equivalent", "positional formatting of a non-integer: trim '-' and the default give the same text"),
    (r"spikeglx:_get_savedChans_subset:", "equivalent", "another spelling of the same channel list (`384` vs `384:384`, one-channel groups): C03 compares the LIST the string denotes"),
    (r"spikeglx:_get_type_from_meta:const:", "equivalent", "sentinel comparisons that cannot be true for real counts"),
    (r"spikeglx:_split_geometry_into_shanks:const:", "equivalent", "np.where(...)[0] vs [-1] of a 1-tuple"),
    (r"spikeglx:_map_channels_from_meta:const:L75[58]", "outside", "the `flag` column of the site map (not an attribute the property lists; C08 compares encodings 'flag excepted')"),
    (r"spikeglx:geometry_from_meta:(kwdrop|arith|const|not):L69[789]", "gap-closed", "metadata without any site map: default layout of THAT probe generation (C08 `geometry:default-layout:*`)"),
    (r"spikeglx:_conversion_sample2v_from_meta:kwdrop:.*dtype=", "equivalent", "float32 vs float64 ones"),
    (r"spikeglx:_conversion_sample2v_from_meta:const:L804", "gap-closed", "NP2 LF-band headers (C09) and LF-band recordings (C01)"),
    # ---- neuropixel
    (r"neuropixel:split_trace_header:const:", "equivalent", "np.where(...)[0] vs [-1]"),
    (r"neuropixel:NP2Converter\.init_params:const:L285", "equivalent", "default window length: the outputs do not depend on the window (that is C12 / C03 themselves)"),
    (r"neuropixel:NP2Converter\.init_params:const:L298", "outside", "shape of the edge taper: changes LF samples within the first / last 144 AP samples only ('away from the two file edges')"),
    (r"neuropixel:NP2Converter\._prepare_files_NP24:", "equivalent", "mkdir(parents=True) with an existing parent; [0] vs [-1]"),
    (r"neuropixel:NP2Converter\._prepare_files_NP21:", "equivalent", "assert_shanks=False path gives the same channel list for a single-shank probe"),
    (r"neuropixel:NP2Converter\._process_NP2[14]:(slice|kwdrop|arith)", "equivalent", "one column too many handed to a function that indexes by channel list; keyword equal to the default; offset 0 added or subtracted; NP2 ap and lf volts-per-bit are equal"),
    (r"neuropixel:NP2Converter\.check_NP24:argswap:L555_swap_args_0,1", "gap-closed", "storage fault in every verification window (C04 class `corrupt`)"),
    (r"neuropixel:NP2Converter\.check_NP24:const:L555", "equivalent", "verification windows overlapping by one sample still cover everything"),
    (r"neuropixel:NP2Converter\.check_NP24:(not|cmp|const):L561", "gap-closed", "fault in the sync copy of the first / a later shank (C04 class `corrupt`; repo fix 71ec437)"),
    (r"neuropixel:NP2Converter\.compress_NP2[14]:not:", "equivalent", "unlink(missing_ok=True) of a file the compression replaces anyway"),
    (r"neuropixel:NP2Converter\.compress_NP21:kwdrop:.*sort=", "gap-closed", "C12 fixed combination (NP2.1, compress, flat original, same converter object); anchored to C04 only in the sweep"),
    (r"neuropixel:NP2Converter\._writemetadata_ap:(arith|const):L735", "gap-closed", "declared channel counts of the per-shank ap metas (C03 `split:shank-meta-counts`)"),
    (r"neuropixel:NP2Converter\._writemetadata_(ap|lf):(arith|const):L(742|770)", "gap-closed", "saved-channel subset of the written metas lists as many channels as the file holds (C03 / C12)"),
    (r"neuropixel:NP2Converter\._writemetadata_lf:(arith|const):L76[01]", "gap-closed", "acquired counts of the LF metas (C12 `lfp:meta-channels:acquired-or-subset`)"),
    (r"neuropixel:NP2Reconstructor\.__init__:kwdrop:", "equivalent", "mkdir of a folder that does not exist yet, parent present"),
    (r"neuropixel:NP2Reconstructor\.(process|_prepare_files|_get_chans):const:", "equivalent", "[0] vs [-1] on equal entries / unreachable early return"),
    (r"neuropixel:NP2Reconstructor\._prepare_files:kwdrop:.*sort=", "equivalent", "the reconstructor reads the shank files through the raw memmap (sr._raw), which the sort flag does not touch"),
    (r"neuropixel:NP2Reconstructor\.write_metadata:", "equivalent", "an existing metadata file with the right size is kept - it is the original's"),
    # ---- voltage
    (r"voltage:agc:(arith|const):L(37|41)", "equivalent", "another window length / whitening constant: data x gain is still the input"),
    (r"voltage:agc:kwdrop:.*gpu=", "equivalent", "gpu=False is the default"),
    (r"voltage:kfilt:kwdrop:", "equivalent", "keyword equal to the default"),
    (r"voltage:kfilt:(const|arith|argswap):", "outside", "filter-internal design (default order, lateral padding and taper of the k-filter): the property constrains the end-to-end 40 dB / 90 % and grouped == per-group"),
    (r"voltage:car:kwdrop:", "equivalent", "collection=None is the default"),
    (r"voltage:saturation:cmp:L259", "outside", "exactly AT the slew limit (property: exceed, code: >=)"),
    (r"voltage:saturation:(kwdrop|const|argswap):L(259|260|262)", "equivalent", "axis=-1 default; appended slew 0 vs -1; logical_or arguments swapped"),
    (r"voltage:saturation:(argswap|const):L265", "outside", "taper shape of the mute gain between 0 (on flags) and 1 (far away): not constrained by the three stated clauses"),
    (r"voltage:interpolate_bad_channels:cmp:L300", "outside", "a weight exactly equal to 0.005"),
    (r"voltage:interpolate_bad_channels:", "equivalent", "[0] vs [-1]; |dx + i dy| symmetric in the sign of dy; bad-channel weights set to -1 are zeroed by the 0.005 threshold"),
    (r"voltage:_get_destripe_parameters:(cmp|const)", "outside", "default filter design constants (corner, AGC length, padding)"),
    (r"voltage:_get_destripe_parameters:not:", "gap-closed", "settings requested through destripe (C05 class `through-destripe`); re-run: caught"),
    (r"voltage:destripe:argswap:L362", "gap-closed", "caller-chosen butter_kwargs / k_kwargs through destripe (C05) and through the file pipeline (C06 opt 7)"),
    (r"voltage:destripe:(kwdrop|argswap|const):L37[589]", "equivalent", "axis=1 of a 2-D array; x / y swapped in a distance; [0] vs [-1]"),
    (r"voltage:destripe_lfp:const:", "outside", "default LF band-pass design"),
    (r"voltage:destripe_lfp:(not|kwdrop):L39[57]", "gap-closed", "destripe_lfp forwards labels / filter / spatial-filter choice (C05 `destripe_lfp:arguments-not-forwarded`); re-run: caught"),
    (r"voltage:destripe_lfp:kwdrop:L396", "outside", "arguments of the automatic channel detection used only with channel_labels=True"),
    (r"voltage:decompress_destripe_cbin:const:L(447|468|469)", "outside", "default batch size and default worker count"),
    (r"voltage:decompress_destripe_cbin:kwdrop:.*open=", "equivalent", "open=True is the default"),
    (r"voltage:decompress_destripe_cbin:argswap:L454", "gap-closed", "caller-chosen filter settings through the file pipeline (C06 opt 7)"),
    (r"voltage:decompress_destripe_cbin:arith:L469", "outside", "default worker count"),
    (r"voltage:decompress_destripe_cbin:(kwdrop|const):L(470|472|473|523|525|526|528|529)", "equivalent", "arguments of the pyfftw plans and scratch arrays (threads, axes of a 2-D plan, float32 of an array that is float32 anyway): the stand-in for pyfftw - and pyfftw itself - compute the same transform"),
    (r"voltage:decompress_destripe_cbin:kwdrop:L(483|493)", "equivalent", "dtype of an all-False placeholder / of a buffer that is float32 already"),
    (r"voltage:decompress_destripe_cbin:const:L487", "equivalent", "np.float32(k).nbytes is 4 for every k"),
    (r"voltage:decompress_destripe_cbin:(const|arith):L(494|498|588)", "outside", "VALUES of the RMS time stamps (the property fixes one entry per batch, which is checked)"),
    (r"voltage:decompress_destripe_cbin:const:L516_2->3", "gap-closed", "a recording a little longer than one batch (C06 base case ns = nbatch + 700, 3 workers): the last batch is every later worker's FIRST batch; re-run: caught (`writeset:gap`)"),
    (r"voltage:decompress_destripe_cbin:(cmp|const):L516", "equivalent", "guard of workers starting at or beyond the last batch: `n_batch > 0` vs `>= 0` / `> -1` differ for the first worker only, which never starts beyond the end"),
    (r"voltage:decompress_destripe_cbin:(cmp|const):L521", "equivalent", "a worker's upper bound: with the bounds exchanged the earlier workers run on to the end of the file (redundant, identical writes) and cover what the last one leaves; re-run against the current check: survives"),
    (r"voltage:decompress_destripe_cbin:const:L541", "equivalent", "`i_chunk == 0` vs `== -1`: only moves the first worker's first batch start by 0"),
    (r"voltage:decompress_destripe_cbin:argswap:L(549|574)", "equivalent", "np.minimum arguments swapped; x / y swapped in a distance"),
    (r"voltage:decompress_destripe_cbin:kwdrop:L552", "equivalent", "fs of the saturation call equals the default (30 kHz recordings; the slew criterion never decides a flag of the workload)"),
    (r"voltage:decompress_destripe_cbin:const:L575_0", "equivalent", "np.where(...)[0] vs [-1]"),
    (r"voltage:decompress_destripe_cbin:const:L575_3", "gap-closed", "rejection recordings now hold an outside-brain top block (C06 `make_recording(faults=True)`); fires when the detector labels it"),
    (r"voltage:decompress_destripe_cbin:(cmp|const):L60[34]", "gap-closed", "a padding of exactly one sample in every run (C06 opt 2, case 8)"),
    (r"voltage:decompress_destripe_cbin:not:L608", "outside", "compute_rms=False is not part of the property (the RMS file is stated for the default)"),
    (r"voltage:decompress_destripe_cbin:kwdrop:L613", "equivalent", "the worker count only reaches joblib (the tasks are the same list)"),
    (r"voltage:decompress_destripe_cbin:const:L627", "equivalent", "shape[0] vs shape[-1] of a 1-D array"),
    (r"voltage:detect_bad_channels:.*:L(65[7-9]|66[01])", "equivalent", "dead code (`rneighbours` is never called)"),
    (r"voltage:detect_bad_channels:.*:L70[12]", "equivalent", "dead branch (channels_similarity is always called with nmed=0)"),
    (r"voltage:detect_bad_channels:.*:L75[01]", "outside", "display branch"),
    (r"voltage:detect_bad_channels:const:L(731|737|739)_0", "equivalent", "np.where(...)[0] vs [-1]"),
    (r"voltage:detect_bad_channels:(cmp|argswap):L73[1-9]", "equivalent", "strict vs non-strict comparison of floating-point features; logical_or arguments swapped"),
    (r"voltage:detect_bad_channels:const:L741", "equivalent", "cumsum started at 1: the same groups"),
    (r"voltage:detect_bad_channels:(cmp|const|not):L71[057]", "outside", "LF-band branch and band switch (quantifier: AP band, fs = 30 kHz)"),
    (r"voltage:detect_bad_channels:const:L714", "outside", "design constants of the detector's high-pass"),
    (r"voltage:detect_bad_channels:.*:L(672|673|688|69[3-6]|706|72[56])", "outside", "internals of the detector's features (detrend padding at the probe ends, DC handling of zero-mean data, zero-lag vs lag-1 normalisation on a smooth background, width of the high-frequency band): the property fixes the LABELS of clear faults on recordings with a coherent background, which every one of these variants still produces on the workload"),
    (r"voltage:detect_bad_channels_cbin:", "outside", "display branch (median features and snippet handed to the plot)"),
    (r"voltage:svd_denoise_npx:const:L939", "outside", "default rank"),
    (r"voltage:(svd_denoise_npx|_svd_denoise):", "equivalent", "dtype of an all-zero int array; [0] vs [-1]; full vs economy SVD truncated to the same rank"),
    # ---- ibldsp.utils
    (r"utils:sync_timestamps:not:L28", "outside", "linear and interpolating mode swapped: both satisfy every clause (accuracy at held-out events, drift, pairs); which interpolant answers is not stated"),
    (r"utils:sync_timestamps:.*:L(5[5-9])", "outside", "several b events within tbin of one a event: impossible with spacings >= 0.5 s (quantifier)"),
    (r"utils:sync_timestamps:", "equivalent", "raster value 1 vs 2; x.shape[0] vs [-1]; mode='full' is the default; ib initialised to -2; [0] of np.where / of a one-element array; `ib >= 0` vs `> 0` only re-offers the b event already paired with a[0], which lies farther than tbin from every other a; setxor1d symmetric; closure default linear=linear"),
    (r"utils:parabolic_max:", "outside", "maxima ON the first / last sample and exactly flat tops (clamping and guard branches), commutative swaps: interior maxima of 1-D and 2-D inputs are checked and every other edit of the function is caught"),
    (r"utils:(fronts|rises):const:", "equivalent", "np.where(...)[0] vs [-1] of a 1-D input"),
    (r"utils:rises:cmp:", "outside", "a sample exactly ON the step"),
    (r"utils:WindowGenerator\.", "equivalent", "max / min arguments swapped; sym=True is the default"),
    (r"utils:make_channel_index:", "equivalent", "column vs row sums of a symmetric neighbour matrix; np.full with an int fill value; shape[0] vs [-1] of a 1-D array"),
    (r"utils:rms:", "outside", "VALUES of the RMS quality file / feature: no property states them (C06: one entry per batch)"),
    # ---- ibldsp.fourier
    (r"fourier:convolve:", "equivalent", "w.shape[-1] vs [0], concatenate axis and w.shape[:-1] of a 1-D kernel; zero padding in the array's own dtype vs float64; axis=-1 defaults; (nsw + 1) % 2 == (nsw - 1) % 2"),
    (r"fourier:ns_optim_fft:", "equivalent", "table a little larger / smaller (sizes beyond 2^24 are not reached); meshgrid arguments swapped before a product"),
    (r"fourier:dephas:", "outside", "dephas is not named by any property"),
    (r"fourier:(_freq_filter|lp|fscale):", "equivalent", "b[0:3] handed to a function that reads b[0], b[1]; typ equal to the default; axis=0 of a 1-D array; [0] vs [-1]"),
    # ---- ibldsp.waveform_extraction / cadzow / smooth
    (r"waveform_extraction:WaveformsLoader\.(load_waveforms|__init__):.*:L(51[4-9]|57[4-9]|58[23])", "outside", "loader branch for the legacy 4-D file format (data_version 1), which the current extraction never writes"),
    (r"waveform_extraction:WaveformsLoader\.load_waveforms:.*:L(586|592)", "equivalent", "[0] of np.where; log-only branch"),
    (r"waveform_extraction:WaveformsLoader\.__init__:kwdrop:", "equivalent", "reset_index(drop=True) followed by dropping the index column; dtype of a memmap opened for reading"),
    (r"waveform_extraction:extract_wfs_cbin:const:L329", "outside", "default worker count"),
    (r"waveform_extraction:extract_wfs_cbin:argswap:L357", "equivalent", "np.arange(0, chunk, ns) yields ONE chunk [0, ns): the result does not depend on the chunking (that is the property)"),
    (r"waveform_extraction:extract_wfs_cbin:.*:L(37[7-9]|38[01])", "outside", "channel labels for the preprocessing steps (the workload extracts with preprocess_steps=[]: only then can a waveform equal the source)"),
    (r"waveform_extraction:extract_wfs_cbin:argswap:L406", "outside", "header and channel labels exchanged in the task arguments: both are used by preprocessing steps only"),
    (r"waveform_extraction:extract_wfs_cbin:kwdrop:L440", "outside", "dtype of the saved templates (values are compared)"),
    (r"waveform_extraction:(extract_wfs_cbin|_make_wfs_table|extract_wfs_array|aggregate_by_clusters|write_wfs_chunk):", "equivalent", "shape[0] vs [-1] of 1-D arrays; n_jobs only reaches joblib; nan_to_num on a column without NaN; sentinel -1 vs -2; min() arguments swapped; one more padding row / sample read than needed; first chunk read from sample 1 with all indices moved by one; verbose-only code; `sample >= 0` vs `> 0` (a spike at sample 0 is never valid)"),
    (r"cadzow:(trajectory|traj_matrix_indices):", "equivalent", "[0] vs [-1] of np.where; index rows beyond the matrix are never read"),
    (r"cadzow:denoise:argswap:L90", "equivalent", "np.minimum arguments swapped"),
    (r"cadzow:denoise:argswap:L91", "outside", "trajectory(y, x): the embedding of the transposed layout satisfies every stated clause as well (identity at full rank, plane wave at rank one, noise reduced)"),
    (r"smooth:rolling_window:(not|cmp|const):L62", "outside", "windows of 3-4 samples returned unsmoothed or smoothed: constants and length are kept either way"),
    (r"smooth:rolling_window:argswap:", "equivalent", "np.convolve is commutative"),
    (r"smooth:non_uniform_savgol:(const|cmp):L11[04]", "outside", "argument validation (even window, order equal to the window): the property speaks about valid calls"),
    (r"smooth:non_uniform_savgol:const:", "equivalent", "range(-1, n): one more iteration whose writes are overwritten by the regular ones"),
    (r"smooth:smooth_interpolate_savgol:", "outside", "the property states that NaN gaps are filled with FINITE values (checked); which interpolant fills them is not stated; shape[0] vs [-1], [0] of np.where"),
    (r"smooth:lp:", "outside", "corner of the smoother's low-pass (design constant); shape[0] vs [-1] of a 1-D series"),
    # ---- ibldsp.spiketrains
    (r"spiketrains:_spikes_venn:const:L(111|115)", "outside", "default bin width / default chunk length (the property: every spike in exactly one region regardless of chunking, checked for chosen and default values)"),
    (r"spiketrains:_spikes_venn:const:L120", "equivalent", "one more (empty) chunk"),
    (r"spiketrains:_spikes_venn:(const|arith):L12[45]", "equivalent", "more region names / a longer accumulator than regions: the extra entries stay 0 and are not reported"),
    (r"spiketrains:_spikes_venn:argswap:L153", "equivalent", "bin sizes exchanged inside the 2-D count of one chunk: the peeling works on the same multiset of spikes"),
    (r"spiketrains:_spikes_venn:const:L15[89]", "equivalent", "lower bin edge -1 instead of 0 for non-negative samples / channels"),
    (r"spiketrains:spikes_venn[23]:argswap:", "outside", "INCONCLUSIVE, not survived: fs and num_channels exchanged (30000 'channels') make the 2-D count allocate gigabytes, the worker is killed by the kernel and the check exits 2 (inconclusive) - it does not report 'held'; reproduced on re-run"),
    # ---- ibldsp.waveforms
    (r"waveforms:compute_spike_features:const:L642", "equivalent", "1000 vs 1001 / 999 in the conversion of the recovery offset: absorbed by the rounding to whole samples"),
    (r"waveforms:compute_spike_features:kwdrop:L646", "gap-closed", "recovery_slope checked against its definition at the caller's sampling rate (C14 `features:recovery_slope`); re-run: caught"),
    (r"waveforms:compute_spike_features:not:L648", "outside", "optional return of the peak-channel traces is checked; the negated flag only changes which of the two checked forms is returned by default"),
    (r"waveforms:shift_waveform:const:L767", "gap-closed", "clusters whose copies carry their own background noise: the delay must be measured on the template's peak trace (C07 shift_waveform class); re-run: caught"),
    (r"waveforms:(shift_waveform|wave_shift_corrmax):const:", "equivalent", "range(0, n) vs range(-1, n) re-does the last spike first; shape[0] vs [-1] of a 1-D array"),
    (r"waveforms:(invert_peak_waveform|find_tip_trough):cmp:", "outside", "a peak of exactly 0 / a ratio of exactly 1.5"),
    (r"waveforms:(invert_peak_waveform|find_tip_trough|recovery_point):const:", "equivalent", "[0] vs [-1] of np.where; `len(...) > 0` vs `> -1` runs the block on an empty index"),
    (r"waveforms:find_tip_trough:cmp:L208", "equivalent", "`len(...) > 0` vs `>= 0` runs the block on an empty index"),
    (r"waveforms:half_peak_point:", "equivalent", "argmax of `> 0` vs `>= 0` on values that are never exactly 0 (noise); marker value 2 instead of 1 before an argmax"),
    (r"waveforms:recovery_point:cmp:", "outside", "a recovery offset as long as the waveform itself (checked range: offset < length); `len(...) > 0` vs `>= 0`"),
]


def load(path):
    rows = []
    for ln in open(path, errors="replace"):
        ln = ln.rstrip("\n")
        if ln.startswith("{"):
            try:
                d = json.loads(ln)
                rows.append((d["verdict"], d["id"], d.get("detail", "")))
            except Exception:
                pass
            continue
        m = re.match(r"^(CAUGHT-TIMEOUT|CAUGHT|SURVIVED|INCONCLUSIVE|INVALID)\s+(\S+)\s*(.*)$", ln)
        if m:
            rows.append((m.group(1), m.group(2), m.group(3)))
    seen, out = set(), []
    for r in rows:
        if r[1] not in seen:
            seen.add(r[1])
            out.append(r)
    return out


def load_all(path):
    out = []
    for ln in open(path, errors="replace"):
        if ln.startswith("{"):
            try:
                d = json.loads(ln)
                out.append((d["verdict"], d["id"], d.get("detail", "")))
            except Exception:
                pass
    return out


def classify(mid):
    for pat, cls, why in RULES:
        if re.search(pat, mid):
            return cls, why
    return "untriaged", ""


def main():
    rows = load(sys.argv[1])
    # further files: later re-runs of single mutants against the CURRENT checks (selftest/automut.py --match ...): a survivor / inconclusive mutant of
    # the sweep that every re-run catches is counted as caught on re-run
    rer = collections.defaultdict(list)
    for extra in [a for a in sys.argv[2:] if not a.startswith("--")]:
        for v, mid, det in load_all(extra):
            rer[mid].append(v)
    rows = [(("CAUGHT-ON-RERUN" if v in ("SURVIVED", "INCONCLUSIVE") and rer.get(mid) and all(x.startswith("CAUGHT") for x in rer[mid]) else v), mid, det) for v, mid, det in rows]
    n = collections.Counter(v for v, _, _ in rows)
    print(f"mutants run: {len(rows)}  " + "  ".join(f"{k}={v}" for k, v in sorted(n.items())))
    surv = [(mid, det) for v, mid, det in rows if v in ("SURVIVED", "INCONCLUSIVE")]
    by = collections.defaultdict(list)
    for mid, det in surv:
        cls, why = classify(mid)
        by[(cls, why)].append(mid)
    tot = collections.Counter()
    for (cls, why), ids in by.items():
        tot[cls] += len(ids)
    print("survivors by class:", dict(tot))
    print()
    print("| class | n | mutants (function:kind, lines) | why |")
    print("|-------|---|--------------------------------|-----|")
    for (cls, why), ids in sorted(by.items(), key=lambda kv: (kv[0][0], -len(kv[1]))):
        short = collections.Counter(re.sub(r":L\d+_.*", "", i) for i in ids)
        names = ", ".join(f"{k} x{v}" for k, v in short.most_common(6))
        print(f"| {cls} | {len(ids)} | {names} | {why} |")
    un = [i for (cls, _), ids in by.items() if cls == "untriaged" for i in ids]
    if un:
        print("\nuntriaged:")
        for i in un:
            print("  ", i)


if __name__ == "__main__":
    main()
