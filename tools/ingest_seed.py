#!/usr/bin/env python3
"""development-time helper: confirm an independently seeded change and store it under /verif/seeded/<id>/.

usage: ingest_seed.py <PROPERTY> <worktree> <id> [--needs "..."]
Confirms in the worktree: (1) demo exits 0 without the patch and non-zero with it, (2) the unit tests' passing set with the patch
contains the baseline's stable_pass list.  Nothing is ever applied to /repo.
"""
import json
import subprocess
import sys
import xml.etree.ElementTree as ET
from pathlib import Path

HOME = Path(__file__).resolve().parents[1]


def sh(cmd, cwd, env=None, timeout=1800):
    import os
    e = dict(os.environ)
    e["PYTHONPATH"] = f"{cwd}/src"
    e.pop("IBL_NEUROPIXEL_VERIF", None)
    if env:
        e.update(env)
    return subprocess.run(cmd, cwd=cwd, shell=True, capture_output=True, text=True, env=e, timeout=timeout)


def main():
    prop, wt, sid = sys.argv[1:4]
    needs = sys.argv[sys.argv.index("--needs") + 1] if "--needs" in sys.argv else ""
    wt = Path(wt)
    pl = prop.lower()
    demo = wt / f"demo_{pl}.py"
    assert demo.exists(), f"{demo} missing"
    diff = sh("git diff -- src", wt).stdout
    assert diff.strip(), "empty diff"
    assert "src/tests" not in diff, "patch touches tests"
    # (1) demo with / without
    with_rc = sh(f"/venv/bin/python demo_{pl}.py", wt, timeout=600).returncode
    # without the patch: a pristine export of HEAD next to the worktree (never `git stash`: the stash is shared between worktrees)
    import shutil
    import tempfile
    pristine = Path(tempfile.mkdtemp(prefix="verif-seed-pristine-", dir="/var/tmp"))
    try:
        subprocess.run(f"git -C {wt} archive HEAD src | tar -x -C {pristine}", shell=True, check=True)
        shutil.copy(demo, pristine / demo.name)
        without_rc = sh(f"/venv/bin/python demo_{pl}.py", str(pristine), timeout=600).returncode
    finally:
        shutil.rmtree(pristine, ignore_errors=True)
    print(f"demo: without patch rc={without_rc}, with patch rc={with_rc}")
    # (2) unit tests with the patch
    # private TMPDIR: two test classes use fixed names under the system temp dir and collide with concurrent runs
    import tempfile as _tf
    tmpd = _tf.mkdtemp(prefix="verif-seed-tmp-", dir="/var/tmp")
    junit = f"{tmpd}-junit.xml"
    r = sh(f"/venv/bin/python -m pytest -q -p no:cacheprovider --timeout=900 --continue-on-collection-errors --junitxml={junit}", wt,
           env={"TMPDIR": tmpd}, timeout=3000)
    import shutil as _sh
    _sh.rmtree(tmpd, ignore_errors=True)
    base = set(json.load(open("/root/.vp/BASELINE.json"))["stable_pass"])
    passed = set()
    tree = ET.parse(junit)
    Path(junit).unlink()
    for tc in tree.iter("testcase"):
        if not any(c.tag in ("failure", "error", "skipped") for c in tc):
            passed.add(f"{tc.get('classname')}::{tc.get('name')}")
    missing = sorted(base - passed)
    print(f"unit tests with the patch: {len(passed)} passed, baseline tests now failing: {missing}")
    ok = without_rc == 0 and with_rc != 0 and not missing
    out = HOME / "seeded" / sid
    if ok:
        out.mkdir(parents=True, exist_ok=True)
        (out / "patch.diff").write_text(diff)
        (out / f"demo_{pl}.py").write_text(demo.read_text())
        note = wt / f"NOTE_{pl}.md"
        if note.exists():
            (out / "NOTE.md").write_text(note.read_text())
        (out / "meta.json").write_text(json.dumps({
            "property": prop, "id": sid, "author": "independent sub-agent (saw only the property text and a scratch worktree)",
            "needs_to_manifest": needs,
            "confirmed": {"demo_without_patch_rc": without_rc, "demo_with_patch_rc": with_rc,
                          "baseline_tests_failing_with_patch": missing, "tests_passed_with_patch": len(passed),
                          "commands": [f"cd <worktree> && PYTHONPATH=<worktree>/src /venv/bin/python demo_{pl}.py  (with and without the patch)",
                                       "cd <worktree> && PYTHONPATH=<worktree>/src /venv/bin/python -m pytest -q -p no:cacheprovider --junitxml=... ; compared with BASELINE.json stable_pass"]},
        }, indent=1) + "\n")
        print(f"stored under {out}")
    else:
        print("NOT CONFIRMED - nothing stored")
    return 0 if ok else 1


if __name__ == "__main__":
    sys.exit(main())
