#!/usr/bin/env python3
"""compare a junit xml of the repository's own suite with BASELINE.json's stable_pass list"""
import json, sys, xml.etree.ElementTree as ET
base = set(json.load(open('/root/.vp/BASELINE.json'))['stable_pass'])
t = ET.parse(sys.argv[1])
passed = set()
for tc in t.iter('testcase'):
    ok = not any(c.tag in ('failure', 'error', 'skipped') for c in tc)
    if ok:
        passed.add(f"{tc.get('classname')}::{tc.get('name')}")
missing = sorted(base - passed)
print(f"baseline {len(base)} passed-now {len(passed)} missing {len(missing)}")
for m in missing: print("  MISSING", m)
sys.exit(1 if missing else 0)
