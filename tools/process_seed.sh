#!/bin/bash
# development-time helper: first verdict of the quick tier against a sub-agent's worktree, then confirmation + storage (tools/ingest_seed.py).
# usage: tools/process_seed.sh <round> <cxx> "<needs to manifest>"        (worktree /tmp/seed<round>/<cxx>)
# Output: /var/tmp/seedproc/<round>-<cxx>.{verdict,ingest}.  Never touches /repo; evidence of these runs goes to a scratch directory.
R=$1; P=$2; NEEDS=$3
U=$(echo "$P" | tr a-z A-Z)
WT=/tmp/seed$R/$P
OUT=/var/tmp/seedproc; mkdir -p $OUT
cd "$(dirname "$0")/.."
EV=$(mktemp -d /var/tmp/seedproc-ev-XXXX)
VERIF_REPO=$WT VERIF_EVIDENCE_DIR=$EV VERIF_JOBS=${VERIF_JOBS:-8} ./check $U quick > $OUT/$R-$P.verdict 2>&1
echo "rc=$?" >> $OUT/$R-$P.verdict
rm -rf $EV
python3 tools/ingest_seed.py $U $WT $P-agent$R --needs "$NEEDS" > $OUT/$R-$P.ingest 2>&1
echo "rc=$?" >> $OUT/$R-$P.ingest
echo "$P: verdict $(tail -1 $OUT/$R-$P.verdict) keys: $(grep -o 'key=[^ ]*' $OUT/$R-$P.verdict | sort -u | head -8 | tr '\n' ' ') | ingest $(tail -1 $OUT/$R-$P.ingest)"
