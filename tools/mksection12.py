#!/usr/bin/env python3
"""development-time helper: (re)write section 12 of DESIGN.md from the committed sweep results
usage: mksection12.py   (reads selftest/automut_sweep.jsonl and selftest/automut_reruns.jsonl, runs tools/automut_report.py on them)"""
import subprocess
import sys
from pathlib import Path

HOME = Path(__file__).resolve().parents[1]
sweep, rer = HOME / "selftest" / "automut_sweep.jsonl", HOME / "selftest" / "automut_reruns.jsonl"
out = subprocess.run([sys.executable, str(HOME / "tools" / "automut_report.py"), str(sweep), str(rer)], capture_output=True, text=True, check=True).stdout
head, _, table = out.partition("\n\n")
lines = [ln for ln in table.splitlines() if ln.startswith("|")]
un = out.split("untriaged:")[1].strip() if "untriaged:" in out else ""
text = f"""## 12. Mechanical mutants: results of the sweep

`selftest/automut.py --run` was run once over the whole anchored code (about 9 hours, in the background of the work described in section 11; the
checks it ran against are the snapshot of /verif at its start, so mutants the later workload classes would catch are still counted as survivors
unless they were re-run). Results are committed as `selftest/automut_sweep.jsonl`; single mutants re-run later against the current checks
(`selftest/automut.py --match <regex>`) are in `selftest/automut_reruns.jsonl`. Mutants whose identifier coincides (the same edit at two places of one line)
are counted once.

```
{head.strip()}
```

INVALID = the edit could not be generated for that syntax node (nothing was run). CAUGHT-TIMEOUT = the mutant made the check exceed its watchdog
(an endless loop in the library): reported as inconclusive by the check, counted as caught here because the run cannot pass. Every survivor was
read and put into one of three classes by the rules in `tools/automut_report.py` (first match wins): *equivalent* (nothing observable changes),
*outside* (observable, but on behaviour no property speaks about - defaults of metadata-less readers, filter design constants, log-only branches,
which side an exact threshold belongs to, display code), *gap-closed* (a real gap of the workload at the time; the class that closes it is named
and the mutant was re-run where noted). Nothing is left untriaged{' except:' if un else '.'}
{un}

{chr(10).join(lines)}

What the sweep changed: the gap-closed rows above each became a workload class (empty selections through `read_sync`, default layouts without a site
map, declared channel counts of the written metadata, arguments forwarded by `destripe_lfp` / `destripe` / the file pipeline, the storage-fault
class of C04 - which found the defect fixed as `71ec437` -, a padding of exactly one sample, a recording a little longer than one batch, an
outside-brain block under channel rejection - which found the defect fixed as `a445841` -, `recovery_slope`, noisy clusters for `shift_waveform`),
and library exceptions escaping a check's own `try` blocks are now violations (`vlib/worker.py`) instead of harness errors, so that a mutant that
makes the library raise can no longer end as "inconclusive".
"""
p = HOME / "DESIGN.md"
s = p.read_text()
b, e = "<!-- section12:begin -->", "<!-- section12:end -->"
if b in s:
    s = s[: s.index(b) + len(b)] + "\n" + text + s[s.index(e):]
else:
    s = s.rstrip("\n") + "\n\n" + b + "\n" + text + e + "\n"
p.write_text(s)
print("section 12 written:", head.strip().splitlines()[0])
